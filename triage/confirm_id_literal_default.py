# Triage-only (NOT a check): ID default value written as an integer in the SDL is
# delivered as an int to the resolver, while the same value through a variable
# (or as a query literal) is delivered as the string "4".
import sys, asyncio
sys.path.insert(0, "/repo")
import cffi
class _FakeLib:
    def __getattr__(self, n): raise RuntimeError("libgraphqlparser absent")
cffi.FFI.dlopen = lambda self, *a, **k: _FakeLib()
from tartiflette import create_engine, Resolver
from tartiflette.scalar.builtins.id import ScalarID
from tartiflette.language.ast import IntValueNode

print("ID.parse_literal(IntValueNode(value=4))  [SDL default path] ->", repr(ScalarID().parse_literal(IntValueNode(value=4))))
print("ID.parse_literal(IntValueNode(value='4')) [query literal]    ->", repr(ScalarID().parse_literal(IntValueNode(value='4'))))
print("ID.coerce_input(4)                        [variable]         ->", repr(ScalarID().coerce_input(4)))

seen = {}
async def main():
    @Resolver("Query.node", schema_name="t_id")
    async def r(parent, args, ctx, info):
        seen.update(args)
        return "x"
    eng = await create_engine("type Query { node(id: ID = 4): String }", schema_name="t_id")
    from tartiflette.language.parsers.libgraphqlparser.transformers import document_from_ast_json
    from tartiflette.execution.execute import execute
    loc = {"start": {"line": 1, "column": 1}, "end": {"line": 1, "column": 2}}
    doc = {"kind": "Document", "loc": loc, "definitions": [{"kind": "OperationDefinition", "loc": loc, "operation": "query", "name": None,
           "variableDefinitions": None, "directives": None, "selectionSet": {"kind": "SelectionSet", "loc": loc, "selections": [
           {"kind": "Field", "loc": loc, "alias": None, "name": {"kind": "Name", "loc": loc, "value": "node"}, "arguments": None, "directives": None, "selectionSet": None}]}}]}
    d = document_from_ast_json(doc, "{node}", eng._schema)
    print("validation errors:", d.validators.errors)
    res = await execute(eng._schema, d, eng._build_response, None, None, None, None)
    print("response:", res, " resolver saw args:", seen, "type:", type(seen.get("id")).__name__)
asyncio.run(main())
