import sys, asyncio
sys.path.insert(0, "/repo")
import cffi
class _FakeLib:
    def __getattr__(self, n): raise RuntimeError("libgraphqlparser absent")
cffi.FFI.dlopen = lambda self, *a, **k: _FakeLib()
import tartiflette
from tartiflette import create_engine, Resolver
from tartiflette.language.parsers.libgraphqlparser.transformers import document_from_ast_json
L={"start":{"line":1,"column":1},"end":{"line":1,"column":2}}
def name(v): return {"kind":"Name","loc":L,"value":v}
def field(n, args=None, sels=None, alias=None, directives=None):
    return {"kind":"Field","loc":L,"alias":alias,"name":name(n),"arguments":args,"directives":directives,"selectionSet":selset(sels) if sels else None}
def selset(sels): return {"kind":"SelectionSet","loc":L,"selections":sels}
def inline(tc, sels): return {"kind":"InlineFragment","loc":L,"typeCondition":{"kind":"NamedType","loc":L,"name":name(tc)} if tc else None,"directives":None,"selectionSet":selset(sels)}
def op(sels, vardefs=None, opname=None, kind="query"): return {"kind":"OperationDefinition","loc":L,"operation":kind,"name":name(opname) if opname else None,"variableDefinitions":vardefs,"directives":None,"selectionSet":selset(sels)}
def doc(defs): return {"kind":"Document","loc":L,"definitions":defs}
def var(n): return {"kind":"Variable","loc":L,"name":name(n)}
def vardef(n, tname): return {"kind":"VariableDefinition","loc":L,"variable":var(n),"type":{"kind":"NamedType","loc":L,"name":name(tname)},"defaultValue":None}
def arg(n, v): return {"kind":"Argument","loc":L,"name":name(n),"value":v}
def lst(vals): return {"kind":"ListValue","loc":L,"values":vals}
def obj(fields): return {"kind":"ObjectValue","loc":L,"fields":[{"kind":"ObjectField","loc":L,"name":name(k),"value":v} for k,v in fields.items()]}
SDL = """
type Dog { name: String  bark: Int }
type Cat { name: String  meow: Int }
interface Empty { x: Int }
input Inp { a: Int }
type Query { dog: Dog  cat: Cat  ints(xs: [Int], o: Inp): String  e: Empty }
"""
async def main():
    seen = {}
    @Resolver("Query.ints", schema_name="t2")
    async def r(parent, args, ctx, info):
        seen["args"] = args; return "ok"
    eng = await create_engine(SDL, schema_name="t2")
    schema = eng._schema
    d = document_from_ast_json(doc([op([field("dog", sels=[inline("Cat", [field("meow")])])])]), "q1", schema)
    print("F2 { dog { ... on Cat { meow } } } validation errors:", d.validators.errors)
    d = document_from_ast_json(doc([op([field("e", sels=[inline("Empty", [field("x")])])])]), "q1b", schema)
    print("F2b { e { ... on Empty { x } } } validation errors:", d.validators.errors)
    for q in ([field("dog", sels=[inline("Dog", [field("bark")])])], [field("dog", sels=[inline(None, [field("bark")])])],
              [field("dog", sels=[field("name"), inline("Dog", [inline("Dog", [field("bark")])])])], [inline("Query", [field("cat", sels=[field("meow")])])]):
        d = document_from_ast_json(doc([op(q)]), "ok", schema)
        print("   control (valid inline spreads) validation errors:", d.validators.errors)
    d = document_from_ast_json(doc([op([field("ints", args=[arg("xs", lst([var("v")])), arg("o", obj({"a": var("v")}))])], vardefs=[vardef("v","String")], opname="Q")]), "q2", schema)
    print("F6 query Q($v: String) { ints(xs: [$v], o: {a: $v}) } validation errors:", d.validators.errors)
    d2 = document_from_ast_json(doc([op([field("ints", args=[arg("xs", var("v"))])], vardefs=[vardef("v","String")], opname="Q")]), "q3", schema)
    print("   control: ints(xs: $v) with $v: String ->", [e.message for e in d2.validators.errors])
    # execute F6 document through the real executor
    from tartiflette.execution.execute import execute
    resp = await execute(schema, d, eng._build_response, None, None, {"v": "not-an-int"}, "Q")
    print("F6 executed:", resp, "resolver saw args:", seen.get("args"))
asyncio.run(main())
