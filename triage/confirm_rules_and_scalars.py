# Triage-only harness (NOT part of the verification machinery): imports the real
# package with the missing C parser library stubbed, to confirm suspected defects.
import sys, types
sys.path.insert(0, "/repo")
import cffi
class _FakeLib: 
    def __getattr__(self, n): raise RuntimeError("libgraphqlparser absent")
cffi.FFI.dlopen = lambda self, *a, **k: _FakeLib()
import tartiflette
from tartiflette.scalar.builtins.int import ScalarInt
from tartiflette.scalar.builtins.float import ScalarFloat
from tartiflette.language.ast import *
from decimal import Decimal
import json
print("F4 Int.coerce_output(3.0) ->", repr(ScalarInt().coerce_output(3.0)), type(ScalarInt().coerce_output(3.0)).__name__)
r = ScalarInt().coerce_output(Decimal(7)); print("F4 Int.coerce_output(Decimal(7)) ->", repr(r))
try: json.dumps({"x": r})
except Exception as e: print("   json.dumps fails:", e)
print("F5 Float.parse_literal(FloatValueNode('1e999')) ->", ScalarFloat().parse_literal(FloatValueNode(value="1e999")))
try: print("   Float.coerce_input(inf) ->", ScalarFloat().coerce_input(float('inf')))
except Exception as e: print("   Float.coerce_input(inf) raises:", e)

from tartiflette.language.validators.query.fragment_spreads_must_not_form_cycles import FragmentSpreadsMustNotFormCycles
def frag(name, spreads):
    return FragmentDefinitionNode(name=NameNode(name), type_condition=NamedTypeNode(NameNode("T")), selection_set=SelectionSetNode(selections=[FragmentSpreadNode(name=NameNode(s)) for s in spreads]+[FieldNode(name=NameNode("x"), alias=None, arguments=[], directives=[], selection_set=None)]), directives=[])
rule = FragmentSpreadsMustNotFormCycles(True)
print("F1 diamond A->{B,C}, B->D, C->D :", rule.validate(fragments=[frag("A",["B","C"]), frag("B",["D"]), frag("C",["D"]), frag("D",[])]))
print("F1 repeated spread A->{B,B}     :", rule.validate(fragments=[frag("A",["B","B"]), frag("B",[])]))
print("   true cycle A->B->A            :", rule.validate(fragments=[frag("A",["B"]), frag("B",["A"])]))
# nested cycle not detected
nested = FragmentDefinitionNode(name=NameNode("A"), type_condition=NamedTypeNode(NameNode("T")), directives=[], selection_set=SelectionSetNode(selections=[FieldNode(name=NameNode("f"), alias=None, arguments=[], directives=[], selection_set=SelectionSetNode(selections=[FragmentSpreadNode(name=NameNode("A"))]))]))
print("F7 nested self-cycle A{f{...A}}  :", rule.validate(fragments=[nested]))

from tartiflette.language.validators.query.single_root_field import SingleRootField
def op(name, nsel):
    return OperationDefinitionNode(operation_type="subscription", name=NameNode(name), variable_definitions=[], directives=[], selection_set=SelectionSetNode(selections=[FieldNode(name=NameNode(f"f{i}"), alias=None, arguments=[], directives=[], selection_set=None) for i in range(nsel)]))
print("F3 two subscriptions, 2nd has 2 roots:", SingleRootField().validate(path=None, definitions={"OperationDefinition":[op("A",1), op("B",2)], "FragmentDefinition":[]}))
print("   control: 1st has 2 roots        :", SingleRootField().validate(path=None, definitions={"OperationDefinition":[op("B",2)], "FragmentDefinition":[]}))
