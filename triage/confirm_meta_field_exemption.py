# Triage-only (see DESIGN.md §1.5): is an undefined `__`-prefixed field refused?
import sys, asyncio
sys.path.insert(0, "/repo")
import cffi
class _FakeLib:
    def __getattr__(self, n): raise RuntimeError("libgraphqlparser absent")
cffi.FFI.dlopen = lambda self, *a, **k: _FakeLib()
import tartiflette
from tartiflette import create_engine
from tartiflette.language.parsers.libgraphqlparser.transformers import document_from_ast_json
from tartiflette.execution.execute import execute
L={"start":{"line":1,"column":1},"end":{"line":1,"column":2}}
def name(v): return {"kind":"Name","loc":L,"value":v}
def field(n, sels=None): return {"kind":"Field","loc":L,"alias":None,"name":name(n),"arguments":None,"directives":None,"selectionSet":{"kind":"SelectionSet","loc":L,"selections":sels} if sels else None}
def doc(sels): return {"kind":"Document","loc":L,"definitions":[{"kind":"OperationDefinition","loc":L,"operation":"query","name":None,"variableDefinitions":None,"directives":None,"selectionSet":{"kind":"SelectionSet","loc":L,"selections":sels}}]}
async def main():
    eng = await create_engine("interface I { x: Int } type A implements I { x: Int } type Query { a: A i: I }", schema_name="t3")
    for label, d in [("{ __foo }", doc([field("__foo")])), ("{ a { __bar x } }", doc([field("a", [field("__bar"), field("x")])])), ("{ nope }", doc([field("nope")])), ("{ i { __typename } }", doc([field("i", [field("__typename")])]))]:
        dn = document_from_ast_json(d, label, eng._schema)
        errs = [e.message for e in dn.validators.errors]
        out = None
        if not errs:
            out = await execute(eng._schema, dn, eng._build_response, {"a": {"x": 1}}, None, None, None)
        print(f"{label:22s} validation errors={errs} response={out}")
asyncio.run(main())
