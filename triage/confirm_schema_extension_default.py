# Triage-only (NOT a check): `extend schema @directive` without operation types makes
# GraphQLSchemaExtension.bake raise (`[].items()`), GraphQLSchema.bake swallows it, and every
# extension declared after it is silently dropped.
import sys, asyncio
sys.path.insert(0, "/repo")
import cffi
class _FakeLib:
    def __getattr__(self, n): raise RuntimeError("libgraphqlparser absent")
cffi.FFI.dlopen = lambda self, *a, **k: _FakeLib()
from tartiflette import create_engine, Directive

async def main():
    @Directive("tag", schema_name="t_ext")
    class Tag:
        pass
    sdl = """
    directive @tag on SCHEMA
    type Query { a: Int }
    extend schema @tag
    extend type Query { b: Int }
    """
    eng = await create_engine(sdl, schema_name="t_ext")
    fields = sorted(f for f in eng._schema.find_type("Query").implemented_fields if not f.startswith("__"))
    print("Query fields after `extend schema @tag` + `extend type Query { b: Int }`:", fields)
    assert fields == ["a", "b"], "extension declared after `extend schema @tag` was dropped"
asyncio.run(main())
