#!/usr/bin/env python3
"""Replays every kept seeded change, in memory, against every property's quick check and prints which rules report it.

usage: /venv/bin/python tools/seed_matrix.py [seed-id-substring ...]   (run from /verif)
"""
import json
import os
import sys
from concurrent.futures import ProcessPoolExecutor

sys.path.insert(0, os.path.dirname(os.path.dirname(os.path.abspath(__file__))))
SEEDED = os.path.join(os.path.dirname(os.path.dirname(os.path.abspath(__file__))), "seeded")
PROPS = [f"C{i:02d}" for i in range(1, 19)]


_BASE = {}


def _base(p):
    if not _BASE:
        from sa.__main__ import run_check
        from sa.model import REPO_ROOT, Repo

        base = Repo(REPO_ROOT)
        for x in PROPS:
            b = run_check(x, "quick", repo=base, write=False, quiet=True)
            _BASE[x] = {o.key() for o in b.obligations if not o.ok}
    return _BASE[p]


def one(d):
    from sa import q
    from sa.__main__ import run_check
    from sa.model import REPO_ROOT, Repo
    from sa.patch import apply_unified_diff

    meta = json.load(open(os.path.join(SEEDED, d, "meta.json")))
    ov = apply_unified_diff(REPO_ROOT, open(os.path.join(SEEDED, d, "patch.diff")).read())
    if ov is None:
        return d, meta["breaks_property"], None
    q._cfg_cache.clear()
    repo = Repo(REPO_ROOT, overrides=ov)
    out = {}
    for p in PROPS:
        bf = _base(p)
        q._cfg_cache.clear()
        ck = run_check(p, "quick", repo=repo, write=False, quiet=True)
        q._cfg_cache.clear()
        new = sorted({o.rule.split(".")[-1] for o in ck.obligations if not o.ok and o.key() not in bf})
        if new or ck.errors:
            out[p] = new + (["ERR"] if ck.errors and not new else [])
    return d, meta["breaks_property"], out


def main():
    update = "--update-meta" in sys.argv
    if update:
        sys.argv.remove("--update-meta")
    pats = sys.argv[1:]
    ds = sorted(d for d in os.listdir(SEEDED) if os.path.exists(os.path.join(SEEDED, d, "meta.json")) and (not pats or any(p in d for p in pats)))
    with ProcessPoolExecutor(max_workers=16) as ex:
        for d, tgt, out in ex.map(one, ds):
            if out is None:
                print(f"{d:<14} STALE")
                continue
            own = out.get(tgt)
            others = {k: v for k, v in out.items() if k != tgt}
            print(f"{d:<14} target {tgt}: {','.join(own) if own else 'MISSED':<14} others: " + " ".join(f"{k}[{','.join(v)}]" for k, v in sorted(others.items())))
            if update:
                mp = os.path.join(SEEDED, d, "meta.json")
                meta = json.load(open(mp))
                meta["current_matrix"] = {"how": "tools/seed_matrix.py: patch replayed in memory (sa/patch.py) against every property's quick check of the committed checkers",
                                          "target_rules": own or [], "other_checks": others}
                json.dump(meta, open(mp, "w"), indent=1)


if __name__ == "__main__":
    main()
