#!/usr/bin/env python3
"""Confirms a seeded change and runs the registered checks against it.

usage: tools/eval_seed.py <seed_id> <patch.diff> <demo.py> <property> [--note note.md] [--keep]

1. confirmation in a scratch worktree of /repo under /tmp (removed afterwards):
   patch applies, the pinned suite still reports 641 passed, the demonstration fails with
   the patch and passes without it;
2. detection: the patch is applied to /repo itself (git apply), every quick check is run,
   and /repo is restored (git checkout -- .);
3. with --keep the change is stored as /verif/seeded/<seed_id>/{patch.diff, demo.py, gqlast.py, meta.json}.
"""
import argparse
import json
import os
import re
import shutil
import subprocess
import sys

VERIF = os.path.dirname(os.path.dirname(os.path.abspath(__file__)))
REPO = "/repo"
PY = "/venv/bin/python"
KIT = os.path.join(VERIF, "seeded", "_kit")


def sh(cmd, cwd=None, timeout=900):
    p = subprocess.run(cmd, shell=True, cwd=cwd, capture_output=True, text=True, timeout=timeout)
    return p.returncode, p.stdout + p.stderr


def confirm(patch, demo):
    wt = f"/tmp/confirm_{os.getpid()}"
    sh(f"git -C {REPO} worktree remove --force {wt}")
    rc, out = sh(f"git -C {REPO} worktree add -q --detach {wt} HEAD")
    res = {"applies": False}
    try:
        os.makedirs(f"{wt}/_seed", exist_ok=True)
        shutil.copy(os.path.join(KIT, "gqlast.py"), f"{wt}/_seed/gqlast.py")
        shutil.copy(demo, f"{wt}/_seed/demo.py")
        rc, out = sh(f"git apply {os.path.abspath(patch)}", cwd=wt)
        res["applies"] = rc == 0
        if rc != 0:
            res["apply_output"] = out[-400:]
            return res
        rc, out = sh(f"{PY} -m pytest -q -p no:cacheprovider --timeout=900 --continue-on-collection-errors 2>&1 | tail -3", cwd=wt)
        m = re.search(r"(\d+) passed", out)
        res["tests_passed_with_patch"] = int(m.group(1)) if m else None
        rc, out = sh(f"{PY} demo.py", cwd=f"{wt}/_seed", timeout=300)
        res["demo_rc_with_patch"] = rc
        res["demo_tail_with_patch"] = out[-300:]
        sh("git checkout -- tartiflette", cwd=wt)
        rc, out = sh(f"{PY} demo.py", cwd=f"{wt}/_seed", timeout=300)
        res["demo_rc_without_patch"] = rc
        res["demo_tail_without_patch"] = out[-300:]
    finally:
        sh(f"git -C {REPO} worktree remove --force {wt}")
        shutil.rmtree(wt, ignore_errors=True)
    res["confirmed"] = bool(res.get("applies") and res.get("tests_passed_with_patch") == 641 and res.get("demo_rc_with_patch") not in (0, None)
                            and res.get("demo_rc_without_patch") == 0)
    return res


def detect(patch, props, restore=True):
    rc, out = sh(f"git -C {REPO} status --porcelain")
    if out.strip():
        raise SystemExit("/repo is not clean: " + out)
    rc, out = sh(f"git -C {REPO} apply {os.path.abspath(patch)}")
    if rc != 0:
        raise SystemExit("patch does not apply to /repo: " + out)
    fired = {}

    def one(p):
        rc, out = sh(f"{PY} -m sa check {p} --tier quick", cwd=VERIF)
        viol = re.findall(r"rule=(\S+) at (\S+) instance=(.*)", out)
        return p, {"exit": rc, "violations": [{"rule": r, "where": w, "instance": i[:160]} for r, w, i in viol][:8],
                   "analysis_errors": [l[:200] for l in out.splitlines() if l.startswith("ANALYSIS-ERROR")][:3]}

    from concurrent.futures import ThreadPoolExecutor
    try:
        with ThreadPoolExecutor(16) as ex:
            fired = dict(ex.map(one, props))
    finally:
        sh(f"git -C {REPO} checkout -- .")
        # restore the evidence files written while the patch was applied
        if restore:
            with ThreadPoolExecutor(16) as ex:
                list(ex.map(one, props))
    return fired


def main():
    ap = argparse.ArgumentParser()
    ap.add_argument("seed_id")
    ap.add_argument("patch")
    ap.add_argument("demo")
    ap.add_argument("property")
    ap.add_argument("--note")
    ap.add_argument("--keep", action="store_true")
    ap.add_argument("--needs", default="")
    a = ap.parse_args()
    props = [f"C{i:02d}" for i in range(1, 19)]
    conf = confirm(a.patch, a.demo)
    print("confirmation:", json.dumps({k: v for k, v in conf.items() if "tail" not in k}))
    if not conf.get("confirmed"):
        print(conf.get("demo_tail_with_patch", ""), conf.get("demo_tail_without_patch", ""), conf.get("apply_output", ""))
        print("NOT CONFIRMED - not kept")
        return 3
    fired = detect(a.patch, props)
    hit = {p: v for p, v in fired.items() if v["exit"] != 0}
    own = fired[a.property]
    print(f"target {a.property}: exit={own['exit']} rules={[v['rule'] for v in own['violations']]}")
    for p, v in hit.items():
        if p != a.property:
            print(f"  also {p}: exit={v['exit']} rules={[x['rule'] for x in v['violations']]} {v['analysis_errors'][:1]}")
    if a.keep:
        d = os.path.join(VERIF, "seeded", a.seed_id)
        os.makedirs(d, exist_ok=True)
        if os.path.abspath(a.patch) != os.path.join(d, "patch.diff"):
            shutil.copy(a.patch, os.path.join(d, "patch.diff"))
        if os.path.abspath(a.demo) != os.path.join(d, "demo.py"):
            shutil.copy(a.demo, os.path.join(d, "demo.py"))
        note = open(a.note).read() if a.note and os.path.exists(a.note) else ""
        old_meta = os.path.join(d, "meta.json")
        if not note and os.path.exists(old_meta):
            note = json.load(open(old_meta)).get("note", "")
        meta = {
            "id": a.seed_id,
            "breaks_property": a.property,
            "what_it_needs_to_manifest": a.needs or note,
            "note": note,
            "confirmed_by": "tools/eval_seed.py: scratch worktree of /repo, `git apply`, pinned suite (641 passed), demo.py fails with the patch and passes without",
            "confirmation": {k: v for k, v in conf.items()},
            "checks_run": "every registered quick check with the patch applied to /repo (git apply ... ; git checkout -- .)",
            "detected_by_target_check": own["exit"] == 1,
            "target_check": own,
            "other_checks_that_fire": {p: v for p, v in hit.items() if p != a.property},
        }
        json.dump(meta, open(os.path.join(d, "meta.json"), "w"), indent=1)
        print("kept in", d)
    return 0 if own["exit"] == 1 else 1


if __name__ == "__main__":
    sys.exit(main())
