#!/usr/bin/env python3
"""In-memory detection of candidate patches (nothing is applied to /repo): tools/detect_patches.py Cxx=patch.diff ...
Prints, per patch, the rules of every property's quick check that report something new."""
import os, sys
from concurrent.futures import ProcessPoolExecutor
sys.path.insert(0, os.path.dirname(os.path.dirname(os.path.abspath(__file__))))
import tools.seed_matrix as sm  # noqa


def one(arg):
    from sa import q
    from sa.__main__ import run_check
    from sa.model import REPO_ROOT, Repo
    from sa.patch import apply_unified_diff
    tgt, path = arg.split("=", 1)
    ov = apply_unified_diff(REPO_ROOT, open(path).read())
    if ov is None:
        return tgt, path, None, {}
    repo = Repo(REPO_ROOT, overrides=ov)
    out, errs = {}, {}
    for p in sm.PROPS:
        bf = sm._base(p)
        q._cfg_cache.clear()
        ck = run_check(p, "quick", repo=repo, write=False, quiet=True)
        new = [o for o in ck.obligations if not o.ok and o.key() not in bf]
        if new:
            out[p] = sorted({o.rule.split(".")[-1] for o in new})
        if ck.errors:
            errs[p] = ck.errors[0][:300]
    return tgt, path, out, errs


if __name__ == "__main__":
    with ProcessPoolExecutor(16) as ex:
        for tgt, path, out, errs in ex.map(one, sys.argv[1:]):
            if out is None:
                print(f"{tgt} {path}: STALE (does not apply)")
                continue
            own = out.get(tgt)
            print(f"{tgt:<4} target: {','.join(own) if own else 'MISSED':<12} others: " + " ".join(f"{k}[{','.join(v)}]" for k, v in sorted(out.items()) if k != tgt)
                  + ("  ERR: " + str(errs) if errs else ""), flush=True)
