#!/usr/bin/env python3
"""Replays every kept behaviour-preserving refactoring (benign/<id>/patch.diff), in memory, against every property's
quick check and prints the false alarms.   usage: /venv/bin/python tools/benign_matrix.py [--update-meta] [id-substring ...]"""
import json
import os
import sys
from concurrent.futures import ProcessPoolExecutor

VERIF = os.path.dirname(os.path.dirname(os.path.abspath(__file__)))
sys.path.insert(0, VERIF)
BENIGN = os.path.join(VERIF, "benign")
PROPS = [f"C{i:02d}" for i in range(1, 19)]
_BASE = {}


def _base(p):
    if not _BASE:
        from sa.__main__ import run_check
        from sa.model import REPO_ROOT, Repo

        base = Repo(REPO_ROOT)
        for x in PROPS:
            b = run_check(x, "quick", repo=base, write=False, quiet=True)
            _BASE[x] = {o.key() for o in b.obligations if not o.ok}
    return _BASE[p]


def one(d):
    from sa import q
    from sa.__main__ import run_check
    from sa.model import REPO_ROOT, Repo
    from sa.patch import apply_unified_diff

    ov = apply_unified_diff(REPO_ROOT, open(os.path.join(BENIGN, d, "patch.diff")).read())
    if ov is None:
        return d, None
    repo = Repo(REPO_ROOT, overrides=ov)
    out = {}
    for p in PROPS:
        bf = _base(p)
        q._cfg_cache.clear()
        ck = run_check(p, "quick", repo=repo, write=False, quiet=True)
        new = [o for o in ck.obligations if not o.ok and o.key() not in bf]
        if new or ck.errors:
            out[p] = {"violations": [{"rule": o.rule, "where": o.where, "instance": o.instance[:160], "construct": (o.construct or "")[:80]} for o in new][:8],
                      "analysis_errors": [e[:200] for e in ck.errors][:3]}
    return d, out


def main():
    update = "--update-meta" in sys.argv
    pats = [a for a in sys.argv[1:] if not a.startswith("--")]
    ds = sorted(d for d in os.listdir(BENIGN) if os.path.exists(os.path.join(BENIGN, d, "patch.diff")) and (not pats or any(p in d for p in pats)))
    n_alarm = 0
    with ProcessPoolExecutor(max_workers=16) as ex:
        for d, out in ex.map(one, ds):
            if out is None:
                print(f"{d:<16} STALE")
                continue
            n_alarm += bool(out)
            rules = sorted({v["rule"] + ":" + v["construct"][:40] for x in out.values() for v in x["violations"]}) + [f"{p}:ERR" for p, x in out.items() if x["analysis_errors"] and not x["violations"]]
            print(f"{d:<16} " + ("silent" if not out else "ALARM " + " | ".join(rules)[:400]))
            if update:
                mp = os.path.join(BENIGN, d, "meta.json")
                meta = json.load(open(mp)) if os.path.exists(mp) else {"id": d}
                meta.setdefault("first_run_alarms", out)
                meta["current_alarms"] = out
                json.dump(meta, open(mp, "w"), indent=1)
    print(f"{len(ds)} refactorings, {n_alarm} raise an alarm")


if __name__ == "__main__":
    main()
