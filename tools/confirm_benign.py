#!/usr/bin/env python3
"""Confirms kept refactorings that have no confirmation yet (scratch worktree of /repo: patch applies, 641 passed, the demo
prints its recorded transcript with and without the patch) and records the result in their meta.json.
usage: tools/confirm_benign.py [id-substring ...]"""
import json, os, sys
sys.path.insert(0, os.path.dirname(os.path.abspath(__file__)))
import eval_benign as eb

B = os.path.join(eb.VERIF, "benign")
pats = sys.argv[1:]
for d in sorted(os.listdir(B)):
    mp = os.path.join(B, d, "meta.json")
    if not os.path.exists(mp) or (pats and not any(p in d for p in pats)):
        continue
    meta = json.load(open(mp))
    if meta.get("confirmation") and meta["confirmation"].get("confirmed") is not None:
        continue
    exp = [f for f in os.listdir(os.path.join(B, d)) if f.startswith("expected") and f != "expected.txt"]
    expected = os.path.join(B, d, exp[0] if exp else "expected.txt")
    # the demo opens expected<i>.txt next to it and is named demo<i>.py by its author: recreate that name
    i = "".join(ch for ch in os.path.basename(expected) if ch.isdigit()) or "1"
    demo = os.path.join("/tmp", f"demo{i}.py")
    import shutil
    shutil.copy(os.path.join(B, d, "demo.py"), demo)
    conf = eb.confirm(os.path.join(B, d, "patch.diff"), demo, expected)
    meta["confirmation"] = {k: v for k, v in conf.items() if "tail" not in k}
    json.dump(meta, open(mp, "w"), indent=1)
    print(d, meta["confirmation"], flush=True)
