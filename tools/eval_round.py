#!/usr/bin/env python3
"""Evaluates a whole round of seeded changes: tools/eval_round.py <root> <n1> <n2>
<root>/<Cxx>/{patch1.diff,demo1.py,note1.md,patch2.diff,...} become seeds Cxx-agent-<n1> / Cxx-agent-<n2>.
Confirmation (scratch worktrees under /tmp, removed afterwards) runs in parallel; detection applies each patch to /repo
(git apply), runs the target property's registered quick check and every other quick check, and restores /repo."""
import json
import os
import shutil
import sys
from concurrent.futures import ThreadPoolExecutor

sys.path.insert(0, os.path.dirname(os.path.abspath(__file__)))
import eval_seed as es  # noqa: E402


def conf_one(job):
    sid, prop, patch, demo, note = job
    wt_conf = es.confirm.__globals__
    return job, _confirm(patch, demo, sid)


def _confirm(patch, demo, sid):
    # eval_seed.confirm names its worktree after the pid: give each thread its own
    import re
    wt = f"/tmp/confirm_{sid}"
    es.sh(f"git -C {es.REPO} worktree remove --force {wt}")
    es.sh(f"git -C {es.REPO} worktree add -q --detach {wt} HEAD")
    res = {"applies": False}
    try:
        os.makedirs(f"{wt}/_seed", exist_ok=True)
        shutil.copy(os.path.join(es.KIT, "gqlast.py"), f"{wt}/_seed/gqlast.py")
        shutil.copy(demo, f"{wt}/_seed/demo.py")
        rc, out = es.sh(f"git apply {os.path.abspath(patch)}", cwd=wt)
        res["applies"] = rc == 0
        if rc != 0:
            res["apply_output"] = out[-400:]
            return res
        rc, out = es.sh(f"{es.PY} -m pytest -q -p no:cacheprovider --timeout=900 --continue-on-collection-errors 2>&1 | tail -3", cwd=wt, timeout=1800)
        m = re.search(r"(\d+) passed", out)
        res["tests_passed_with_patch"] = int(m.group(1)) if m else None
        rc, out = es.sh(f"{es.PY} demo.py", cwd=f"{wt}/_seed", timeout=600)
        res["demo_rc_with_patch"] = rc
        res["demo_tail_with_patch"] = out[-300:]
        es.sh("git checkout -- tartiflette", cwd=wt)
        rc, out = es.sh(f"{es.PY} demo.py", cwd=f"{wt}/_seed", timeout=600)
        res["demo_rc_without_patch"] = rc
        res["demo_tail_without_patch"] = out[-300:]
    finally:
        es.sh(f"git -C {es.REPO} worktree remove --force {wt}")
        shutil.rmtree(wt, ignore_errors=True)
    res["confirmed"] = bool(res.get("applies") and res.get("tests_passed_with_patch") == 641 and res.get("demo_rc_with_patch") not in (0, None)
                            and res.get("demo_rc_without_patch") == 0)
    return res


def main():
    root, n1, n2 = sys.argv[1], sys.argv[2], sys.argv[3]
    jobs = []
    for prop in sorted(os.listdir(root)):
        for i, n in ((1, n1), (2, n2)):
            p = f"{root}/{prop}/patch{i}.diff"
            if os.path.exists(p):
                jobs.append((f"{prop}-agent-{n}", prop, p, f"{root}/{prop}/demo{i}.py", f"{root}/{prop}/note{i}.md"))
    with ThreadPoolExecutor(8) as ex:
        confs = list(ex.map(conf_one, jobs))
    props = [f"C{i:02d}" for i in range(1, 19)]
    for (sid, prop, patch, demo, note), conf in confs:
        print(sid, "confirmation:", json.dumps({k: v for k, v in conf.items() if "tail" not in k}), flush=True)
        if not conf.get("confirmed"):
            print("  NOT CONFIRMED - not kept:", conf.get("demo_tail_with_patch", "")[-200:], "|", conf.get("demo_tail_without_patch", "")[-200:])
            continue
        fired = es.detect(patch, props, restore=False)
        own = fired[prop]
        hit = {p: v for p, v in fired.items() if v["exit"] != 0 and p != prop}
        print(f"  target {prop}: exit={own['exit']} rules={sorted({v['rule'] for v in own['violations']})}; others: {sorted(hit)}", flush=True)
        d = os.path.join(es.VERIF, "seeded", sid)
        os.makedirs(d, exist_ok=True)
        shutil.copy(patch, os.path.join(d, "patch.diff"))
        shutil.copy(demo, os.path.join(d, "demo.py"))
        n = open(note).read() if os.path.exists(note) else ""
        meta = {
            "id": sid, "breaks_property": prop, "what_it_needs_to_manifest": n, "note": n,
            "confirmed_by": "tools/eval_round.py: scratch worktree of /repo, `git apply`, pinned suite (641 passed), demo.py fails with the patch and passes without",
            "confirmation": conf,
            "checks_run": "every registered quick check with the patch applied to /repo (git apply ... ; git checkout -- .)",
            "detected_by_target_check": own["exit"] == 1, "target_check": own, "other_checks_that_fire": hit,
        }
        json.dump(meta, open(os.path.join(d, "meta.json"), "w"), indent=1)
    # evidence files were rewritten while patches were applied: restore them from the clean tree
    es.sh(f"git -C {es.VERIF} checkout -- evidence")


if __name__ == "__main__":
    main()
