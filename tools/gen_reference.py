#!/usr/bin/env python3
"""Regenerates sa/reference_locals.json (local names and alpha-digests of every function) from /repo's current tree.
Run only on a tree whose local names are the ones the rules were written against (the pinned tree plus fix: commits)."""
import json
import os
import sys

sys.path.insert(0, os.path.dirname(os.path.dirname(os.path.abspath(__file__))))
from sa import alpha  # noqa: E402
from sa.model import REPO_ROOT  # noqa: E402

ref = alpha.build_reference(REPO_ROOT)
json.dump(ref, open(alpha.REF_FILE, "w"), indent=0, sort_keys=True)
print(len(ref), "functions with locals")
