#!/usr/bin/env python3
"""Regenerates /verif/MANIFEST.json from the table below and the set of built checkers."""
import json
import os

HERE = os.path.dirname(os.path.dirname(os.path.abspath(__file__)))
PY = "/venv/bin/python"

TABLE = {
    "C01": dict(
        technique="CFG dominance and control dependence + finite decision tables + table agreement (stdlib ast)",
        text="Decides the structural part of the execution algorithm on /repo's source: every selection kind has an arm in CollectFields, fields accumulate under the response key (alias else name) in first-appearance order, the skip/include gate, visited-set and type-condition tests dominate every collecting effect, sibling results stay positionally aligned, the effective resolver is called exactly once per path with (parent value, coerced arguments of the first node, request context, info), defaults read attribute/key named like the field, each output type class is bound to the specified completion coercer and wrappers fold outermost-first, type-resolver precedence is field > type > default. Not decided: equality of `data` with the specification's value for all schemas x documents x data trees (value-level, unbounded).",
        note="Rules quantify over all CFG paths of 14 functions, 3 selection kinds, 5 output type classes; assumes no monkey-patching and that user resolvers/hooks are outside the analysed program.",
    ),
    "C02": dict(
        technique="finite decision tables on the CFG + try/except funnel analysis + exception-handler census",
        text="Decides each local step of failure containment: handle_field_error raises iff the field type is non-null and otherwise records and returns null; every completion goes through one try/except funnel; non-null and null wrappers; both list coercers complete items through the funnel with Path(path, index) and the item type and raise collected failures after all items; execute_fields raises before building the object and uses return_exceptions; execute_operation records and nulls; error records carry nodes, root-first path, user message, extensions only when set; every broad handler of the request phase re-raises, records or keeps the exception as a value (4 frozen, reasoned exceptions). Not decided: exact nulling position over all nullability layouts (composition), absence of spurious errors, locations inside the field text.",
        note="Local steps only; the induction over type nestings is stated, not mechanised.",
    ),
    "C03": dict(
        technique="syntactic type inference of return expressions + guard dominance on the CFG",
        text="Decides that every successful return of the built-in scalars' coerce_output is syntactically of the wire type and dominated by the Int range / Float finiteness guards, enum output fails closed on a miss, both list coercers reject non-lists before iterating, ensure_valid_runtime_type returns only after the object-type and possible-type checks, and Engine.execute / parse_and_validate_query are wrapped in catch-alls whose every exit returns an errors-only response. Not decided: custom scalars and hooks, JSON-serialisability beyond built-ins, exact key sets beyond the structural part decided by R7.",
        note="Type inference is syntactic (constructor calls, literals, isinstance-guarded names); no type checker is available in this sandbox.",
    ),
    "C10": dict(
        technique="guard dominance with evaluated constants + syntactic return typing + accepted-literal-kind table",
        text="Decides, for Int/Float/String/Boolean/ID x {coerce_output, coerce_input, parse_literal}: wire-typed returns; integrality, inclusive 32-bit range (constants evaluated), bool rejection, finiteness and exact-type guards dominating every success; the literal kinds each parse_literal accepts equal the specification's (also Date/Time/DateTime); every failure is a TypeError / the invalid value; the generic scalar coercers delegate to the right method. Not decided: the value-level laws (same value, idempotence, literal = variable equality) - a static rule pretending to decide them would be a test in disguise.",
        note="Guards, not values. NODE_VALUE_TYPES (python type of node.value per AST class) is a frozen, reasoned table.",
    ),

    "C04": dict(
        technique="finite decision table over 6 predicates simulated on the CFG + structural obligations of the input coercers",
        text="Decides CoerceVariableValues as a decision table (22 feasible valuations of provided/null/default/non-null/default-invalid/coercion-errors) simulated on variable_coercer's CFG; zip/skip/accumulate structure of coerce_variables; abort-before-execution guards in build_execution_context, execute and create_source_event_stream; wrapper composition and leaf table of get_input_coercer; tables of the input non-null, null and list wrappers and of input-object field coercion (defaults, required, unknown fields); raw variables are read only under declared names. Not decided: leaf coercion values (C10 covers built-in scalars structurally).",
        note="Tables explore unrecognised tests both ways (sound for inclusion).",
    ),
    "C05": dict(
        technique="finite decision table over 11 predicates (96 feasible valuations) + sibling obligation agreement + coverage of a validation rule over its producers",
        text="Decides CoerceArgumentValues as a decision table on argument_coercer's CFG (default / error / explicit null / variable value / literal, invalid literal, hook application); one coercion per declared argument and raise-on-error in coerce_arguments inside the field's own try; the literal coercers discharge the same obligations as the input coercers (composition, null handling, per-item and per-field paths, defaults, required fields) and the same directive callable is bound to both sides; the null/variable wrapper's table; every transformer that can place a variable at an input position registers it for type checking - which fails for list and object literals (known finding, 2 entries). Not decided: equality of the delivered dictionaries for all values.",
        note="Assumes composed literal coercers answer with CoercionResult objects (discharged by R3/R4).",
    ),
    "C06": dict(
        technique="call-site/signature agreement + CFG push/pop matching + scoped-context save/restore analysis + decision tables of rule predicates",
        text="Decides the conditions without which valid documents are refused: each of the 35 validate() sites names a registered rule and cannot raise (signature satisfiable, no duplicate keyword with context keys); the cycle rule's container holds the current spread path only; parent_type_name is saved, restored on every exit and not read by the transformer that overwrote it; the 26 shared rule objects are stateless; document-level rules run after all definitions are parsed; the predicates of the table-shaped rules (uniqueness family, lone anonymous, leaf selections, field existence, composite/existing types, known directives, input types, required/known arguments, executable definitions, directive locations, IsVariableUsageAllowed / AreTypesCompatible) equal the specification's. Not decided: absence of false rejections over all valid documents; graph-shaped predicates.",
        note="Two defects found by these rules were repaired in /repo (cycle rule, inline-fragment bookkeeping); see known_findings.json.",
    ),
    "C07": dict(
        technique="four-way table agreement (classes, RULE_SET, call sites, documentation) + per-site coverage on the CFG + dataflow of built errors + decision tables",
        text="Decides: the 26 documented rules are implemented, registered and invoked; each rule is invoked from the parser of every node kind it discriminates on, on the node just built, on every path to the return; context keys written by the transformer are the ones the rules read; the dispatcher appends every rule's errors; every error object built in a rule flows to the returned list and no rule returns from inside a loop over candidate sites; refused documents short-circuit before execution in both executors; the cycle rule descends into nested selections and aborts the rules that recurse through spreads; rule predicates equal the specification's tables. Known finding: variables nested in list/object literals are not type-checked (2 entries). Not decided: strictness of graph-shaped predicates at every site.",
        note="Four defects found by these rules were repaired in /repo; see known_findings.json.",
    ),
    "C08": dict(
        technique="API census + coroutine consumption (def-use on the CFG) + gather/zip positional-merge analysis + sibling obligation agreement + effect census",
        text="Decides structured concurrency: asyncio.gather is the only asyncio API; each of the ~100 coroutine-creating call sites is awaited, gathered or returned; gathers over field executions / value completions use return_exceptions=True; all 8 gather results are merged by position; the concurrent and sequential variants (lists, arguments) discharge the same obligations; concurrency flags are written at bake time only; request-phase while-loops walk finite chains; the only object mutated by concurrently running coroutines of a request is the append-only error list. Hence everything execute started has finished when it returns and nothing is started twice. Not decided: the interleavings themselves, order of errors, impure resolvers.",
        note="asyncio's semantics of await/gather are trusted.",
    ),
    "C09": dict(
        technique="decision on the executor selection + await-in-loop shape analysis + structured concurrency (C08.R1)",
        text="Decides: mutation selects the serial executor (polarity checked), the root type table maps each operation kind to its own type, and in the serial executor the per-field resolve call is the direct operand of await inside a plain for loop over the collected mapping, with no asyncio API, no try, no early exit, results stored under the entry key in loop order; with structured concurrency each await returns only when the whole sub-selection finished. Nothing structural remains undecided; the residual assumption is asyncio's semantics of await.",
        note="-",
    ),
    "C14": dict(
        technique="once-per-iteration path enumeration on the CFG + guard dominance",
        text="Decides: the loop over the source stream yields exactly once per iteration on every path, the yielded value is the awaited execute with the event in the root-value slot, no continue/break/return/handler in the loop and nothing after it; both pre-flight exits yield once and return before the source is created; the registered generator is called only without errors and with spec-coerced arguments; the three pass-through wrappers re-yield every item unchanged. Per-event semantics are C01/C02 obligations of the same execute. Not decided: behaviour of the user's generator, back-pressure.",
        note="-",
    ),
    "C15": dict(
        technique="effect census over call-graph reachability (slot-name points-to) with parameter provenance",
        text="Decides that every store / mutator call / setattr in the ~150 functions that can run after the cache lookup writes an object created by the current request (fresh local, constructor, per-request class, or a parameter that is fresh at every call site inside the phase), never one reached from the schema or the cached document; per-request objects are constructed per call and never memoised; no class-level mutable attribute or mutable default in the request phase; error rendering hands out copies. Two reasoned exceptions are frozen in the checker. Not decided: interference through user objects (context, resolvers).",
        note="Reference graph is an over-approximation by attribute/keyword name; exception objects are assumed to be created per failure.",
    ),
    "C16": dict(
        technique="purity analysis of the cached function (reachability + effect census) + cache-key agreement",
        text="Decides: the cached function takes exactly (query, schema); nothing it can reach is an engine method or touches the registry; every write it can perform goes to objects created by that parse; both entry points call it with exactly (query, self._schema); schema hashing is consistent with equality; every schema attribute read while parsing is written only while cooking; the decorator is applied per engine and the default lru_cache is per engine instance; cached errors are rendered without mutation and extensions are copied. Not decided: behaviour of user-supplied cache decorators.",
        note="Same reference graph as C15.",
    ),
    "C17": dict(
        technique="who-may-access census of the registry + write-locality of bake methods + census of process-global mutable containers",
        text="Decides: every access to the registry dict is keyed first by a schema-name expression and nothing iterates over all schemas; each decorator registers itself under its own name; bake(schema) methods write only into objects obtained from their schema parameter; the 13 built-in modules create a new implementation per baked name and forward that name; no function writes any of the 12 module-level / class-level mutable containers after import except the registry. Not decided: interference through user modules imported twice.",
        note="-",
    ),
    "C18": dict(
        technique="finite decision table of the envelope + once-per-element call analysis + source enumeration + catch-all structure",
        text="Decides: data is always present and errors present iff the coerced list is non-empty; the error coercer is called once per error and the user's coercer awaited once per call with (exception, default rendering); every source of entries of an errors list produces coercible objects; execute cannot raise past its catch-alls; nothing runs on syntax/validation errors; operation selection is named-and-found / single anonymous / otherwise an error before variable coercion; error records carry message, path, locations. Not decided: the C parser on arbitrary bytes (absent here), locations lying inside the query text.",
        note="-",
    ),

    "C11": dict(
        technique="table extraction and agreement: lark-expanded BNF vs converter tables, AST class slots vs schema builders, introspection SDL vs Python classes",
        text="Decides agreement of the tables along SDL text -> lark tree -> AST -> schema objects -> introspection: for each of the 50 visible grammar rules the child kinds it can produce are accepted by the matching converter (23 tables) and every extracted key reaches the AST node constructor; each of the 15 definition/extension AST classes has a builder that reads all its slots; each extension merges all of its parts into the type of the same name; every required field of the 6 introspection types is exposed by each of the 14 inhabiting classes with the right kind constant; introspection aliases (types, directives, fields, args, interfaces, possible types, root types) are filled from the declared data hiding exactly the __ names; @deprecated, includeDeprecated, hiding, __type lookups and the four ways of supplying SDL follow their tables. Not decided: the round trip for all schemas (needs execution); textual fidelity of default values.",
        note="lark is used only as a grammar reader (Lark(text).rules) - no SDL is parsed and no tartiflette code runs. The inhabitant table is frozen by reading.",
    ),
    "C12": dict(
        technique="method census + must-pass-through on the CFG + clause table with guard conditions",
        text="Decides: every nullary error-list validator of the schema class is run by one of the two drivers, which accumulate every result and raise iff errors exist; every path of GraphQLSchema.bake to a normal return passes both drivers, with the two exception-swallowing blocks between them; Engine.cook binds the schema only from the awaited bake and sets the cooked flag after it; nothing on the chain create_engine -> cook -> bakery -> SDL parser swallows an exception; each of 27 clause instances of the statement is reported by a validator statement under the guard the clause names; redefinitions raise before any store. Not decided: that each validator's predicate catches the violation at every site of every schema.",
        note="The clause table is frozen by reading, one line per clause.",
    ),
    "C13": dict(
        technique="fold-direction and call-nesting analysis + wiring table of hook names per schema element class + decision table",
        text="Decides: wraps_with_directives folds last-to-first wrapping only directives that define the hook, so the first declared is outermost; the executor calls the hook exactly once with that instance's coerced arguments and a partial of the next callable; each of the 10 schema element classes wires exactly its hooks from its own directives (same callable on input and literal side; output hooks once on the abstract->object path); stage order follows from call nesting (coercion before input hooks, output hooks before serialisation, argument hook on the coerced value, query-side wrap around the baked resolver from every merged field node); literal-side type hooks are skipped exactly for top-level variables. Not decided: the induction over 0-3 directives per element (stated, not mechanised); relative order of enum-value and enum-type output hooks (left open by the property).",
        note="-",
    ),
}

# additions of round 2: obligations shared between properties and the state-hygiene rule RS
RS_TEXT = (" Also decided (rule RS): no census instance of process- or engine-shared state (memoised function, module- or class-level container written after import, "
           "mutable default, write to an object the request did not create) involves a function this property is anchored in or one it calls directly.")
ADD = {
    "C01": " The possible-type sets that answer type conditions are filled from the final member lists (C03.R5).",
    "C03": " Exactly the selected keys: field collection keeps every node of every selected key once and the result mapping is built from the collected keys (C01.R1-R6, run here as R7).",
    "C04": " The leaves: Int/Float/String/Boolean/ID coerce_input guards (bool rejection, integrality, range, finiteness) as in C10.R2 (run here as R8).",
    "C05": " Both built-in arguments coercers return exactly one entry per coroutine, in order, on every path including the failing one (the zip in coerce_arguments is positional).",
    "C06": " Possible-type sets read by 5.5.2.3 hold every member, extension-added ones included. Spec 5.6.1 as a path-outcome table of ValuesOfCorrectType._validate: a valid value (variable, null for a nullable type, parsable scalar, enum member) is never reported.",
    "C07": " The document-level collectors (variables, fragments reached through nested spreads) thread their accumulator (C06.R5) and possible-type sets are complete. Spec 5.6.1 as a path-outcome table: null for non-null reported, every non-variable item of a list value validated against the item type (only a variable item is skipped), unparsable scalar / non-member enum reported, input objects judged field by field.",
    "C08": " Sequential and concurrent paths agree on failures because every failure leaving a field is the located MultipleException, the one kind recognised among gathered values (C02.R1/R2 + extraction rule).",
    "C09": " The mapping the serial loop iterates is filled in first-appearance order by accumulate-form stores only (C01.R1-R5, run here as R4).",
    "C10": " The list / non-null / null input wrappers hand on what the scalar returned, not the raw value (C04.R5). R6: the argument decision table (C05.R1): a variable-bound argument is null exactly when the variable's value is None, so falsy values travel like their literals.",
    "C11": " `extend schema` reaches the schema unconditionally and schema directives accumulate across `schema` / `extend schema`; every concatenation of SDL pieces puts a line break between them. IsValidImplementationFieldType accept side: a field type is refused only after its own non-null wrapper was considered ([T]! implements [T]); root resolvers as path tables (refuse by raising an error built there, answer after opening the introspection context, unknown name answers null).",
    "C12": " `extend schema` stores the root names it introduces whether or not the type exists, so that the root-type clause can reject them. IsValidImplementationFieldType refuse side: only equal types conform outright, a wrapped interface type refuses every other unwrapped field type.",
    "C13": " Bake cascade: every container bakes every one of its members (arguments, fields, input fields, enum values, all types and directives), post-bake chains are awaited once per member; generator wrappers pass every payload on; hook failures yield one error per exception. argument_coercer answers with a value (null included) without the on_argument_execution chain only when the argument carries no directives.",
    "C14": " The source is the first collected root field of the subscription root type; unknown field / missing generator are errors, not calls; Subscription.bake attaches generators to subscription-root fields only.",
    "C15": " No raise statement of the package raises a module-level exception instance (located_error decorates coercible exceptions in place).",
    "C18": " Error records: coerce_value returns the record it built, `extensions` iff the error carries some, locations from the attached ones else the error's own, `path` is the list handed over by handle_field_error; several anonymous operations are refused before operations are indexed by name.",
}
E13_TEXT = {
    "C01": " The wrapper-chain builder and execute_fields are decided by abstract evaluation (sa/absint.py): interpreted over every type shape up to three wrappers / every assignment of the concurrency flag with unknown and null-resolving fields, results compared as terms with the composition and the key-to-resolver mapping the specification prescribes (bounded; independent of how the function is written).",
    "C02": " located_error is interpreted over 96 abstract failure x nodes x path combinations: each member located once, the same object kept, exactly the lacking path / locations bound, no attribute read that the error does not have.",
    "C03": " The output chain builder and execute_fields alignment are decided by abstract evaluation over type shapes / selections (as C01.R9, C01.R6).",
    "C04": " get_input_coercer is interpreted over every type shape up to three wrappers and compared as a term with the prescribed composition.",
    "C05": " get_literal_coercer is interpreted over every type shape up to three wrappers and compared as a term with the prescribed composition; literals.input_object_coercer over the 125 combinations of per-field answers; sync_arguments_coercer on failing awaitables.",
    "C06": " The fragment-cycle rule is interpreted on every spread graph over three fragments (1703 graphs quick, 5321 thorough; undefined targets, repeated and nested spreads) and reports exactly the graphs in which a fragment reaches itself; extension merges include directive-only extensions.",
    "C07": " The single-root traversal is interpreted over every selection-set shape up to three fragments deep (266 shapes); the fragment-cycle rule on every spread graph over three fragments.",
    "C11": " Extension.bake merges are interpreted on abstract extensions: every member list of the extended type is what it was followed by the extension's members; register_sdl is interpreted on a modelled file system (text, file, list, directory; with and without module SDL). The introspection hiding executor is interpreted on single elements and lists of up to three items (plain value, element without hooks, shown, hidden): a hidden single element is null, hidden items are dropped, each chain is awaited once with (element, ctx, info) and the context coercer.",
    "C14": " The single-root traversal is interpreted over every selection-set shape up to three fragments deep; the source's operands are resolved on paths back to the producers' results.",
    "C13": " wraps_with_directives is interpreted on 1500 combinations of directive lists, flags and callables and compared as a term with the prescribed chain (first declared outermost).",
    "C08": " sync_arguments_coercer is interpreted on zero to three awaitables, each succeeding or failing (one entry per operand, the value or the exception itself; a cancellation propagates).",
}
R4_TEXT = {
    "C02": " Below the field funnel no error is built with a path of its own (the funnel, which knows the failing position, is the only place that locates).",
    "C01": " The variable map the argument tables read has no entry for an omitted variable without default (C04.R2).",
    "C03": " Enum and possible-type lookups are decided on paths for the key exactly as given; outside its catch-all Engine.execute / subscribe evaluate only the cached parse of the query as received.",
    "C04": " Every item of a list variable goes through the inner coercer (no item is answered from another item's result).",
    "C05": " SDL string tokens: ordinary strings decoded, block strings literal (defaults written in the SDL are literals too).",
    "C10": " A variable is let into a position only when its declared type is the position's type up to nullability (the variable-usage compatibility tables): nothing converts a value afterwards.",
    "C11": " The schema-level @nonIntrospectable hook turns the flag off before the request proceeds and nothing ever turns it back on; SDL string tokens (block strings literal); no memoised function in the SDL pipeline.",
    "C12": " Nullary validators walk complete registries only (not indexes derived at registration time); is_possible_type judges the type as given.",
    "C14": " The source is started with spec-coerced variables (the CoerceVariableValues table, C04.R1).",
    "C17": " No memoised function anywhere in the package (a functools cache is process-wide state).",
    "C18": " Outside its catch-all the entry points evaluate only the cached parse of the query as received.",
}
for _k, _v in TABLE.items():
    _v["text"] = _v["text"] + R4_TEXT.get(_k, "")
for _k, _v in TABLE.items():
    _v["text"] = _v["text"] + E13_TEXT.get(_k, "")
for _k, _v in TABLE.items():
    _v["text"] = _v["text"] + ADD.get(_k, "") + (RS_TEXT if _k not in ("C15", "C16", "C17") else "")

NOT_BUILT_REASON = "checker not built yet (build round in progress); see DESIGN.md section 2 for the planned static rules"


def main():
    props = [json.loads(l) for l in open(os.path.join(HERE, "properties.jsonl"))]
    checks, na = [], []
    for p in props:
        pid = p["id"]
        built = os.path.exists(os.path.join(HERE, "sa", "props", pid.lower() + ".py"))
        if built and pid in TABLE:
            t = TABLE[pid]
            checks.append({
                "property_id": pid,
                "quick_cmd": f"{PY} -m sa check {pid} --tier quick",
                "thorough_cmd": f"{PY} -m sa check {pid} --tier thorough",
                "evidence_file": f"evidence/{pid}.json",
                "replay_cmd_template": f"{PY} -m sa explain {{path}}",
                "engine": "sa",
                "level_claimed": {"category": "other", "text": t["text"], "design_ref": f"DESIGN.md section 2, {pid}"},
                "level_note": t["note"] + " Trusted base: CPython ast; user code, libgraphqlparser, lark, asyncio outside the analysed program. "
                              "Before any rule runs the model is put into a canonical form (DESIGN E10/E11): a function that equals the pinned tree's function modulo "
                              "semantics-preserving rewrites (local renames, extracted helpers, guard clauses, comprehensions, temporaries ...) is analysed in the reference's shape; "
                              "any other function is analysed as it stands. The soundness of the rewrites is exercised on every thorough run (5662 behaviour-changing mutants, none equated).",
                "technique": "static analysis: " + t["technique"],
            })
        else:
            na.append({"property_id": pid, "reason": NOT_BUILT_REASON})
    m = {
        "version": 1,
        "setup_cmd": f"{PY} -c \"import sys; sys.path.insert(0, '/verif'); import sa.model; print('sa ready: %d files' % sa.model.Repo().n_files)\"",
        "hooks": {
            "guard": "TARTIFLETTE_VERIF",
            "enable": "no hooks: the checkers read /repo's source only (stdlib ast); nothing in /repo is instrumented",
            "baseline_off_cmd": "cd /repo && /venv/bin/python -m pytest -ra -q -p no:cacheprovider --timeout=900 --continue-on-collection-errors",
            "source_commits": [],
            "add_only": True,
        },
        "engines": [{
            "name": "sa",
            "path": "sa/",
            "serves_properties": [c["property_id"] for c in checks],
            "kind_free_text": "repository-specific static analysis on the stdlib ast: source model with import/re-export resolution, statement CFG with short-circuit expansion, dominance / control dependence, finite decision tables simulated on the CFG, table extraction and agreement, effect census, in-memory mutant self-test",
        }],
        "checks": checks,
        "not_applicable": na,
        "notes": "Exit codes: 0 all obligations discharged (KNOWN-FINDING lines for listed findings), 1 VIOLATION, 2 ANALYSIS-ERROR (anchor missing / unreadable shape / self-test failure; never a silent pass). known_findings.json lists known and fixed findings.",
    }
    json.dump(m, open(os.path.join(HERE, "MANIFEST.json"), "w"), indent=1)
    print(f"{len(checks)} checks, {len(na)} not applicable")


if __name__ == "__main__":
    main()
