#!/usr/bin/env python3
"""Regenerates /verif/MANIFEST.json from the table below and the set of built checkers."""
import json
import os

HERE = os.path.dirname(os.path.dirname(os.path.abspath(__file__)))
PY = "/venv/bin/python"

TABLE = {
    "C01": dict(
        technique="CFG dominance and control dependence + finite decision tables + table agreement (stdlib ast)",
        text="Decides the structural part of the execution algorithm on /repo's source: every selection kind has an arm in CollectFields, fields accumulate under the response key (alias else name) in first-appearance order, the skip/include gate, visited-set and type-condition tests dominate every collecting effect, sibling results stay positionally aligned, the effective resolver is called exactly once per path with (parent value, coerced arguments of the first node, request context, info), defaults read attribute/key named like the field, each output type class is bound to the specified completion coercer and wrappers fold outermost-first, type-resolver precedence is field > type > default. Not decided: equality of `data` with the specification's value for all schemas x documents x data trees (value-level, unbounded).",
        note="Rules quantify over all CFG paths of 14 functions, 3 selection kinds, 5 output type classes; assumes no monkey-patching and that user resolvers/hooks are outside the analysed program.",
    ),
    "C02": dict(
        technique="finite decision tables on the CFG + try/except funnel analysis + exception-handler census",
        text="Decides each local step of failure containment: handle_field_error raises iff the field type is non-null and otherwise records and returns null; every completion goes through one try/except funnel; non-null and null wrappers; both list coercers complete items through the funnel with Path(path, index) and the item type and raise collected failures after all items; execute_fields raises before building the object and uses return_exceptions; execute_operation records and nulls; error records carry nodes, root-first path, user message, extensions only when set; every broad handler of the request phase re-raises, records or keeps the exception as a value (4 frozen, reasoned exceptions). Not decided: exact nulling position over all nullability layouts (composition), absence of spurious errors, locations inside the field text.",
        note="Local steps only; the induction over type nestings is stated, not mechanised.",
    ),
    "C03": dict(
        technique="syntactic type inference of return expressions + guard dominance on the CFG",
        text="Decides that every successful return of the built-in scalars' coerce_output is syntactically of the wire type and dominated by the Int range / Float finiteness guards, enum output fails closed on a miss, both list coercers reject non-lists before iterating, ensure_valid_runtime_type returns only after the object-type and possible-type checks, and Engine.execute / parse_and_validate_query are wrapped in catch-alls whose every exit returns an errors-only response. Not decided: custom scalars and hooks, JSON-serialisability beyond built-ins, exact key sets (C01.R6 is the structural part).",
        note="Type inference is syntactic (constructor calls, literals, isinstance-guarded names); no type checker is available in this sandbox.",
    ),
    "C10": dict(
        technique="guard dominance with evaluated constants + syntactic return typing + accepted-literal-kind table",
        text="Decides, for Int/Float/String/Boolean/ID x {coerce_output, coerce_input, parse_literal}: wire-typed returns; integrality, inclusive 32-bit range (constants evaluated), bool rejection, finiteness and exact-type guards dominating every success; the literal kinds each parse_literal accepts equal the specification's (also Date/Time/DateTime); every failure is a TypeError / the invalid value; the generic scalar coercers delegate to the right method. Not decided: the value-level laws (same value, idempotence, literal = variable equality) - a static rule pretending to decide them would be a test in disguise.",
        note="Guards, not values. NODE_VALUE_TYPES (python type of node.value per AST class) is a frozen, reasoned table.",
    ),
}

NOT_BUILT_REASON = "checker not built yet (build round in progress); see DESIGN.md section 2 for the planned static rules"


def main():
    props = [json.loads(l) for l in open(os.path.join(HERE, "properties.jsonl"))]
    checks, na = [], []
    for p in props:
        pid = p["id"]
        built = os.path.exists(os.path.join(HERE, "sa", "props", pid.lower() + ".py"))
        if built and pid in TABLE:
            t = TABLE[pid]
            checks.append({
                "property_id": pid,
                "quick_cmd": f"{PY} -m sa check {pid} --tier quick",
                "thorough_cmd": f"{PY} -m sa check {pid} --tier thorough",
                "evidence_file": f"evidence/{pid}.json",
                "replay_cmd_template": f"{PY} -m sa explain {{path}}",
                "engine": "sa",
                "level_claimed": {"category": "other", "text": t["text"], "design_ref": f"DESIGN.md section 2, {pid}"},
                "level_note": t["note"] + " Trusted base: CPython ast; user code, libgraphqlparser, lark, asyncio outside the analysed program.",
                "technique": "static analysis: " + t["technique"],
            })
        else:
            na.append({"property_id": pid, "reason": NOT_BUILT_REASON})
    m = {
        "version": 1,
        "setup_cmd": f"{PY} -c \"import sys; sys.path.insert(0, '/verif'); import sa.model; print('sa ready: %d files' % sa.model.Repo().n_files)\"",
        "hooks": {
            "guard": "TARTIFLETTE_VERIF",
            "enable": "no hooks: the checkers read /repo's source only (stdlib ast); nothing in /repo is instrumented",
            "baseline_off_cmd": "cd /repo && /venv/bin/python -m pytest -ra -q -p no:cacheprovider --timeout=900 --continue-on-collection-errors",
            "source_commits": [],
            "add_only": True,
        },
        "engines": [{
            "name": "sa",
            "path": "sa/",
            "serves_properties": [c["property_id"] for c in checks],
            "kind_free_text": "repository-specific static analysis on the stdlib ast: source model with import/re-export resolution, statement CFG with short-circuit expansion, dominance / control dependence, finite decision tables simulated on the CFG, table extraction and agreement, effect census, in-memory mutant self-test",
        }],
        "checks": checks,
        "not_applicable": na,
        "notes": "Exit codes: 0 all obligations discharged (KNOWN-FINDING lines for listed findings), 1 VIOLATION, 2 ANALYSIS-ERROR (anchor missing / unreadable shape / self-test failure; never a silent pass). known_findings.json lists known and fixed findings.",
    }
    if not na:
        m.pop("not_applicable")
    json.dump(m, open(os.path.join(HERE, "MANIFEST.json"), "w"), indent=1)
    print(f"{len(checks)} checks, {len(na)} not applicable")


if __name__ == "__main__":
    main()
