#!/usr/bin/env python3
"""Evaluates a whole round of behaviour-preserving refactorings: tools/eval_benign_round.py <root> <n1> <n2> [--old <verif checkout>]
<root>/<Cxx>/{patch1.diff,demo1.py,expected1.txt,note1.md,...} become benign/Cxx-benign-<n1> / -<n2>.
Confirmation (scratch worktrees under /tmp, removed afterwards; pinned suite + demo transcript with and without the patch) runs
in parallel; the alarms are computed by replaying the patch in memory against every quick check - with the checkers of
`--old` (a checkout of /verif from before the round) for `first_run_alarms`, and with the current ones for `current_alarms`."""
import json
import os
import re
import shutil
import subprocess
import sys
from concurrent.futures import ThreadPoolExecutor

HERE = os.path.dirname(os.path.abspath(__file__))
sys.path.insert(0, HERE)
import eval_benign as eb  # noqa: E402

REPLAY = r'''
import sys, json
sys.path.insert(0, sys.argv[1]); sys.path.insert(0, sys.argv[1] + "/tools")
import eval_benign as eb
print("RESULT " + json.dumps(eb.replay(sys.argv[2])))
'''


def confirm(job):
    sid, prop, patch, demo, expected, note = job
    wt = f"/tmp/confirm_{sid}"
    eb.sh(f"git -C {eb.REPO} worktree remove --force {wt}")
    eb.sh(f"git -C {eb.REPO} worktree add -q --detach {wt} HEAD")
    res = {"applies": False}
    try:
        os.makedirs(f"{wt}/_seed", exist_ok=True)
        shutil.copy(os.path.join(eb.KIT, "gqlast.py"), f"{wt}/_seed/gqlast.py")
        shutil.copy(demo, f"{wt}/_seed/" + os.path.basename(demo))
        shutil.copy(expected, f"{wt}/_seed/" + os.path.basename(expected))
        d = os.path.basename(demo)
        rc, out = eb.sh(f"{eb.PY} {d}", cwd=f"{wt}/_seed", timeout=900)
        res["demo_rc_without_patch"] = rc
        rc, out = eb.sh(f"git apply {os.path.abspath(patch)}", cwd=wt)
        res["applies"] = rc == 0
        if rc == 0:
            rc, out = eb.sh(f"{eb.PY} -m pytest -q -p no:cacheprovider --timeout=900 --continue-on-collection-errors 2>&1 | tail -3", cwd=wt, timeout=1800)
            m = re.search(r"(\d+) passed", out)
            res["tests_passed_with_patch"] = int(m.group(1)) if m else None
            rc, out = eb.sh(f"{eb.PY} {d}", cwd=f"{wt}/_seed", timeout=900)
            res["demo_rc_with_patch"] = rc
            res["demo_tail_with_patch"] = out[-300:]
    finally:
        eb.sh(f"git -C {eb.REPO} worktree remove --force {wt}")
        shutil.rmtree(wt, ignore_errors=True)
    res["confirmed"] = bool(res.get("applies") and res.get("tests_passed_with_patch") == 641 and res.get("demo_rc_with_patch") == 0 and res.get("demo_rc_without_patch") == 0)
    return job, res


def replay_with(verif_dir, patch):
    p = subprocess.run([eb.PY, "-c", REPLAY, verif_dir, os.path.abspath(patch)], capture_output=True, text=True, cwd=verif_dir, timeout=3600)
    for line in p.stdout.splitlines():
        if line.startswith("RESULT "):
            return json.loads(line[7:])
    return {"?": {"violations": [], "analysis_errors": [(p.stderr or p.stdout)[-300:]]}}


def main():
    root, n1, n2 = sys.argv[1], sys.argv[2], sys.argv[3]
    old = sys.argv[sys.argv.index("--old") + 1] if "--old" in sys.argv else None
    jobs = []
    for prop in sorted(os.listdir(root)):
        for i, n in ((1, n1), (2, n2)):
            p = f"{root}/{prop}/patch{i}.diff"
            if os.path.exists(p):
                jobs.append((f"{prop}-benign-{n}", prop, p, f"{root}/{prop}/demo{i}.py", f"{root}/{prop}/expected{i}.txt", f"{root}/{prop}/note{i}.md"))
    with ThreadPoolExecutor(8) as ex:
        confs = list(ex.map(confirm, jobs))

    def alarms_of(job):
        first = replay_with(old, job[2]) if old else None
        cur = replay_with(eb.VERIF, job[2])
        return first, cur

    with ThreadPoolExecutor(6) as ex:
        alarms = list(ex.map(alarms_of, jobs))
    for (job, conf), (first, cur) in zip(confs, alarms):
        sid, prop, patch, demo, expected, note = job
        print(sid, "confirmed" if conf["confirmed"] else "NOT CONFIRMED " + json.dumps({k: v for k, v in conf.items() if "tail" not in k}), "| first run:",
              sorted(first) if first else "silent", "| now:", sorted(cur) if cur else "silent", flush=True)
        if not conf["confirmed"]:
            continue
        d = os.path.join(eb.VERIF, "benign", sid)
        os.makedirs(d, exist_ok=True)
        shutil.copy(patch, os.path.join(d, "patch.diff"))
        shutil.copy(demo, os.path.join(d, "demo.py"))
        shutil.copy(expected, os.path.join(d, "expected.txt"))
        shutil.copy(expected, os.path.join(d, os.path.basename(expected)))
        meta = {"id": sid, "written_for_property": prop, "kind": "behaviour-preserving refactoring (third round: the correct twin of a seeded change of round 3)",
                "note": open(note).read() if os.path.exists(note) else "", "confirmation": conf, "first_run_alarms": first if first is not None else cur, "current_alarms": cur}
        json.dump(meta, open(os.path.join(d, "meta.json"), "w"), indent=1)


if __name__ == "__main__":
    main()
