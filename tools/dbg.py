#!/usr/bin/env python3
"""tools/dbg.py Cxx [patch.diff|-] [substring]: obligations (with detail) of a quick check, optionally with a patch replayed in memory."""
import os, sys
sys.path.insert(0, os.path.dirname(os.path.dirname(os.path.abspath(__file__))))
from sa.__main__ import run_check
from sa.model import REPO_ROOT, Repo
from sa.patch import apply_unified_diff
prop = sys.argv[1]
patch = sys.argv[2] if len(sys.argv) > 2 and sys.argv[2] != "-" else None
sub = sys.argv[3] if len(sys.argv) > 3 else None
ov = apply_unified_diff(REPO_ROOT, open(patch).read()) if patch else None
repo = Repo(REPO_ROOT, overrides=ov) if ov else Repo(REPO_ROOT)
ck = run_check(prop, "quick", repo=repo, write=False, quiet=True)
for e in ck.errors: print("ERR", e[:600])
for o in ck.obligations:
    if (sub and sub in (o.construct or "") + o.instance) or (not sub and not o.ok):
        print("OK " if o.ok else "BAD", o.rule, o.where if hasattr(o, "where") else "", "|", o.instance[:160], "|", (o.construct or "")[:80], "|", str(getattr(o, "detail", ""))[:400])
