#!/usr/bin/env python3
"""Runs only the "clean-up" operators of the mutation sweep (TRUTHY / FALSY / NULLUNDEF) over every property's anchors and
lists the survivors: candidates for holes in the rules (or equivalent mutants).  usage: tools/cleanup_sweep.py [Cxx ...]"""
import json, os, sys
sys.path.insert(0, os.path.dirname(os.path.dirname(os.path.abspath(__file__))))
from sa import sweep as sw
from sa.anchors import ANCHORS

orig = sw.enumerate_mutants
def only(root, anchors):
    return [m for m in orig(root, anchors) if m["op"] in ("TRUTHY", "FALSY", "NULLUNDEF")]
sw.enumerate_mutants = only
props = sys.argv[1:] or sorted(ANCHORS)
for p in props:
    r = sw.sweep(p, ANCHORS[p])
    print(f"== {p}: mutants={r['mutants']} killed={r['killed']} aerr={r['analysis_error']} survived={r['survived']} ({r['wall_s']} s)", flush=True)
    for s in r["survivors"]:
        print("   ", s, flush=True)
