#!/usr/bin/env python3
"""Shows why a refactored function is (not) recognised: normal forms of the current and the reference function.
usage: tools/nf_diff.py <patch.diff> <relpath> <qualname>"""
import ast, sys, os, difflib
sys.path.insert(0, os.path.dirname(os.path.dirname(os.path.abspath(__file__))))
from sa import alpha
from sa.model import REPO_ROOT
from sa.normal import normal_form
from sa.patch import apply_unified_diff

patch, rel, qual = sys.argv[1:4]
ov = apply_unified_diff(REPO_ROOT, open(patch).read())
src = ov.get(rel) or open(os.path.join(REPO_ROOT, rel)).read()
tree = ast.parse(src)
alpha.drop_local_annotations(tree)
funcs = alpha.functions(tree)
ref = alpha.reference()
node = dict(funcs)[qual]
cls = qual.rsplit(".", 1)[0] if "." in qual else None
helpers = {}
for hq, hn in funcs:
    if f"{rel}::{hq}" in ref:
        continue
    if "." not in hq:
        helpers[hq] = hn
    elif cls and hq.rsplit(".", 1)[0] == cls:
        hn._is_method = True
        helpers[hq.rsplit(".", 1)[1]] = hn
alpha.begin_repo({**{k: None for k in []}, **ov})
import os as _os
srcs = {}
for dp, _, fs in _os.walk(_os.path.join(REPO_ROOT, "tartiflette")):
    for f in fs:
        if f.endswith(".py"):
            rp = _os.path.relpath(_os.path.join(dp, f), REPO_ROOT)
            srcs[rp] = ov.get(rp) or open(_os.path.join(dp, f)).read()
alpha.begin_repo(srcs)
local_defs = alpha._module_level_defs(tree)
for name in alpha._called_names(node):
    if name in helpers or name == qual.rsplit(".", 1)[-1]:
        continue
    d = local_defs.get(name) or alpha.current_def(name)
    if d is not None and d is not node and alpha._small(d):
        helpers[name] = d
print("helpers:", list(helpers))
cur = normal_form(node, alpha.signatures(), helpers=helpers, in_class=cls is not None)
rnode = ast.parse(ref[f"{rel}::{qual}"]["src"]).body[0]
rh = {}
for name in alpha._called_names(rnode):
    if name == qual.rsplit(".", 1)[-1]:
        continue
    d = alpha.reference_def(name, rel)
    if d is not None and alpha._small(d):
        rh[name] = d
print("reference helpers:", list(rh))
r = normal_form(rnode, alpha.signatures(), helpers=rh, in_class=cls is not None)
a = alpha.normal_form(cur).splitlines()
b = alpha.normal_form(r).splitlines()
print("EQUAL" if a == b else "DIFFERENT")
for l in difflib.unified_diff(b, a, "reference-nf", "current-nf", lineterm="", n=2):
    print(l)
