#!/usr/bin/env python3
"""Confirms a behaviour-preserving refactoring written by a sub-agent and runs every check against it.

usage: tools/eval_benign.py <id> <patch.diff> <demo.py> <expected.txt> <property> [--note note.md] [--keep]

1. confirmation in a scratch worktree of /repo under /tmp (removed afterwards): the patch applies, the pinned suite still
   reports 641 passed, and the demonstration prints the recorded transcript (exit 0) both with and without the patch;
2. the patch is replayed in memory (sa/patch.py) against the quick check of every property: any violation or analysis
   error that the unchanged tree does not have is a FALSE ALARM of the checker;
3. with --keep the refactoring is stored as /verif/benign/<id>/{patch.diff, demo.py, expected.txt, meta.json}.
"""
import argparse
import json
import os
import re
import shutil
import subprocess
import sys

VERIF = os.path.dirname(os.path.dirname(os.path.abspath(__file__)))
sys.path.insert(0, VERIF)
REPO = "/repo"
PY = "/venv/bin/python"
KIT = os.path.join(VERIF, "seeded", "_kit")
PROPS = [f"C{i:02d}" for i in range(1, 19)]


def sh(cmd, cwd=None, timeout=900):
    p = subprocess.run(cmd, shell=True, cwd=cwd, capture_output=True, text=True, timeout=timeout)
    return p.returncode, p.stdout + p.stderr


def confirm(patch, demo, expected):
    wt = f"/tmp/confirm_{os.getpid()}"
    sh(f"git -C {REPO} worktree remove --force {wt}")
    sh(f"git -C {REPO} worktree add -q --detach {wt} HEAD")
    res = {"applies": False}
    try:
        os.makedirs(f"{wt}/_seed", exist_ok=True)
        shutil.copy(os.path.join(KIT, "gqlast.py"), f"{wt}/_seed/gqlast.py")
        shutil.copy(demo, f"{wt}/_seed/" + os.path.basename(demo))
        shutil.copy(expected, f"{wt}/_seed/" + os.path.basename(expected))
        d = os.path.basename(demo)
        rc, out = sh(f"{PY} {d}", cwd=f"{wt}/_seed", timeout=300)
        res["demo_rc_without_patch"] = rc
        rc, out = sh(f"git apply {os.path.abspath(patch)}", cwd=wt)
        res["applies"] = rc == 0
        if rc != 0:
            res["apply_output"] = out[-300:]
            return res
        rc, out = sh(f"{PY} -m pytest -q -p no:cacheprovider --timeout=900 --continue-on-collection-errors 2>&1 | tail -3", cwd=wt)
        m = re.search(r"(\d+) passed", out)
        res["tests_passed_with_patch"] = int(m.group(1)) if m else None
        rc, out = sh(f"{PY} {d}", cwd=f"{wt}/_seed", timeout=300)
        res["demo_rc_with_patch"] = rc
        res["demo_tail_with_patch"] = out[-300:]
    finally:
        sh(f"git -C {REPO} worktree remove --force {wt}")
        shutil.rmtree(wt, ignore_errors=True)
    res["confirmed"] = bool(res.get("applies") and res.get("tests_passed_with_patch") == 641 and res.get("demo_rc_with_patch") == 0 and res.get("demo_rc_without_patch") == 0)
    return res


def replay(patch):
    from sa import q
    from sa.__main__ import run_check
    from sa.model import REPO_ROOT, Repo
    from sa.patch import apply_unified_diff

    ov = apply_unified_diff(REPO_ROOT, open(patch).read())
    if ov is None:
        return None
    base, repo = Repo(REPO_ROOT), Repo(REPO_ROOT, overrides=ov)
    out = {}
    for p in PROPS:
        q._cfg_cache.clear()
        b = run_check(p, "quick", repo=base, write=False, quiet=True)
        bf = {o.key() for o in b.obligations if not o.ok}
        q._cfg_cache.clear()
        ck = run_check(p, "quick", repo=repo, write=False, quiet=True)
        new = [o for o in ck.obligations if not o.ok and o.key() not in bf]
        if new or ck.errors:
            out[p] = {"violations": [{"rule": o.rule, "where": o.where, "instance": o.instance[:160], "construct": (o.construct or "")[:80]} for o in new][:8],
                      "analysis_errors": [e[:200] for e in ck.errors][:3]}
    return out


def main():
    ap = argparse.ArgumentParser()
    ap.add_argument("id")
    ap.add_argument("patch")
    ap.add_argument("demo")
    ap.add_argument("expected")
    ap.add_argument("property")
    ap.add_argument("--note")
    ap.add_argument("--keep", action="store_true")
    ap.add_argument("--no-confirm", action="store_true")
    a = ap.parse_args()
    conf = {"confirmed": None} if a.no_confirm else confirm(a.patch, a.demo, a.expected)
    print("confirmation:", json.dumps({k: v for k, v in conf.items() if "tail" not in k}))
    if conf.get("confirmed") is False:
        print(conf.get("demo_tail_with_patch", ""), conf.get("apply_output", ""))
        print("NOT CONFIRMED - not kept")
        return 3
    alarms = replay(a.patch)
    if alarms is None:
        print("patch does not apply in memory")
        return 3
    for p, v in alarms.items():
        for x in v["violations"][:4]:
            print(f"  FALSE ALARM {x['rule']} {x['where']}: {x['instance'][:110]}")
        for e in v["analysis_errors"][:2]:
            print(f"  ANALYSIS-ERROR {p}: {e[:150]}")
    print("silent" if not alarms else f"alarms in {sorted(alarms)}")
    if a.keep:
        d = os.path.join(VERIF, "benign", a.id)
        os.makedirs(d, exist_ok=True)
        for src, name in ((a.patch, "patch.diff"), (a.demo, "demo.py"), (a.expected, "expected.txt")):
            if os.path.abspath(src) != os.path.join(d, name):
                shutil.copy(src, os.path.join(d, name))
        shutil.copy(a.expected, os.path.join(d, os.path.basename(a.expected)))  # the demo opens it under its original name
        note = open(a.note).read() if a.note and os.path.exists(a.note) else ""
        old = os.path.join(d, "meta.json")
        prev = json.load(open(old)) if os.path.exists(old) else {}
        meta = {"id": a.id, "written_for_property": a.property, "kind": "behaviour-preserving refactoring", "note": note or prev.get("note", ""),
                "confirmation": conf if conf.get("confirmed") is not None else prev.get("confirmation"),
                "first_run_alarms": prev.get("first_run_alarms", alarms), "current_alarms": alarms}
        json.dump(meta, open(os.path.join(d, "meta.json"), "w"), indent=1)
        print("kept in", d)
    return 0 if not alarms else 1


if __name__ == "__main__":
    sys.exit(main())
