"""E4 (reference graph with slot-name points-to) and E5 (effect census)."""
from __future__ import annotations

import ast
from typing import Dict, Iterable, List, Optional, Set, Tuple

from .model import AnalysisError, Class, Func, Module, Repo, dotted, unparse, walk_no_nested

MUTATORS = {"append", "extend", "insert", "pop", "remove", "clear", "update", "setdefault", "add", "discard", "popitem", "sort", "reverse",
            "appendleft", "popleft", "__setitem__", "__delitem__"}
# method names never invoked in the request phase (checked by rule C15.R3 / C17): used only to keep
# the by-name method resolution from dragging the cook phase into the request phase
COOK_ONLY_METHODS = {"bake", "bake_fields", "bake_enum_values", "bake_input_fields", "bake_execute", "cook", "__call__", "register_sdl", "register_directive",
                     "register_resolver", "register_type_resolver", "register_scalar", "register_subscription", "bake_registered_objects", "clean",
                     "add_type_definition", "add_directive_definition", "add_scalar_definition", "add_enum_definition", "add_extension", "add_field",
                     "add_possible_type", "add_field_type_resolver", "add_schema_directives", "_register"}


class WriteSite:
    __slots__ = ("func", "node", "kind", "receiver", "root", "detail")

    def __init__(self, func: Func, node, kind: str, receiver: Optional[ast.expr], detail: str = ""):
        self.func = func
        self.node = node
        self.kind = kind  # store-attr | store-item | mutator | setattr | delattr | global | augassign
        self.receiver = receiver
        self.root = _root_name(receiver) if receiver is not None else None
        self.detail = detail

    @property
    def text(self) -> str:
        return unparse(self.node)[:120]

    def receiver_text(self) -> str:
        return unparse(self.receiver) if self.receiver is not None else ""


def _root_name(e) -> Optional[str]:
    while isinstance(e, (ast.Attribute, ast.Subscript, ast.Call)):
        e = e.func if isinstance(e, ast.Call) else e.value
    return e.id if isinstance(e, ast.Name) else None


def write_sites(func: Func) -> List[WriteSite]:
    out: List[WriteSite] = []
    for n in walk_no_nested(func.node):
        if isinstance(n, (ast.Assign, ast.AugAssign, ast.AnnAssign)):
            tgts = n.targets if isinstance(n, ast.Assign) else [n.target]
            flat = []
            for t in tgts:
                flat += list(t.elts) if isinstance(t, (ast.Tuple, ast.List)) else [t]
            for t in flat:
                if isinstance(n, ast.AnnAssign) and n.value is None:
                    continue
                if isinstance(t, ast.Attribute):
                    out.append(WriteSite(func, n, "store-attr", t.value, t.attr))
                elif isinstance(t, ast.Subscript):
                    out.append(WriteSite(func, n, "store-item", t.value))
                elif isinstance(t, ast.Name) and isinstance(n, ast.AugAssign):
                    # x += ... on a list mutates it in place
                    out.append(WriteSite(func, n, "augassign", t))
        elif isinstance(n, ast.Delete):
            for t in n.targets:
                if isinstance(t, (ast.Attribute, ast.Subscript)):
                    out.append(WriteSite(func, n, "store-item", t.value))
        elif isinstance(n, ast.Call):
            if isinstance(n.func, ast.Attribute) and n.func.attr in MUTATORS:
                out.append(WriteSite(func, n, "mutator", n.func.value, n.func.attr))
            elif isinstance(n.func, ast.Name) and n.func.id in ("setattr", "delattr") and n.args:
                out.append(WriteSite(func, n, n.func.id, n.args[0]))
        elif isinstance(n, (ast.Global, ast.Nonlocal)):
            out.append(WriteSite(func, n, "global", None, ",".join(n.names)))
    return out


class CallGraph:
    def __init__(self, repo: Repo):
        self.repo = repo
        self.funcs: Dict[str, Func] = {f.fq: f for f in repo.all_funcs()}
        self.methods_by_name: Dict[str, List[Func]] = {}
        for f in self.funcs.values():
            if f.cls is not None and f.parent is None and not any(d.endswith(".setter") for d in f.decorators):
                self.methods_by_name.setdefault(f.name, []).append(f)
        self.slot: Dict[str, Set[str]] = {}   # slot / keyword name -> function fqs that may be stored there
        self.edges: Dict[str, Set[str]] = {fq: set() for fq in self.funcs}
        self.unresolved: Dict[str, List[str]] = {}
        self.n_calls = 0
        self.n_resolved = 0
        self._collect_slots()
        self._build()

    # ---- function *values* of an expression (callees of calls inside it are not values)
    def _resolve_func_name(self, func_ctx: Optional[Func], module: Module, d: str):
        if func_ctx is not None:
            f = func_ctx
            while f is not None:
                q = f"{f.qualname}.{d}"
                if q in module.funcs:
                    return module.funcs[q]
                f = f.parent
            if d.startswith("self.") and func_ctx.cls is not None and d.count(".") == 1:
                m = self.repo.find_method(func_ctx.cls, d.split(".")[1])
                if m is not None:
                    return m
        return self.repo.lookup(self.repo.resolve_name(module, d))

    def fvals(self, func_ctx: Optional[Func], module: Module, expr, depth: int = 0) -> Set[str]:
        out: Set[str] = set()
        if expr is None or depth > 4:
            return out
        if isinstance(expr, (ast.Name, ast.Attribute)):
            d = dotted(expr)
            if d:
                obj = self._resolve_func_name(func_ctx, module, d)
                if isinstance(obj, Func):
                    out.add(obj.fq)
                elif isinstance(obj, Class):
                    init = self.repo.find_method(obj, "__init__")
                    if init is not None:
                        out.add(init.fq)
                    call = self.repo.find_method(obj, "__call__")
                    if call is not None:
                        out.add(call.fq)
                elif isinstance(obj, ast.AST):
                    # module-level constant (dispatch table)
                    tgt = self.repo.resolve_name(module, d)
                    owner = self.repo.modules.get(tgt.rsplit(".", 1)[0]) if tgt else None
                    out |= self.fvals(None, owner or module, obj, depth + 1)
                elif func_ctx is not None and isinstance(expr, ast.Name):
                    # a local bound to function values
                    for n in walk_no_nested(func_ctx.node):
                        if isinstance(n, ast.Assign) and any(isinstance(t, ast.Name) and t.id == expr.id for t in n.targets):
                            if not any(isinstance(x, ast.Name) and x.id == expr.id for x in ast.walk(n.value)) or depth < 2:
                                out |= self.fvals(func_ctx, module, n.value, depth + 1)
            if isinstance(expr, ast.Attribute) and expr.attr in self.slot:
                out |= self.slot[expr.attr]
            return out
        if isinstance(expr, ast.Call):
            callee = self._resolve_func_name(func_ctx, module, dotted(expr.func) or "") if dotted(expr.func) else None
            for a in list(expr.args) + [k.value for k in expr.keywords]:
                out |= self.fvals(func_ctx, module, a.value if isinstance(a, ast.Starred) else a, depth + 1)
            if isinstance(callee, Func):
                out |= self.returned_funcs(callee)
            return out
        if isinstance(expr, ast.IfExp):
            return self.fvals(func_ctx, module, expr.body, depth + 1) | self.fvals(func_ctx, module, expr.orelse, depth + 1)
        if isinstance(expr, ast.BoolOp):
            for v in expr.values:
                out |= self.fvals(func_ctx, module, v, depth + 1)
            return out
        if isinstance(expr, (ast.List, ast.Tuple, ast.Set)):
            for v in expr.elts:
                out |= self.fvals(func_ctx, module, v, depth + 1)
            return out
        if isinstance(expr, ast.Dict):
            for v in expr.values:
                out |= self.fvals(func_ctx, module, v, depth + 1)
            return out
        if isinstance(expr, ast.Await):
            return self.fvals(func_ctx, module, expr.value, depth + 1)
        if isinstance(expr, ast.Subscript):
            return self.fvals(func_ctx, module, expr.value, depth + 1)
        return out

    def returned_funcs(self, g: Func) -> Set[str]:
        """Functions a higher-order function may return: function values mentioned in its
        returns, in assignments to the returned names, and its own nested functions."""
        cache = self.__dict__.setdefault("_ret_cache", {})
        if g.fq in cache:
            return cache[g.fq]
        cache[g.fq] = set()
        out: Set[str] = set()
        names = set()
        for n in walk_no_nested(g.node):
            if isinstance(n, ast.Return) and n.value is not None:
                out |= self.fvals(g, g.module, n.value, 3)
                names |= {x.id for x in ast.walk(n.value) if isinstance(x, ast.Name)}
        for n in walk_no_nested(g.node):
            if isinstance(n, ast.Assign) and any(isinstance(t, ast.Name) and t.id in names for t in n.targets):
                out |= self.fvals(g, g.module, n.value, 3)
        cache[g.fq] = out
        return out

    def _collect_slots(self):
        self.kwslot: Dict[str, Set[str]] = {}
        for _round in range(3):
            for f in list(self.funcs.values()) + [None]:
                mods = [f.module] if f is not None else list(self.repo.modules.values())
                for mod in mods:
                    root = f.node if f is not None else mod.tree
                    it = walk_no_nested(root) if f is not None else (n for n in mod.tree.body)
                    for n0 in it:
                        for n in ([n0] if f is not None else ast.walk(n0) if not isinstance(n0, (ast.FunctionDef, ast.AsyncFunctionDef, ast.ClassDef)) else []):
                            if isinstance(n, ast.Assign):
                                for t in n.targets:
                                    if isinstance(t, ast.Attribute):
                                        v = self.fvals(f, mod, n.value)
                                        if v:
                                            self.slot.setdefault(t.attr, set()).update(v)
                            if isinstance(n, ast.Call):
                                for k in n.keywords:
                                    if k.arg:
                                        v = self.fvals(f, mod, k.value)
                                        if v:
                                            self.kwslot.setdefault(k.arg, set()).update(v)
                                callee = self._resolve_func_name(f, mod, dotted(n.func) or "") if dotted(n.func) else None
                                target = None
                                args = list(n.args)
                                if dotted(n.func) == "partial" and n.args:
                                    target = self._resolve_func_name(f, mod, dotted(n.args[0]) or "") if dotted(n.args[0]) else None
                                    args = list(n.args[1:])
                                elif isinstance(callee, Func):
                                    target = callee
                                elif isinstance(callee, Class):
                                    target = self.repo.find_method(callee, "__init__")
                                    args = [None] + args
                                if isinstance(target, Func):
                                    params = target.positional_params
                                    if target.cls is not None and params[:1] == ["self"] and not (isinstance(callee, Class)):
                                        params = params[1:] if not (dotted(n.func) == "partial") else params
                                    for pn, a in zip(params, args):
                                        if a is None or isinstance(a, ast.Starred):
                                            continue
                                        v = self.fvals(f, mod, a)
                                        if v:
                                            self.kwslot.setdefault(pn, set()).update(v)

    def _build(self):
        for fq, f in self.funcs.items():
            e = self.edges[fq]
            for n in walk_no_nested(f.node):
                if isinstance(n, (ast.FunctionDef, ast.AsyncFunctionDef)) and n is not f.node:
                    q = f"{f.qualname}.{n.name}"
                    if q in f.module.funcs:
                        e.add(f.module.funcs[q].fq)
                if not isinstance(n, ast.Call):
                    continue
                self.n_calls += 1
                tgt = self.repo.resolve_call(f, n)
                if isinstance(tgt, Func):
                    e.add(tgt.fq)
                    self.n_resolved += 1
                elif isinstance(tgt, Class):
                    init = self.repo.find_method(tgt, "__init__")
                    if init is not None:
                        e.add(init.fq)
                    self.n_resolved += 1
                else:
                    hit = False
                    if isinstance(n.func, ast.Name):
                        name = n.func.id
                        params = set()
                        g = f
                        while g is not None:
                            params |= {p.lstrip("*") for p in g.params}
                            g = g.parent
                        if name in params:
                            v = self.kwslot.get(name, set())
                            e.update(v)
                            hit = bool(v)
                        else:
                            v = self.fvals(f, f.module, n.func)
                            e.update(v)
                            hit = bool(v)
                    elif isinstance(n.func, ast.Attribute):
                        name = n.func.attr
                        if name in self.slot:
                            e.update(self.slot[name])
                            hit = True
                        if name in self.methods_by_name and name not in COOK_ONLY_METHODS and not (name.startswith("__") and name.endswith("__")):
                            e.update(m.fq for m in self.methods_by_name[name])
                            hit = True
                    elif isinstance(n.func, (ast.Call, ast.Subscript)):
                        v = self.fvals(f, f.module, n.func)
                        e.update(v)
                        hit = bool(v)
                    if hit:
                        self.n_resolved += 1
                    else:
                        self.unresolved.setdefault(fq, []).append(unparse(n.func)[:60])
                # function values handed to callees / stored: they may be called by whoever receives them
                for a in list(n.args) + [k.value for k in n.keywords]:
                    e.update(self.fvals(f, f.module, a.value if isinstance(a, ast.Starred) else a))
            e.discard(fq)

    def reachable(self, entries: Iterable[str], stop: Iterable[str] = ()) -> Set[str]:
        stop = set(stop)
        seen: Set[str] = set()
        todo = [e for e in entries]
        for e in todo:
            if e not in self.funcs:
                raise AnalysisError(f"anchor missing: entry point {e}")
        while todo:
            x = todo.pop()
            if x in seen or x in stop:
                continue
            seen.add(x)
            todo.extend(self.edges.get(x, ()))
        return seen

    def callers_of(self, fq: str) -> List[str]:
        return [a for a, bs in self.edges.items() if fq in bs]

    def path(self, src_entries: Iterable[str], dst: str) -> List[str]:
        """One shortest path from any entry to dst (for diagnostics)."""
        from collections import deque

        prev: Dict[str, Optional[str]] = {}
        dq = deque()
        for e in src_entries:
            prev[e] = None
            dq.append(e)
        while dq:
            x = dq.popleft()
            if x == dst:
                out = []
                while x is not None:
                    out.append(x)
                    x = prev[x]
                return list(reversed(out))
            for y in self.edges.get(x, ()):
                if y not in prev:
                    prev[y] = x
                    dq.append(y)
        return []


# ---------------------------------------------------------------------------
# receiver classification
# ---------------------------------------------------------------------------

FRESH_CTORS = {"dict", "list", "set", "tuple", "frozenset", "defaultdict", "OrderedDict", "deque", "partial", "Path", "CoercionResult", "ExecutionContext",
               "ResolveInfo", "MultipleException", "TartifletteError", "ExecutableVariableDefinition", "Validators", "object", "sorted", "DocumentNode"}
PER_REQUEST_CLASSES = {"ExecutionContext", "ResolveInfo", "Path", "CoercionResult", "ExecutableVariableDefinition", "Validators", "MultipleException",
                       "TartifletteError", "CycleException", "ParsedData"}


def is_fresh_expr(e) -> bool:
    if isinstance(e, (ast.List, ast.Dict, ast.Set, ast.ListComp, ast.DictComp, ast.SetComp, ast.Tuple, ast.Constant, ast.JoinedStr)):
        return True
    if isinstance(e, ast.Await):
        return is_fresh_expr(e.value)
    if isinstance(e, ast.Call):
        d = dotted(e.func)
        if d and d.split(".")[-1] in FRESH_CTORS:
            return True
        # constructor of an AST node / exception class (CamelCase ending in Node/Error/Exception)
        last = (d or "").split(".")[-1]
        if last[:1].isupper() and (last.endswith("Node") or last.endswith("Error") or last.endswith("Exception") or last == "Location"):
            return True
    if isinstance(e, ast.BinOp) and isinstance(e.op, ast.Add):
        return is_fresh_expr(e.left) or is_fresh_expr(e.right)
    return False


def local_bindings(func: Func, name: str) -> List[ast.expr]:
    out = []
    for n in walk_no_nested(func.node):
        if isinstance(n, ast.Assign):
            for t in n.targets:
                if isinstance(t, ast.Name) and t.id == name:
                    out.append(n.value)
                elif isinstance(t, (ast.Tuple, ast.List)):
                    for i, el in enumerate(t.elts):
                        if isinstance(el, ast.Name) and el.id == name:
                            out.append(ast.Subscript(value=n.value, slice=ast.Constant(value=i), ctx=ast.Load()))
        elif isinstance(n, ast.AnnAssign) and isinstance(n.target, ast.Name) and n.target.id == name and n.value is not None:
            out.append(n.value)
        elif isinstance(n, (ast.For, ast.AsyncFor)):
            for x in ast.walk(n.target):
                if isinstance(x, ast.Name) and x.id == name:
                    out.append(ast.Name(id=f"<item of {unparse(n.iter)}>", ctx=ast.Load()))
        elif isinstance(n, ast.ExceptHandler) and n.name == name:
            out.append(ast.Call(func=ast.Name(id="CaughtException", ctx=ast.Load()), args=[], keywords=[]))
        elif isinstance(n, (ast.With, ast.AsyncWith)):
            for it in n.items:
                if it.optional_vars is not None and any(isinstance(x, ast.Name) and x.id == name for x in ast.walk(it.optional_vars)):
                    out.append(it.context_expr)
    return out


def classify_receiver(func: Func, site: WriteSite) -> Tuple[str, str]:
    """-> (class, reason); class in FRESH | PARAM | SELF-PER-REQUEST | SELF-SHARED | GLOBAL | UNKNOWN."""
    root = site.root
    if site.kind == "global":
        return "GLOBAL", f"global/nonlocal {site.detail}"
    if root is None:
        return "UNKNOWN", "no root name"
    if root in ("self", "cls") and func.cls is not None:
        if func.name == "__init__" and root == "self" and func.parent is None:
            return "FRESH", "constructor initialising the object being created"
        if func.cls.name in PER_REQUEST_CLASSES or func.cls.name.endswith(("Error", "Exception")):
            return "SELF-PER-REQUEST", func.cls.name
        return "SELF-SHARED", func.cls.name
    # parameter of this function or of an enclosing one (closure)
    f = func
    while f is not None:
        if root in [p.lstrip("*") for p in f.params]:
            binds = local_bindings(func, root)
            if binds and all(is_fresh_expr(b) for b in binds) and f is func:
                # parameter rebound to a fresh value before use (``if x is None: x = {}``): still may be the caller's
                return "PARAM", f"parameter {root} (rebound to fresh default when None)"
            return "PARAM", f"parameter {root}"
        f = f.parent
    binds = local_bindings(func, root)
    if binds:
        if all(is_fresh_expr(b) for b in binds):
            return "FRESH", "local bound to a fresh object"
        # a local derived from something else: classify by the expression's own root
        kinds = []
        for b in binds:
            if is_fresh_expr(b):
                continue
            kinds.append(unparse(b)[:60])
        return "DERIVED", "; ".join(kinds)
    if root in func.module.assigns or root in func.module.imports:
        return "GLOBAL", f"module-level name {root}"
    return "UNKNOWN", f"unbound name {root}"


# ---------------------------------------------------------------------------
# parameter provenance: is the object bound to parameter P of F created by the
# current request / parse at every call site inside the analysed phase?
# ---------------------------------------------------------------------------


class Provenance:
    def __init__(self, graph: CallGraph, phase: Set[str], trusted_params: Iterable[str] = ()):
        self.g = graph
        self.phase = phase
        self.trusted = set(trusted_params)
        self._sites: Optional[Dict[str, List[Tuple[Func, ast.Call, bool]]]] = None
        self.memo: Dict[Tuple[str, str], Tuple[bool, str]] = {}

    def call_sites(self) -> Dict[str, List[Tuple[Func, ast.Call, bool]]]:
        """callee fq -> [(caller, call, bound_self)] for every resolvable call inside the phase."""
        if self._sites is not None:
            return self._sites
        sites: Dict[str, List[Tuple[Func, ast.Call, bool]]] = {}
        for fq in self.phase:
            f = self.g.funcs[fq]
            for n in walk_no_nested(f.node):
                if not isinstance(n, ast.Call):
                    continue
                tgt = self.g.repo.resolve_call(f, n)
                targets: Set[str] = set()
                if isinstance(tgt, Func):
                    targets.add(tgt.fq)
                elif isinstance(n.func, (ast.Subscript, ast.Call)) or (isinstance(n.func, ast.Name) and tgt is None):
                    targets |= self.g.fvals(f, f.module, n.func)
                for t in targets:
                    sites.setdefault(t, []).append((f, n, isinstance(n.func, ast.Attribute)))
        self._sites = sites
        return sites

    def param_owned(self, func: Func, param: str, depth: int = 0) -> Tuple[bool, str]:
        key = (func.fq, param)
        if key in self.memo:
            return self.memo[key]
        if param in self.trusted:
            return True, f"{param}: per-request by contract"
        if param.startswith("**") or ("**" + param) in func.params:
            return True, "**kwargs is a new dict at every call"
        self.memo[key] = (True, "recursion (assumed, coinductive)")
        sites = self.call_sites().get(func.fq, [])
        if not sites:
            res = (False, f"no resolvable call site of {func.qualname} inside the phase")
            self.memo[key] = res
            return res
        pos = func.positional_params
        for caller, call, is_attr in sites:
            a = None
            for k in call.keywords:
                if k.arg == param:
                    a = k.value
            if a is None and param in pos:
                i = pos.index(param)
                if func.cls is not None and pos[:1] in (["self"], ["cls"]) and is_attr:
                    i -= 1
                if 0 <= i < len(call.args) and not isinstance(call.args[i], ast.Starred):
                    a = call.args[i]
            if a is None:
                d = func.param_defaults().get(param)
                if d is None or isinstance(d, ast.Constant):
                    continue  # omitted: the default is immutable (None) and rebound inside
                res = (False, f"mutable default argument for {param}")
                self.memo[key] = res
                return res
            ok, why = self.expr_owned(caller, a, depth + 1)
            if not ok:
                res = (False, f"{caller.qualname} passes `{unparse(a)[:50]}`: {why}")
                self.memo[key] = res
                return res
        res = (True, f"fresh at all {len(sites)} call site(s)")
        self.memo[key] = res
        return res

    def expr_owned(self, func: Func, e, depth: int = 0) -> Tuple[bool, str]:
        if depth > 40:
            return False, "provenance too deep"
        if is_fresh_expr(e):
            return True, "fresh expression"
        if isinstance(e, ast.Call) and isinstance(e.func, ast.Attribute) and e.func.attr in ("get", "setdefault", "values", "items", "keys", "pop"):
            # element of a container belongs to whoever owns the container
            ok, why = self.expr_owned(func, e.func.value, depth + 1)
            if ok and all(not isinstance(a, (ast.Name, ast.Attribute)) or self.expr_owned(func, a, depth + 1)[0] or True for a in e.args):
                return True, "element of an owned container"
            return False, why
        if isinstance(e, ast.Subscript):
            return self.expr_owned(func, e.value, depth + 1)
        if isinstance(e, ast.Call):
            # result of a package function: owned if every return of it is owned
            tgt = self.g.repo.resolve_call(func, e)
            if isinstance(tgt, Func):
                rets = [n for n in walk_no_nested(tgt.node) if isinstance(n, ast.Return) and n.value is not None]
                if rets and all(self.expr_owned(tgt, r.value, depth + 1)[0] for r in rets):
                    return True, f"{tgt.qualname} returns objects it created"
            d = dotted(e.func) or ""
            if d.split(".")[-1] in ("get_close_matches", "list", "dict", "sorted", "copy", "deepcopy"):
                return True, "library call returning a new object"
            return False, f"result of {unparse(e.func)[:40]}"
        if isinstance(e, ast.Await):
            return self.expr_owned(func, e.value, depth)
        root = _root_name(e)
        if root is None:
            return False, "no root"
        f = func
        while f is not None:
            if root in [p.lstrip("*") for p in f.params]:
                if isinstance(e, ast.Name):
                    return self.param_owned(f, root, depth + 1)
                return False, f"reaches into parameter {root}"
            f = f.parent
        binds = local_bindings(func, root)
        if binds and isinstance(e, ast.Name):
            for b in binds:
                ok, why = self.expr_owned(func, b, depth + 1)
                if not ok:
                    return False, why
            return True, "local bound to owned objects"
        return False, f"`{unparse(e)[:40]}` is not created by this request"
