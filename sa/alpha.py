"""Alpha-normalisation of local names against a frozen reference.

The rules of this checker name local variables of /repo's functions (`coercion_result`, `graphql_error`, ...).
Renaming a local is a behaviour-preserving edit, so a rule must not fire on it.  `reference_locals.json` records, for
every function of the pinned tree, the order in which its local names first occur and a digest of the function with
every local replaced by its ordinal (`_L0`, `_L1`, ...).  When a function of the current tree has the same digest but
other local names - it is alpha-equivalent to the reference - its locals are renamed back to the reference names *in
the in-memory model* before any rule runs.  A function whose digest differs is analysed as it stands.

Locals = names bound in the function's own scope (assignment / for / with / except / import / walrus targets and
comprehension targets), parameters excluded; names declared global / nonlocal excluded; nested functions are handled as
functions of their own and the free uses of an outer local inside them are renamed with it.  Parameters are never
renamed: callers may pass them by keyword.
"""
from __future__ import annotations

import ast
import copy
import hashlib
import json
import os
from typing import Dict, List, Optional, Set

REF_FILE = os.path.join(os.path.dirname(os.path.abspath(__file__)), "reference_locals.json")
_FUNCS = (ast.FunctionDef, ast.AsyncFunctionDef)
_SCOPES = _FUNCS + (ast.Lambda, ast.ClassDef)


def _params(fn) -> Set[str]:
    a = fn.args
    out = {x.arg for x in a.args + a.kwonlyargs + getattr(a, "posonlyargs", [])}
    if a.vararg:
        out.add(a.vararg.arg)
    if a.kwarg:
        out.add(a.kwarg.arg)
    return out


def _own_nodes(fn):
    """Source-order walk of the function's own scope: nested def / lambda / class bodies are not entered (their
    decorators, defaults and bases are)."""
    todo = list(reversed(fn.body))
    while todo:
        n = todo.pop()
        yield n
        if isinstance(n, _FUNCS):
            kids = list(n.decorator_list) + list(n.args.defaults) + [d for d in n.args.kw_defaults if d is not None]
        elif isinstance(n, ast.Lambda):
            kids = list(n.args.defaults) + [d for d in n.args.kw_defaults if d is not None]
        elif isinstance(n, ast.ClassDef):
            kids = list(n.decorator_list) + list(n.bases) + [k.value for k in n.keywords]
        else:
            kids = list(ast.iter_child_nodes(n))
        todo.extend(reversed(kids))


def locals_in_order(fn) -> List[str]:
    params = _params(fn)
    excluded: Set[str] = set()
    out: List[str] = []
    for n in _own_nodes(fn):
        if isinstance(n, (ast.Global, ast.Nonlocal)):
            excluded |= set(n.names)
    for n in _own_nodes(fn):
        name = None
        if isinstance(n, ast.Name) and isinstance(n.ctx, (ast.Store, ast.Del)):
            name = n.id
        elif isinstance(n, ast.ExceptHandler) and n.name:
            name = n.name
        elif isinstance(n, ast.alias):
            name = (n.asname or n.name).split(".")[0]
        elif isinstance(n, _FUNCS + (ast.ClassDef,)):
            continue  # a nested def's own name is left alone: rules address nested functions by name
        if name and name not in params and name not in excluded and name not in out:
            out.append(name)
    return out


def _rename(fn, mapping: Dict[str, str]):
    """Renames, in place, the locals of `fn` (and their free uses in nested scopes that do not rebind them)."""

    def visit(node, active: Dict[str, str], top: bool):
        if isinstance(node, _SCOPES) and not top:
            if isinstance(node, ast.ClassDef):
                inner_bound: Set[str] = set()
            else:
                inner_bound = _params(node) | (set(locals_in_order(node)) if isinstance(node, _FUNCS) else set())
            inner = {k: v for k, v in active.items() if k not in inner_bound}
            # decorators / defaults / bases are evaluated in the enclosing scope
            outer_parts, body = [], []
            if isinstance(node, _FUNCS):
                outer_parts = list(node.decorator_list) + list(node.args.defaults) + [d for d in node.args.kw_defaults if d is not None]
                body = node.body
            elif isinstance(node, ast.Lambda):
                outer_parts = list(node.args.defaults) + [d for d in node.args.kw_defaults if d is not None]
                body = [node.body]
            else:
                outer_parts = list(node.decorator_list) + list(node.bases) + [k.value for k in node.keywords]
                body = node.body
            for p in outer_parts:
                visit(p, active, False)
            for b in body:
                visit(b, inner, False)
            return
        if isinstance(node, ast.Name) and node.id in active:
            node.id = active[node.id]
        elif isinstance(node, ast.ExceptHandler) and node.name in active:
            node.name = active[node.name]
        elif isinstance(node, ast.alias):
            base = (node.asname or node.name)
            if base in active:
                node.asname = active[base]
        for ch in ast.iter_child_nodes(node):
            visit(ch, active, False)

    for st in fn.body:
        visit(st, dict(mapping), False)


def normal_form(fn) -> str:
    """Text of the function with its own locals (and those of nested functions) replaced by ordinals."""
    g = copy.deepcopy(fn)
    _normalise(g)
    g.decorator_list = []
    return ast.unparse(g)


def _normalise(fn, prefix: str = "_L"):
    names = locals_in_order(fn)
    _rename(fn, {n: f"{prefix}{i}" for i, n in enumerate(names)})
    k = 0
    for n in ast.walk(fn):
        if n is not fn and isinstance(n, _FUNCS):
            # nested functions: normalise with a distinct prefix (each nested def is visited once, outermost first)
            if not getattr(n, "_alpha_done", False):
                n._alpha_done = True
                k += 1
                _normalise(n, prefix=f"{prefix}{k}n")


def digest(fn) -> str:
    return hashlib.sha1(normal_form(fn).encode()).hexdigest()[:16]


def functions(tree: ast.Module):
    """(qualname, node) for every def at any nesting level, qualnames as the model builds them."""
    out = []

    def rec(body, prefix):
        for s in body:
            if isinstance(s, _FUNCS):
                q = f"{prefix}{s.name}"
                out.append((q, s))
                rec(s.body, q + ".")
            elif isinstance(s, ast.ClassDef):
                rec(s.body, f"{prefix}{s.name}.")
            elif isinstance(s, (ast.If, ast.Try, ast.With, ast.For, ast.While)):
                for fld in ("body", "orelse", "finalbody", "handlers"):
                    for x in getattr(s, fld, []) or []:
                        if isinstance(x, ast.ExceptHandler):
                            rec(x.body, prefix)
                        elif isinstance(x, ast.stmt):
                            rec([x], prefix)

    rec(tree.body, "")
    return out


def inline_return_temps(tree: ast.Module) -> int:
    """`t = E` immediately followed by `return t`, `t` a plain local with no other occurrence, becomes `return E`.
    Introducing such a temporary is a common behaviour-preserving edit, and the pinned tree contains no instance of the
    pattern (counted when the reference is built), so the canonical form is the one the rules were written against."""
    n = 0
    for _, fn in functions(tree):
        counts: Dict[str, int] = {}
        for x in ast.walk(fn):
            if isinstance(x, ast.Name):
                counts[x.id] = counts.get(x.id, 0) + 1
        params = _params(fn)
        for parent in ast.walk(fn):
            for field, value in ast.iter_fields(parent):
                if not isinstance(value, list):
                    continue
                i = 0
                while i + 1 < len(value):
                    a, b = value[i], value[i + 1]
                    if isinstance(a, ast.Assign) and len(a.targets) == 1 and isinstance(a.targets[0], ast.Name) and isinstance(b, ast.Return) and isinstance(b.value, ast.Name) \
                            and b.value.id == a.targets[0].id and counts.get(b.value.id) == 2 and b.value.id not in params:
                        b.value = a.value
                        del value[i]
                        n += 1
                        continue
                    i += 1
    return n


def drop_local_annotations(tree: ast.Module) -> int:
    """`x: T = E` inside a function is `x = E` for every purpose of this checker (annotations of locals are not evaluated
    for simple names at run time either)."""
    n = 0
    for _, fn in functions(tree):
        for parent in ast.walk(fn):
            for field, value in ast.iter_fields(parent):
                if not isinstance(value, list):
                    continue
                for i, st in enumerate(value):
                    if isinstance(st, ast.AnnAssign) and st.value is not None and isinstance(st.target, (ast.Name, ast.Attribute, ast.Subscript)):
                        new = ast.Assign(targets=[st.target], value=st.value)
                        value[i] = ast.copy_location(new, st)
                        n += 1
    return n


_SYM = (ast.Eq, ast.NotEq, ast.Is, ast.IsNot)


def _sym_compares(fn):
    return [n for n in ast.walk(fn) if isinstance(n, ast.Compare) and len(n.ops) == 1 and isinstance(n.ops[0], _SYM)]


def orient_compares(fn, ref_texts: List[str]) -> int:
    """`a == b` written `b == a` (same for !=, is, is not) is put back the way the reference writes it."""
    known = set(ref_texts)
    n = 0
    for c in _sym_compares(fn):
        if ast.unparse(c) in known:
            continue
        sw = ast.Compare(left=c.comparators[0], ops=c.ops, comparators=[c.left])
        if ast.unparse(sw) in known:
            c.left, c.comparators = sw.left, sw.comparators
            n += 1
    return n


_ref: Optional[dict] = None


def reference() -> dict:
    global _ref
    if _ref is None:
        if os.path.exists(REF_FILE):
            with open(REF_FILE) as fh:
                _ref = json.load(fh)
        else:
            _ref = {}
    return _ref


def build_reference(root: str) -> dict:
    out = {}
    for dirpath, _, files in os.walk(os.path.join(root, "tartiflette")):
        for fn in sorted(files):
            if not fn.endswith(".py"):
                continue
            path = os.path.join(dirpath, fn)
            rel = os.path.relpath(path, root)
            try:
                tree = ast.parse(open(path, encoding="utf-8").read())
            except SyntaxError:
                continue
            drop_local_annotations(tree)
            if inline_return_temps(tree):
                raise SystemExit(f"{rel}: the reference tree contains a single-use temporary before a return; the canonical form assumption does not hold")
            for q, node in functions(tree):
                names = locals_in_order(node)
                sym = sorted({ast.unparse(c) for c in _sym_compares(node)})
                pos = node.args.args
                dfl = {a.arg: ast.unparse(d) for a, d in zip(pos[len(pos) - len(node.args.defaults):], node.args.defaults) if isinstance(d, ast.Constant)}
                dfl.update({a.arg: ast.unparse(d) for a, d in zip(node.args.kwonlyargs, node.args.kw_defaults) if isinstance(d, ast.Constant)})
                out[f"{rel}::{q}"] = {"locals": names, "digest": digest(node), "sym": sym, "src": ast.unparse(node),
                                      "params": [a.arg for a in node.args.args], "defaults": dfl}
    return out


def signatures() -> Dict[str, List[str]]:
    """name -> positional parameter names, for module-level functions of the reference whose name is unique."""
    global _sigs
    if _sigs is None:
        seen: Dict[str, List[List[str]]] = {}
        for k, r in reference().items():
            q = k.split("::", 1)[1]
            if "." not in q:
                seen.setdefault(q, []).append(r.get("params", []))
        _sigs = {k: v[0] for k, v in seen.items() if len(v) == 1}
        dseen: Dict[str, List[dict]] = {}
        for k, r in reference().items():
            q = k.split("::", 1)[1]
            if "." not in q:
                dseen.setdefault(q, []).append(r.get("defaults", {}))
        _sigs["__defaults__"] = {k: v[0] for k, v in dseen.items() if len(v) == 1}
    return _sigs


_sigs: Optional[Dict[str, List[str]]] = None
_nf_cache: Dict[str, str] = {}
_cur_sources: Dict[str, str] = {}
_cur_defs: Optional[Dict[str, ast.AST]] = None
_ref_defs: Optional[Dict[str, ast.AST]] = None
_MAX_INLINE_STMTS = 12


def begin_repo(sources: Dict[str, str]):
    """Called by the model before it parses the modules of a tree: the current text of every file, for the rare case
    where recognising a refactored function needs the body of a function of another module."""
    global _cur_sources, _cur_defs
    _cur_sources = sources
    _cur_defs = None


def _small(node) -> bool:
    n = sum(1 for x in ast.walk(node) if isinstance(x, ast.stmt)) - 1
    return n <= _MAX_INLINE_STMTS and not any(isinstance(x, (ast.Yield, ast.YieldFrom, ast.For, ast.AsyncFor, ast.While, ast.Lambda)) for x in ast.walk(node)) \
        and not any(isinstance(x, _FUNCS) for b in node.body for x in ast.walk(b))


def _module_level_defs(tree) -> Dict[str, ast.AST]:
    return {s.name: s for s in tree.body if isinstance(s, _FUNCS)}


def current_def(name: str):
    """The module-level function of that name in the current tree, when exactly one module defines it."""
    global _cur_defs
    if _cur_defs is None:
        seen: Dict[str, List[ast.AST]] = {}
        for rel, src in _cur_sources.items():
            if not rel.endswith(".py"):
                continue
            try:
                t = ast.parse(src)
            except SyntaxError:
                continue
            drop_local_annotations(t)
            for k, v in _module_level_defs(t).items():
                seen.setdefault(k, []).append(v)
        _cur_defs = {k: v[0] for k, v in seen.items() if len(v) == 1}
    return _cur_defs.get(name)


def reference_def(name: str, rel: Optional[str] = None):
    """The reference's module-level function of that name: the one of module `rel` if it has one, else the unique one."""
    global _ref_defs
    ref = reference()
    if rel is not None and f"{rel}::{name}" in ref and "src" in ref[f"{rel}::{name}"]:
        return ast.parse(ref[f"{rel}::{name}"]["src"]).body[0]
    if _ref_defs is None:
        seen: Dict[str, List[str]] = {}
        for k, r in ref.items():
            q = k.split("::", 1)[1]
            if "." not in q and "src" in r:
                seen.setdefault(q, []).append(r["src"])
        _ref_defs = {k: v[0] for k, v in seen.items() if len(v) == 1}
    src = _ref_defs.get(name)
    return ast.parse(src).body[0] if isinstance(src, str) else None


def _creation_facts(defs) -> dict:
    """defs: iterable of (qualified name, def node).  Names that are `async def` wherever defined; classes whose __init__ only
    stores parameters / constants into attributes."""
    is_async: Dict[str, Set[bool]] = {}
    ctors: Set[str] = set()
    for q, node in defs:
        is_async.setdefault(q.rsplit(".", 1)[-1], set()).add(isinstance(node, ast.AsyncFunctionDef))
        if q.endswith(".__init__") and q.count(".") == 1:
            params = {a.arg for a in node.args.args}
            body = [b for b in node.body if not (isinstance(b, ast.Expr) and isinstance(b.value, ast.Constant))]
            if all(isinstance(b, (ast.Assign, ast.AnnAssign)) and isinstance((b.targets[0] if isinstance(b, ast.Assign) else b.target), ast.Attribute)
                   and isinstance(b.value, (ast.Name, ast.Constant)) and (not isinstance(b.value, ast.Name) or b.value.id in params) for b in body):
                ctors.add(q.split(".", 1)[0])
    return {"async": frozenset(k for k, v in is_async.items() if v == {True}), "ctors": frozenset(ctors)}


_ref_creation = None
_cur_creation = None


def _set_creation(side: str):
    global _ref_creation, _cur_creation
    from . import normal
    if side == "ref":
        if _ref_creation is None:
            ref = reference()
            _ref_creation = _creation_facts((k.split("::", 1)[1], ast.parse(r["src"]).body[0]) for k, r in ref.items() if "src" in r)
        normal.CREATION = _ref_creation
    else:
        if _cur_creation is None or _cur_creation[0] is not _cur_sources:
            defs = []
            for rel, src in (_cur_sources or {}).items():
                if not rel.endswith(".py"):
                    continue
                try:
                    t = ast.parse(src)
                except SyntaxError:
                    continue
                defs += functions(t)
            _cur_creation = (_cur_sources, _creation_facts(defs))
        normal.CREATION = _cur_creation[1]


def _called_names(node) -> Set[str]:
    return {c.func.id for c in ast.walk(node) if isinstance(c, ast.Call) and isinstance(c.func, ast.Name)}


def _ref_nf(key: str, r: dict) -> str:
    if key not in _nf_cache:
        from .normal import normal_form as nf

        node = ast.parse(r["src"]).body[0]
        rel, q = key.split("::", 1)
        helpers = {}
        todo = [(n, 0) for n in _called_names(node)]
        while todo:
            name, depth = todo.pop()
            if name == q.rsplit(".", 1)[-1] or name in helpers:
                continue
            d = reference_def(name, rel)
            if d is not None and _small(d):
                helpers[name] = d
                if depth < 2:
                    todo += [(n, depth + 1) for n in _called_names(d)]
        _set_creation("ref")
        _nf_cache[key] = digest(nf(node, signatures(), helpers=helpers, in_class="." in q))
    return _nf_cache[key]


def _replace_def(tree, old, new) -> bool:
    for parent in ast.walk(tree):
        for _, value in ast.iter_fields(parent):
            if isinstance(value, list):
                for j, v in enumerate(value):
                    if v is old:
                        value[j] = new
                        return True
    return False


def _unlift_closure(tree, relpath, q, node, r, new_helpers):
    """`def F(c): def w(x): BODY; return w`  written as  `def g(c, x): BODY` + `def F(c): return partial(g, c)`:
    rebuilds the nested form from the lifted one and answers the reference text when the two agree (alpha digest)."""
    ref = reference()
    nested_ref = [k for k in ref if k.startswith(f"{relpath}::{q}.") and k.count(".") == f"{relpath}::{q}".count(".") + 1]
    if len(nested_ref) != 1 or any(isinstance(x, _FUNCS) for b in node.body for x in ast.walk(b)):
        return None
    wname = nested_ref[0].rsplit(".", 1)[1]
    body = [s_ for s_ in node.body if not (isinstance(s_, ast.Expr) and isinstance(s_.value, ast.Constant))]
    if not body or not isinstance(body[-1], ast.Return):
        return None
    call = body[-1].value
    if not (isinstance(call, ast.Call) and isinstance(call.func, ast.Name) and call.func.id == "partial" and call.args and isinstance(call.args[0], ast.Name)
            and not call.keywords and all(isinstance(a, ast.Name) for a in call.args[1:])):
        return None
    gname = call.args[0].id
    g = dict((hq, hn) for hq, hn in new_helpers if "." not in hq).get(gname)
    if g is None:
        return None
    caps = [a.id for a in call.args[1:]]
    gp = g.args.args
    if len(gp) < len(caps) or g.args.posonlyargs or g.decorator_list:
        return None
    import copy as _copy
    w = _copy.deepcopy(g)
    w.name = wname
    lifted = [a.arg for a in gp[:len(caps)]]
    w.args.args = w.args.args[len(caps):]
    if len(w.args.defaults) > len(w.args.args):
        return None
    inner_bound = _params(w) | set(locals_in_order(w))
    if set(lifted) & inner_bound:
        return None
    for n in ast.walk(w):
        if isinstance(n, ast.Name) and n.id in lifted:
            n.id = caps[lifted.index(n.id)]
    cand = _copy.deepcopy(node)
    cb = [s_ for s_ in cand.body]
    cb[-1:] = [w, ast.Return(value=ast.Name(id=wname, ctx=ast.Load()))]
    cand.body = cb
    drop_local_annotations(ast.Module(body=[cand], type_ignores=[]))
    try:
        from .normal import normal_form as nf

        if digest(nf(cand, signatures())) != _ref_nf(f"{relpath}::{q}", r):
            return None
    except Exception:
        return None
    return gname


def restore_refactored(tree: ast.Module, relpath: str) -> List[str]:
    """A function whose normal form (sa/normal.py) equals the reference function's is replaced, in the model, by the
    reference text: the two are the same function in different dress."""
    from .normal import normal_form as nf

    ref = reference()
    done = []
    funcs = functions(tree)
    known = {q for q, _ in funcs if f"{relpath}::{q}" in ref}
    new_helpers = [(q, n) for q, n in funcs if f"{relpath}::{q}" not in ref]
    used_helpers = set()
    for q, node in sorted(funcs, key=lambda x: -x[0].count(".")):
        key = f"{relpath}::{q}"
        r = ref.get(key)
        if r is None or "src" not in r or digest(node) == r["digest"]:
            continue
        cls = q.rsplit(".", 1)[0] if "." in q else None
        helpers = {}
        for hq, hn in new_helpers:
            if "." not in hq:
                helpers[hq] = hn
            elif cls is not None and hq.rsplit(".", 1)[0] == cls:
                hn._is_method = True
                helpers[hq.rsplit(".", 1)[1]] = hn
        nested_new = {s_.name: s_ for s_ in node.body if isinstance(s_, _FUNCS) and f"{relpath}::{q}.{s_.name}" not in ref}
        helpers.update(nested_new)  # a local function introduced by the edit: its calls are replaced by its body
        local_defs = _module_level_defs(tree)
        todo = [(n, 0) for n in _called_names(node)] + [(n, 1) for h in list(helpers.values()) for n in _called_names(h)]
        while todo:
            name, depth = todo.pop()
            if name in helpers or name == q.rsplit(".", 1)[-1]:
                continue
            d = local_defs.get(name) or current_def(name)
            if d is not None and d is not node and _small(d):
                helpers[name] = d
                if depth < 2:
                    todo += [(n, depth + 1) for n in _called_names(d)]
        if sum(1 for x in ast.walk(node) if isinstance(x, ast.stmt)) > 250:
            continue  # far beyond any function of the package: not worth normalising
        lifted = _unlift_closure(tree, relpath, q, node, r, new_helpers)
        if lifted is not None:
            new = ast.parse(r["src"]).body[0]
            for n in ast.walk(new):
                n.lineno = getattr(node, "lineno", 1)
                n.end_lineno = n.lineno
                n.col_offset = n.end_col_offset = 0
            if _replace_def(tree, node, new):
                done.append(f"{key}: a closure lifted to `{lifted}` + functools.partial - analysed in the reference's nested shape")
                used_helpers.add(lifted)
            continue
        try:
            ref_d = _ref_nf(key, r)
            _set_creation("cur")
            cur = digest(nf(node, signatures(), helpers=helpers, in_class=cls is not None))
            if cur != ref_d:
                continue
        except Exception:  # the normal form is an optimisation of recognisability: on any trouble the function is analysed as it stands
            continue
        new = ast.parse(r["src"]).body[0]
        ast.copy_location(new, node)
        for n in ast.walk(new):
            if not hasattr(n, "lineno") or True:
                n.lineno = getattr(node, "lineno", 1)
                n.col_offset = 0
                n.end_lineno = getattr(node, "end_lineno", n.lineno)
                n.end_col_offset = 0
        if _replace_def(tree, node, new):
            done.append(f"{key}: same normal form as the reference function - analysed in the reference's shape")
            have = _module_level_defs(tree)
            for name in _called_names(new):
                rk = f"{relpath}::{name}"
                if name not in have and rk in ref and "src" in ref[rk]:
                    d = ast.parse(ref[rk]["src"]).body[0]
                    for n in ast.walk(d):
                        n.lineno = getattr(node, "lineno", 1)
                        n.end_lineno = n.lineno
                        n.col_offset = n.end_col_offset = 0
                    tree.body.append(d)
                    done.append(f"{rk}: the reference helper the restored function calls is part of the analysed program again")
            used_helpers |= {h for h in helpers if any((isinstance(x, ast.Name) and x.id == h) or (isinstance(x, ast.Attribute) and x.attr == h) for x in ast.walk(node))}
    # helpers that only served restored functions are no longer part of the analysed program
    for hq, hn in new_helpers:
        name = hq.rsplit(".", 1)[-1]
        if name in used_helpers:
            still = any(((isinstance(x, ast.Name) and x.id == name) or (isinstance(x, ast.Attribute) and x.attr == name)) for x in ast.walk(tree) if x is not hn)
            inside = {id(x) for x in ast.walk(hn)}
            still = any(((isinstance(x, ast.Name) and x.id == name) or (isinstance(x, ast.Attribute) and x.attr == name)) and id(x) not in inside for x in ast.walk(tree))
            if not still:
                _replace_def(tree, hn, ast.Pass())
                done.append(f"{relpath}::{hq}: helper inlined into its only callers")
    return done


def apply(tree: ast.Module, relpath: str) -> List[str]:
    """Renames locals of alpha-equivalent functions back to the reference names.  Returns what was renamed."""
    ref = reference()
    done = []
    drop_local_annotations(tree)
    k = inline_return_temps(tree)
    if k:
        done.append(f"{relpath}: {k} single-use temporaries inlined into their `return`")
    if not ref:
        return done
    # innermost first, so that an outer function's digest is computed on already restored inner names (the digest
    # abstracts them anyway) and the free uses inside inner functions follow the outer renaming
    for q, node in sorted(functions(tree), key=lambda x: -x[0].count(".")):
        r = ref.get(f"{relpath}::{q}")
        if r is None:
            continue
        if r.get("sym") and orient_compares(node, r["sym"]):
            done.append(f"{relpath}::{q}: operands of a symmetric comparison put back in the reference order")
        cur = locals_in_order(node)
        if cur == r["locals"] or len(cur) != len(r["locals"]):
            continue
        if digest(node) != r["digest"]:
            continue
        tmp = {c: f"__alpha_tmp_{i}" for i, c in enumerate(cur)}
        _rename(node, tmp)
        _rename(node, {f"__alpha_tmp_{i}": name for i, name in enumerate(r["locals"])})
        done.append(f"{relpath}::{q}: " + ", ".join(f"{c}->{n}" for c, n in zip(cur, r["locals"]) if c != n))
    done += restore_refactored(tree, relpath)
    return done
