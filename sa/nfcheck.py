#!/usr/bin/env python3
"""Soundness harness of the normal form: applies the mutation operators of sa/sweep.py (negated tests, deleted
statements, flipped comparisons, swapped arguments, dropped awaits, flipped constants) to EVERY function of the package and
lists the mutants whose normal form equals the reference function's - i.e. the behaviour-changing edits the normal form
would make invisible.  Every line of its output must be explained as a truly equivalent mutant (a dropped `pass`, a tail
`continue`, ...) or fixed."""
import ast, copy
from concurrent.futures import ProcessPoolExecutor
from . import alpha
from .normal import normal_form
from .sweep import _sites, _apply

# mutants that really are the same program (confirmed by reading), one line of reason each
EQUIVALENT = {
    "tartiflette/language/parsers/lark/transformers/converters.py::_extract_node_info DEL delete `continue`":
        "the `continue` is the last statement of its loop iteration",
}


def work(item):
    key, src = item
    rel, q = key.split("::", 1)
    ref = alpha.reference()
    out = []
    try:
        want = alpha._ref_nf(key, ref[key])
    except Exception as e:
        return [f"{key}: reference NF failed {e}"]
    base = ast.parse(src).body[0]
    n = 0
    for op, idx in _sites(base):
        node = copy.deepcopy(base)
        try:
            d = _apply(node, op, idx)
            if d is None:
                continue
            ast.fix_missing_locations(node)
            node = ast.parse(ast.unparse(node)).body[0]
            helpers = {}
            for name in alpha._called_names(node):
                h = alpha.reference_def(name, rel)
                if h is not None and alpha._small(h) and name != q.rsplit(".", 1)[-1]:
                    helpers[name] = h
            got = alpha.digest(normal_form(node, alpha.signatures(), helpers=helpers, in_class="." in q))
        except Exception as e:
            continue
        n += 1
        if got == want:
            out.append(f"{key} {op} {d}")
    # wrapper mutants: the whole body moved into a *decorated* helper (a cache, a wrapper) - the function is then not its
    # body any more, and the normal form must not see through the decorator
    if "." not in q and not isinstance(base, ast.AsyncFunctionDef) and not any(isinstance(x, (ast.Yield, ast.YieldFrom)) for x in ast.walk(base)) \
            and not base.args.vararg and not base.args.kwarg and not base.args.kwonlyargs and len(base.body) <= 12:
        try:
            helper = copy.deepcopy(base)
            helper.name = "_nf_moved_body"
            helper.decorator_list = [ast.Call(func=ast.Name(id="lru_cache", ctx=ast.Load()), args=[], keywords=[])]
            outer = copy.deepcopy(base)
            outer.decorator_list = []
            outer.body = [ast.Return(value=ast.Call(func=ast.Name(id="_nf_moved_body", ctx=ast.Load()), args=[ast.Name(id=a.arg, ctx=ast.Load()) for a in base.args.args], keywords=[]))]
            ast.fix_missing_locations(outer)
            ast.fix_missing_locations(helper)
            outer = ast.parse(ast.unparse(outer)).body[0]
            helper = ast.parse(ast.unparse(helper)).body[0]
            got = alpha.digest(normal_form(outer, alpha.signatures(), helpers={"_nf_moved_body": helper}, in_class=False))
            n += 1
            if got == want:
                out.append(f"{key} WRAP body moved into an lru_cache-decorated helper")
        except Exception:
            pass
    return out + [f"#count {n}"]


def run(jobs: int = 16) -> dict:
    ref = alpha.reference()
    items = [(k, r["src"]) for k, r in sorted(ref.items()) if "src" in r]
    total = 0
    hits = []
    with ProcessPoolExecutor(jobs) as ex:
        for res in ex.map(work, items, chunksize=8):
            for l in res:
                if l.startswith("#count"):
                    total += int(l.split()[1])
                else:
                    hits.append(l)
    unexplained = [h for h in hits if h not in EQUIVALENT]
    return {"functions": len(items), "mutants": total, "same_normal_form": len(hits), "explained_equivalent": {h: EQUIVALENT[h] for h in hits if h in EQUIVALENT},
            "unexplained": unexplained}


if __name__ == "__main__":
    r = run()
    for h in r["unexplained"]:
        print("UNEXPLAINED", h)
    print(f"{r['mutants']} mutants of {r['functions']} functions; {r['same_normal_form']} have the reference's normal form, {len(r['unexplained'])} unexplained")
