"""Functions each property is anchored in (targets of the mutation sweep)."""
T = "tartiflette/"
EX = T + "execution/"
CO = T + "coercers/"
OUT = CO + "outputs/"
INP = CO + "inputs/"
LIT = CO + "literals/"
SB = T + "scalar/builtins/"
VQ = T + "language/validators/query/"
TR = T + "language/parsers/libgraphqlparser/transformers.py"
SCH = T + "schema/schema.py"

ANCHORS = {
    "C01": [(EX + "collect.py", f) for f in ("should_include_node", "get_field_entry_key", "does_fragment_condition_match", "collect_fields", "collect_subfields")] +
           [(EX + "execute.py", f) for f in ("resolve_field", "execute_fields_serially", "execute_fields")] +
           [(T + "resolver/factory.py", f) for f in ("resolve_field_value_or_error", "resolve_field")] +
           [(T + "resolver/default.py", f) for f in ("default_field_resolver", "default_type_resolver")] +
           [(OUT + "compute.py", "get_output_coercer"), (OUT + "abstract_coercer.py", "abstract_coercer"), (OUT + "common.py", "complete_object_value"),
            (OUT + "object_coercer.py", "object_coercer"), (T + "types/type.py", "GraphQLAbstractType.get_type_resolver"),
            (T + "directive/builtins/skip.py", "skip_selection"), (T + "directive/builtins/include.py", "include_selection")],
    "C02": [(OUT + "common.py", "handle_field_error"), (OUT + "common.py", "complete_value_catching_error"), (OUT + "non_null_coercer.py", "non_null_coercer"),
            (OUT + "null_coercer.py", "null_coercer_wrapper"), (OUT + "list_coercer.py", "list_coercer_sequentially"), (OUT + "list_coercer.py", "list_coercer_concurrently"),
            (EX + "execute.py", "execute_fields"), (EX + "execute.py", "execute_operation"), (T + "utils/errors.py", "located_error"),
            (T + "utils/errors.py", "extract_exceptions_from_results"), (T + "utils/errors.py", "graphql_error_from_nodes"), (CO + "common.py", "Path.as_list"),
            (EX + "context.py", "ExecutionContext.add_error"), (T + "types/exceptions/tartiflette.py", "TartifletteError.coerce_value")],
    "C03": [(SB + f, c + ".coerce_output") for f, c in (("int.py", "ScalarInt"), ("float.py", "ScalarFloat"), ("string.py", "ScalarString"), ("boolean.py", "ScalarBoolean"), ("id.py", "ScalarID"))] +
           [(OUT + "scalar_coercer.py", "scalar_coercer"), (OUT + "enum_coercer.py", "enum_coercer"), (OUT + "abstract_coercer.py", "ensure_valid_runtime_type"),
            (T + "engine.py", "Engine.execute"), (EX + "collect.py", "parse_and_validate_query"), (T + "utils/values.py", "is_integer")],
    "C04": [(CO + "variables.py", "variable_coercer"), (CO + "variables.py", "coerce_variables"), (INP + "compute.py", "get_input_coercer"), (INP + "list_coercer.py", "list_coercer"),
            (INP + "non_null_coercer.py", "non_null_coercer"), (INP + "null_coercer.py", "null_coercer_wrapper"), (INP + "input_object_coercer.py", "input_field_value_coercer"),
            (INP + "input_object_coercer.py", "input_object_coercer"), (INP + "scalar_coercer.py", "scalar_coercer"), (INP + "enum_coercer.py", "enum_coercer"),
            (EX + "context.py", "build_execution_context"), (EX + "execute.py", "execute"), (EX + "nodes/variable_definition.py", "variable_definition_node_to_executable")],
    "C05": [(CO + "argument.py", "argument_coercer"), (CO + "arguments.py", "coerce_arguments"), (LIT + "compute.py", "get_literal_coercer"), (LIT + "list_coercer.py", "list_coercer"),
            (LIT + "list_coercer.py", "list_item_coercer"), (LIT + "non_null_coercer.py", "non_null_coercer"), (LIT + "null_and_variable_coercer.py", "null_and_variable_coercer_wrapper"),
            (LIT + "input_object_coercer.py", "input_field_value_coercer"), (LIT + "input_object_coercer.py", "input_object_coercer"), (LIT + "scalar_coercer.py", "scalar_coercer"),
            (LIT + "enum_coercer.py", "enum_coercer"), (LIT + "directives_coercer.py", "literal_directives_coercer"), (LIT + "utils.py", "is_missing_variable"),
            (INP + "directives_coercer.py", "input_directives_coercer"), (TR, "_parse_argument")],
    "C06": [(VQ + "fragment_spreads_must_not_form_cycles.py", "FragmentSpreadsMustNotFormCycles._validate_selection_set"),
            (VQ + "fragment_spreads_must_not_form_cycles.py", "FragmentSpreadsMustNotFormCycles.validate"), (TR, "_parse_field"), (TR, "_parse_inline_fragment"),
            (TR, "_parse_fragment_definition"), (TR, "_parse_definitions"), (T + "language/validators/__init__.py", "Validators.validate"),
            (VQ + "leaf_field_selections.py", "LeafFieldSelections.validate"), (VQ + "field_selections_on_objects_interfaces_and_unions_types.py", "FieldSelectionsOnObjectsInterfacesAndUnionsTypes.validate"),
            (VQ + "all_variable_usages_are_allowed.py", "_validate_usage"), (VQ + "all_variable_usages_are_allowed.py", "_validate_type_compatibility"),
            (VQ + "lone_anonymous_operation.py", "LoneAnonymousOperation.validate"), (VQ + "argument_uniqueness.py", "ArgumentUniqueness.validate"),
            (VQ + "fragments_on_composite_types.py", "FragmentsOnCompositeTypes.validate"), (VQ + "variables_are_input_types.py", "VariablesAreInputTypes.validate"),
            (VQ + "required_arguments.py", "RequiredArguments._validate_arguments"), (VQ + "utils.py", "find_nodes_by_name")],
    "C07": [(TR, f) for f in ("_parse_directive", "_parse_directives", "_parse_field", "_parse_fragment_spread", "_parse_inline_fragment", "_parse_fragment_definition",
                              "_parse_variable_definition", "_parse_variable_definitions", "_parse_operation_definition", "_parse_arguments", "_parse_object_fields", "_parse_definitions",
                              "document_from_ast_json")] +
           [(VQ + "single_root_field.py", "SingleRootField.validate"), (VQ + "single_root_field.py", "SingleRootField._validate_selection_set"),
            (VQ + "fragment_must_be_used.py", "FragmentMustBeUsed.validate"), (VQ + "fragment_spread_target_defined.py", "FragmentSpreadTargetDefined.validate"),
            (VQ + "directives_are_in_valid_locations.py", "DirectivesAreInValidLocations.validate"), (VQ + "directives_are_defined.py", "DirectivesAreDefined.validate"),
            (EX + "collect.py", "parse_and_validate_query"), (T + "engine.py", "Engine._perform_query"), (T + "engine.py", "Engine._perform_subscription")],
    "C08": [(EX + "execute.py", "execute_fields"), (OUT + "list_coercer.py", "list_coercer_concurrently"), (OUT + "list_coercer.py", "list_coercer_sequentially"),
            (T + "resolver/default.py", "gather_arguments_coercer"), (T + "resolver/default.py", "sync_arguments_coercer"), (CO + "arguments.py", "coerce_arguments"),
            (CO + "variables.py", "coerce_variables"), (INP + "input_object_coercer.py", "input_object_coercer"), (LIT + "input_object_coercer.py", "input_object_coercer"),
            (EX + "response.py", "build_response"), (T + "utils/directives.py", "introspection_directives_executor"), (T + "types/field.py", "GraphQLField.bake")],
    "C09": [(EX + "execute.py", "execute_operation"), (EX + "execute.py", "execute_fields_serially"), (EX + "execute.py", "resolve_field"),
            (SCH, "GraphQLSchema.get_operation_root_type")],
    "C10": [(SB + f, c + "." + d) for f, c in (("int.py", "ScalarInt"), ("float.py", "ScalarFloat"), ("string.py", "ScalarString"), ("boolean.py", "ScalarBoolean"), ("id.py", "ScalarID"))
            for d in ("coerce_output", "coerce_input", "parse_literal")] + [(T + "utils/values.py", "is_integer"), (SB + "date.py", "ScalarDate.parse_literal")],
    "C11": [(T + "schema/builtins/introspection.py", "resolve_type_fields"), (T + "schema/builtins/introspection.py", "resolve_type_enum_values"),
            (T + "schema/introspection.py", "__type_resolver"), (T + "schema/introspection.py", "__schema_resolver"), (T + "schema/registry.py", "SchemaRegistry.register_sdl"),
            (T + "utils/directives.py", "execute_introspection_directive"), (T + "utils/directives.py", "introspection_directives_executor"),
            (T + "schema/transformer.py", "schema_from_document"), (T + "schema/transformer.py", "parse_definition"), (T + "schema/transformer.py", "parse_object_type_definition"),
            (T + "types/object.py", "GraphQLObjectType.bake"), (T + "types/object.py", "GraphQLObjectType.bake_fields"), (T + "types/object.py", "GraphQLObjectTypeExtension.bake"),
            (T + "types/union.py", "GraphQLUnionType.bake"), (SCH, "GraphQLSchema._inject_introspection_fields"), (T + "directive/builtins/deprecated.py", "DeprecatedDirective.on_post_bake")],
    "C12": [(SCH, "GraphQLSchema." + m) for m in ("_validate", "_validate_extensions", "bake", "_validate_schema_named_types", "_validate_object_follow_interfaces",
                                                   "_validate_field_follow_interface", "_validate_schema_root_types_exist", "_validate_non_empty_object", "_validate_union_is_acceptable",
                                                   "_validate_all_scalars_have_implementations", "_validate_enum_values_are_unique", "_validate_type_is_an_input_types",
                                                   "_validate_directive_implementation", "_validate_union_extensions", "add_type_definition", "add_directive_definition")] +
           [(SCH, "_validated_field_args_are_same_as_interface_args"), (SCH, "_validate_extension"), (SCH, "_validate_extension_directives"), (SCH, "_value_uniqueness"),
            (T + "schema/bakery.py", "SchemaBakery.bake"), (T + "schema/bakery.py", "SchemaBakery._preheat")],
    "C13": [(T + "utils/directives.py", f) for f in ("wraps_with_directives", "directive_executor", "directive_generator", "resolver_executor")] +
           [(T + "types/helpers/get_directive_instances.py", "compute_directive_nodes"), (T + "types/helpers/get_directive_instances.py", "transform_directive"),
            (OUT + "directives_coercer.py", "output_directives_coercer"), (INP + "directives_coercer.py", "input_directives_coercer"), (LIT + "directives_coercer.py", "literal_directives_coercer"),
            (OUT + "abstract_coercer.py", "abstract_coercer"), (T + "resolver/factory.py", "resolve_field_value_or_error"), (T + "types/scalar.py", "GraphQLScalarType.bake"),
            (T + "types/enum.py", "GraphQLEnumValue.bake"), (T + "types/field.py", "GraphQLField.bake"), (T + "types/argument.py", "GraphQLArgument.bake")],
    "C14": [(T + "engine.py", "Engine._perform_subscription"), (T + "engine.py", "Engine.subscribe"), (EX + "execute.py", "create_source_event_stream"),
            (T + "utils/directives.py", "subscription_generator"), (T + "utils/directives.py", "directive_generator"), (T + "subscription/subscription.py", "Subscription.bake")],
    "C15": [(EX + "context.py", "build_execution_context"), (EX + "context.py", "ExecutionContext.__init__"), (EX + "context.py", "ExecutionContext.add_error"),
            (EX + "types.py", "build_resolve_info"), (EX + "collect.py", "collect_fields"), (T + "types/exceptions/tartiflette.py", "TartifletteError.coerce_value")],
    "C16": [(T + "engine.py", "Engine.execute"), (T + "engine.py", "Engine.subscribe"), (T + "engine.py", "Engine.__init__"), (EX + "collect.py", "parse_and_validate_query"),
            (SCH, "GraphQLSchema.__hash__"), (SCH, "GraphQLSchema.__eq__"), (T + "types/exceptions/tartiflette.py", "TartifletteError.coerce_value")],
    "C17": [(T + "schema/registry.py", "SchemaRegistry." + m) for m in ("_register", "register_sdl", "bake_registered_objects", "find_schema_info", "register_resolver")] +
           [(T + "resolver/resolver.py", "Resolver.bake"), (T + "resolver/resolver.py", "Resolver.__call__"), (T + "scalar/scalar.py", "Scalar.bake"), (T + "scalar/scalar.py", "Scalar.__call__"),
            (T + "directive/directive.py", "Directive.bake"), (T + "engine.py", "_bake_module"), (T + "engine.py", "_import_builtins"), (T + "schema/bakery.py", "SchemaBakery._preheat"),
            (SB + "int.py", "bake")],
    "C18": [(EX + "response.py", "build_response"), (T + "utils/errors.py", "error_coercer_factory"), (T + "utils/errors.py", "to_graphql_error"),
            (T + "utils/errors.py", "is_coercible_exception"), (EX + "context.py", "build_execution_context"), (T + "engine.py", "Engine.execute"),
            (T + "types/exceptions/tartiflette.py", "TartifletteError.coerce_value"), (T + "language/ast/location.py", "Location.collect_value")],
}
