"""Obligation bookkeeping, known findings, evidence and replay files."""
from __future__ import annotations

import contextlib
import hashlib
import json
import os
import sys
import time
import traceback
from typing import Any, Dict, List, Optional

from .model import AnalysisError, Func, Repo, unparse

VERIF = os.path.dirname(os.path.dirname(os.path.abspath(__file__)))
KNOWN_FILE = os.path.join(VERIF, "known_findings.json")
EVIDENCE_DIR = os.path.join(VERIF, "evidence")
OUT_DIR = os.path.join(VERIF, "out")

TRUSTED_BASE = [
    "CPython's ast module parses /repo's sources faithfully",
    "user code (resolvers, directive hooks, custom scalars, error coercers, cache decorators) is outside the analysed program",
    "libgraphqlparser (C, absent in this sandbox), cffi, lark and asyncio behave as documented",
    "name resolution assumptions printed by each rule (no monkey-patching of tartiflette attributes at run time)",
]


def load_known() -> List[dict]:
    if not os.path.exists(KNOWN_FILE):
        return []
    with open(KNOWN_FILE) as fh:
        return json.load(fh)


class Obligation:
    __slots__ = ("rule", "instance", "ok", "where", "construct", "detail", "line", "vacuous")

    def __init__(self, rule, instance, ok, where, construct, detail, line, vacuous=False):
        self.rule = rule
        self.instance = instance
        self.ok = ok
        self.where = where
        self.construct = construct
        self.detail = detail
        self.line = line
        self.vacuous = vacuous

    def key(self):
        return (self.rule, self.where or "", self.construct or self.instance)

    def as_dict(self):
        return {
            "rule": self.rule,
            "instance": self.instance,
            "ok": self.ok,
            "where": self.where,
            "line": self.line,
            "construct": self.construct,
            "detail": self.detail,
        }


class Check:
    def __init__(self, prop_id: str, tier: str, repo: Repo, explanation: str = "", quiet: bool = False):
        self.prop = prop_id
        self.tier = tier
        self.repo = repo
        self.explanation = explanation
        self.obligations: List[Obligation] = []
        self.errors: List[str] = []
        self.notes: List[str] = []
        self.counts: Dict[str, int] = {}
        self.evaluations = 0
        self.samples: List[Any] = []
        self.t0 = time.time()
        self.quiet = quiet
        self._rule = None
        self.exhaustive = True
        self.assumptions: List[str] = []
        self.selftest: Optional[dict] = None
        self.sweep: Optional[dict] = None
        self.benign: Optional[dict] = None
        self.nfcheck: Optional[dict] = None

    # -- recording ----------------------------------------------------------
    @contextlib.contextmanager
    def pinned(self, rule_id: str):
        """Runs another property's rule group under this property's rule id (nested rule() blocks keep it)."""
        prev_pin = getattr(self, "_pin", None)
        self._pin = rule_id
        try:
            with self.rule(rule_id):
                yield
        finally:
            self._pin = prev_pin

    @contextlib.contextmanager
    def rule(self, rule_id: str):
        prev = self._rule
        rule_id = getattr(self, "_pin", None) or rule_id
        self._rule = rule_id
        try:
            yield
        except AnalysisError as e:
            self.errors.append(f"{rule_id}: {e}")
        except Exception as e:  # checker bug: never a silent pass, never a violation
            tb = traceback.format_exc(limit=6)
            self.errors.append(f"{rule_id}: internal error {type(e).__name__}: {e}\n{tb}")
        finally:
            self._rule = prev

    def ob(self, instance: str, ok: bool, func: Optional[Func] = None, node=None, construct: str = None,
           detail: str = None, where: str = None, rule: str = None, evals: int = 1):
        """Record one obligation.  ``construct`` is the key text of the offending
        construct (defaults to the unparsed node)."""
        rule = rule or self._rule or "R?"
        if where is None and func is not None:
            where = func.short
        line = getattr(node, "lineno", None) if node is not None else (func.node.lineno if func is not None else None)
        if construct is None and node is not None and not isinstance(node, str):
            construct = unparse(node)
            if len(construct) > 200:
                construct = construct[:200] + "..."
        o = Obligation(f"{self.prop}.{rule}", instance, bool(ok), where, construct, detail, line)
        self.obligations.append(o)
        self.evaluations += evals
        return bool(ok)

    def count(self, name: str, n: int, minimum: int = None):
        self.counts[name] = n
        if minimum is not None and n < minimum:
            raise AnalysisError(f"instance count {name}={n} fell below the confirmed minimum {minimum}")

    def note(self, text: str):
        self.notes.append(text)

    def sample(self, s):
        if len(self.samples) < 12:
            self.samples.append(s)

    # -- finishing ------------------------------------------------------------
    def finish(self, write: bool = True) -> int:
        known = [k for k in load_known() if k.get("property") == self.prop]
        failing = [o for o in self.obligations if not o.ok]
        new, matched = [], []
        for o in failing:
            hit = None
            for k in known:
                if k.get("status") != "known":
                    continue
                if k.get("rule") == o.rule and k.get("function") == (o.where or "") and k.get("construct") == (o.construct or o.instance):
                    hit = k
                    break
            (matched if hit else new).append((o, hit))
        out = []
        replay_paths = []
        for o, k in matched:
            out.append(f"KNOWN-FINDING: property={self.prop} {o.rule} {o.where}: {k.get('what_fails', o.instance)}")
        for o, _ in new:
            path = self._write_replay(o) if write else "<not written>"
            replay_paths.append(path)
            out.append(f"VIOLATION property={self.prop} replay={path}")
            out.append(f"  rule={o.rule} at {o.where}:{o.line} instance={o.instance}")
            if o.construct:
                out.append(f"  construct: {o.construct}")
            if o.detail:
                out.append(f"  detail: {o.detail}")
        for e in self.errors:
            out.append(f"ANALYSIS-ERROR property={self.prop} {e}")
        code = 1 if new else (2 if self.errors else 0)
        wall = time.time() - self.t0
        distinct = len({o.key() for o in self.obligations})
        rules = sorted({o.rule for o in self.obligations})
        summary = (
            f"{self.prop} tier={self.tier}: {len(self.obligations)} obligations over rules "
            f"{','.join(r.split('.')[-1] for r in rules)}; discharged={len(self.obligations) - len(failing)} "
            f"known={len(matched)} new-violations={len(new)} analysis-errors={len(self.errors)} "
            f"counts={json.dumps(self.counts, sort_keys=True)} wall={wall:.2f}s"
        )
        if not self.quiet:
            for line in out:
                print(line)
            for n in self.notes:
                print(f"NOTE property={self.prop} {n}")
            print(summary)
        if write:
            self._write_evidence(wall, failing, matched, new, distinct)
        self.exit_code = code
        self.new_violations = [o for o, _ in new]
        self.known_hits = [o for o, _ in matched]
        return code

    def _write_replay(self, o: Obligation) -> str:
        d = os.path.join(OUT_DIR, "replay", self.prop)
        os.makedirs(d, exist_ok=True)
        h = hashlib.sha1("|".join(map(str, o.key())).encode()).hexdigest()[:12]
        path = os.path.join(d, f"{o.rule.split('.')[-1]}_{h}.json")
        with open(path, "w") as fh:
            json.dump({"property": self.prop, **o.as_dict(), "key": list(o.key())}, fh, indent=1)
        return path

    def _write_evidence(self, wall, failing, matched, new, distinct):
        os.makedirs(EVIDENCE_DIR, exist_ok=True)
        samples = list(self.samples)
        for o in self.obligations[:: max(1, len(self.obligations) // 8)][:8]:
            samples.append(o.as_dict())
        by_rule: Dict[str, Dict[str, int]] = {}
        for o in self.obligations:
            r = by_rule.setdefault(o.rule, {"obligations": 0, "discharged": 0})
            r["obligations"] += 1
            r["discharged"] += 1 if o.ok else 0
        ev = {
            "property_id": self.prop,
            "tier": self.tier,
            "seed": int(os.environ.get("VERIF_SEED", "0") or 0),
            "level": "other",
            "coverage": {
                "explanation": self.explanation,
                "obligations": len(self.obligations),
                "discharged": len(self.obligations) - len(failing),
                "known_findings_matched": len(matched),
                "checker_cmd": f"/venv/bin/python -m sa check {self.prop} --tier {self.tier}",
                "trusted_base": TRUSTED_BASE,
                "evaluations": max(1, self.evaluations),
                "distinct_nontrivial": distinct,
                "rule": "one evaluation = one rule instance decided on a construct of /repo's current source (table valuation, CFG query, table member, call site); distinct = distinct (rule, function, construct) keys; an instance is non-trivial when it inspected a located construct (instances whose anchor is missing abort with ANALYSIS-ERROR instead)",
                "samples": samples[:20],
                "exhaustive": bool(self.exhaustive and not self.errors),
                "per_rule": by_rule,
                "instance_counts": self.counts,
                "files_parsed": getattr(self.repo, "n_files", 0),
                "analysis_errors": self.errors,
                "notes": self.notes,
                "selftest": self.selftest,
                "mutation_sweep": self.sweep,
                "benign_sweep": self.benign,
                "normal_form_soundness": self.nfcheck,
            },
            "assumptions": TRUSTED_BASE + self.assumptions,
            "wall_s": round(wall, 3),
            "violations": len(new),
        }
        with open(os.path.join(EVIDENCE_DIR, f"{self.prop}.json"), "w") as fh:
            json.dump(ev, fh, indent=1, default=str)
