"""Shared analysis of the built-in scalar implementations (C03.R1/R2, C10)."""
from __future__ import annotations

import ast
from typing import Dict, List, Optional, Set, Tuple

from .model import AnalysisError, Func, Repo, const_eval, dotted, unparse, walk_no_nested
from .q import FuncView, contains, isinstance_test

BUILTINS = "tartiflette/scalar/builtins/"
SCALARS = {
    "Int": ("int.py", "ScalarInt", "int"),
    "Float": ("float.py", "ScalarFloat", "float"),
    "String": ("string.py", "ScalarString", "str"),
    "Boolean": ("boolean.py", "ScalarBoolean", "bool"),
    "ID": ("id.py", "ScalarID", "str"),
}
DATE_SCALARS = {"Date": ("date.py", "ScalarDate"), "Time": ("time.py", "ScalarTime"), "DateTime": ("datetime.py", "ScalarDateTime")}
DIRECTIONS = ("coerce_output", "coerce_input", "parse_literal")

# Python type of ``node.value`` per AST value class, for the two producers of
# value nodes: the libgraphqlparser JSON transformer (numbers arrive as the
# JSON strings printed by the C library) and the lark SDL token transformer
# (casts INT/FLOAT tokens with int()/float()).  Confirmed by reading
# language/parsers/libgraphqlparser/transformers.py and
# language/parsers/lark/transformers/token_transformer.py.
NODE_VALUE_TYPES = {
    "StringValueNode": {"str"},
    "BooleanValueNode": {"bool"},
    "EnumValueNode": {"str"},
    "IntValueNode": {"str", "int"},
    "FloatValueNode": {"str", "float"},
}
WIRE_CTORS = {"int", "float", "str", "bool"}
LITERAL_KINDS = {
    "Int": {"IntValueNode"},
    "Float": {"FloatValueNode", "IntValueNode"},
    "String": {"StringValueNode"},
    "Boolean": {"BooleanValueNode"},
    "ID": {"StringValueNode", "IntValueNode"},
    "Date": {"StringValueNode"},
    "Time": {"StringValueNode"},
    "DateTime": {"StringValueNode"},
}
MIN_INT, MAX_INT = -(2 ** 31), 2 ** 31 - 1


def scalar_method(repo: Repo, scalar: str, direction: str) -> Func:
    if scalar in SCALARS:
        rel, cls, _ = SCALARS[scalar]
    else:
        rel, cls = DATE_SCALARS[scalar]
    return repo.func(BUILTINS + rel, f"{cls}.{direction}")


def _isinstance_assumptions(test, positive: bool) -> Dict[str, List[str]]:
    """Names proven of some classes when ``test`` evaluates to ``positive``."""
    if isinstance(test, ast.UnaryOp) and isinstance(test.op, ast.Not):
        return _isinstance_assumptions(test.operand, not positive)
    out: Dict[str, List[str]] = {}
    if positive:
        it = isinstance_test(test)
        if it:
            out[it[0]] = it[1]
        if isinstance(test, ast.BoolOp) and isinstance(test.op, ast.And):
            for v in test.values:
                out.update(_isinstance_assumptions(v, True))
    return out


def expr_types(e, fv: FuncView, at, assume: Dict[str, List[str]] = None, depth: int = 0) -> Set[str]:
    """Syntactic type of an expression: a set of Python type names, or {'?'}."""
    assume = dict(assume or {})
    if depth > 6:
        return {"?"}
    if isinstance(e, ast.Constant):
        return {type(e.value).__name__}
    if isinstance(e, ast.JoinedStr):
        return {"str"}
    if isinstance(e, ast.Call) and isinstance(e.func, ast.Name) and e.func.id in WIRE_CTORS:
        return {e.func.id}
    if isinstance(e, ast.IfExp):
        a_true = dict(assume)
        a_true.update(_isinstance_assumptions(e.test, True))
        a_false = dict(assume)
        a_false.update(_isinstance_assumptions(e.test, False))
        return expr_types(e.body, fv, at, a_true, depth + 1) | expr_types(e.orelse, fv, at, a_false, depth + 1)
    # names proven by control conditions at the statement
    proven = dict(assume)
    for t, o in fv.conditions_ast(at):
        for k, v in _isinstance_assumptions(t, o == "T").items():
            proven.setdefault(k, v)
    if isinstance(e, ast.Name):
        if e.id == "UNDEFINED_VALUE":
            return {"UNDEFINED"}
        if e.id in proven:
            return set(proven[e.id])
        vals = [n.value for n in walk_no_nested(fv.node) if isinstance(n, ast.Assign) and any(isinstance(t, ast.Name) and t.id == e.id for t in n.targets)]
        if vals:
            out: Set[str] = set()
            for v in vals:
                if isinstance(v, ast.Name) and v.id == e.id:
                    continue
                out |= expr_types(v, fv, at, assume, depth + 1)
            return out or {"?"}
        return {"?"}
    if isinstance(e, ast.Attribute) and e.attr == "value" and isinstance(e.value, ast.Name) and e.value.id in proven:
        out = set()
        for cls in proven[e.value.id]:
            out |= NODE_VALUE_TYPES.get(cls, {"?"})
        return out
    return {"?"}


def _view(repo, f):
    """The scalar method with the helpers of its module inlined (a conversion or parsing helper is part of the method)."""
    from .q import inlined_view
    return inlined_view(repo, f)


def success_returns(fv: FuncView, direction: str) -> Tuple[List[ast.Return], List[ast.Return]]:
    """(success returns, failure returns).  A failure return is ``return
    UNDEFINED_VALUE`` (literal direction)."""
    succ, fail = [], []
    for r in fv.returns():
        if r.value is not None and unparse(r.value) == "UNDEFINED_VALUE":
            fail.append(r)
        else:
            succ.append(r)
    return succ, fail


def bounds_on(fv: FuncView, at, var_text: str, consts: Dict[str, object]) -> Tuple[Optional[int], Optional[int]]:
    """Inclusive integer bounds on ``var_text`` implied by the control conditions of ``at``."""
    lo, hi = None, None

    def val(x):
        try:
            return const_eval(x, consts)
        except (ValueError, TypeError):
            return None

    def rel(a, op, b, truth):
        nonlocal lo, hi
        # normalise to var OP const
        if unparse(b) == var_text and val(a) is not None:
            flip = {ast.Lt: ast.Gt, ast.LtE: ast.GtE, ast.Gt: ast.Lt, ast.GtE: ast.LtE}
            if type(op) not in flip:
                return
            a, op, b = b, flip[type(op)](), a
        if unparse(a) != var_text:
            return
        c = val(b)
        if not isinstance(c, int):
            return
        kind = type(op)
        if not truth:
            neg = {ast.Lt: ast.GtE, ast.LtE: ast.Gt, ast.Gt: ast.LtE, ast.GtE: ast.Lt}
            if kind not in neg:
                return
            kind = neg[kind]
        if kind is ast.GtE:
            lo = c if lo is None else max(lo, c)
        elif kind is ast.Gt:
            lo = c + 1 if lo is None else max(lo, c + 1)
        elif kind is ast.LtE:
            hi = c if hi is None else min(hi, c)
        elif kind is ast.Lt:
            hi = c - 1 if hi is None else min(hi, c - 1)

    for t, o in fv.conditions_ast(at):
        if not isinstance(t, ast.Compare):
            continue
        operands = [t.left] + list(t.comparators)
        if o == "T":
            for a, op, b in zip(operands, t.ops, operands[1:]):
                rel(a, op, b, True)
        elif len(t.ops) == 1:
            rel(operands[0], t.ops[0], operands[1], False)
    return lo, hi


def has_condition(fv: FuncView, at, text: str, outcome: str) -> bool:
    from .q import positive_form

    return any(positive_form(t, o) == (text, outcome) for t, o in fv.conditions_ast(at))


def returned_subject(r: ast.Return) -> str:
    """The name whose value is returned: ``return int(x)`` -> ``x``; ``return x`` -> ``x``;
    ``return x if isinstance(x, float) else float(x)`` -> ``x``."""
    e = r.value
    if isinstance(e, ast.IfExp):
        e = e.orelse if isinstance(e.orelse, ast.Call) else e.body
    while isinstance(e, ast.Call) and isinstance(e.func, ast.Name) and e.func.id in WIRE_CTORS and e.args:
        e = e.args[0]
    return unparse(e)


# ---------------------------------------------------------------------------
# obligations (used by C03 and C10)
# ---------------------------------------------------------------------------


def check_wire_types(ck, repo: Repo, directions=DIRECTIONS):
    """R1: every successful return is syntactically of the scalar's wire type."""
    n = 0
    for scalar, (rel, cls, wire) in SCALARS.items():
        for d in directions:
            f = scalar_method(repo, scalar, d)
            fv = _view(repo, f)
            succ, _ = success_returns(fv, d)
            if not succ:
                raise AnalysisError(f"{f.short}: no successful return found")
            allowed = {wire} | ({"UNDEFINED"} if d == "parse_literal" else set())
            for r in succ:
                ts = expr_types(r.value, fv, r)
                n += 1
                ck.ob(f"{scalar}.{d}: `return {unparse(r.value)[:60]}` yields a {wire}", ts <= allowed, f, r,
                      detail=f"syntactic types {sorted(ts)}; wire type {wire}")
    ck.count("scalar_success_returns", n, 5 * len(directions))


def check_guards(ck, repo: Repo, directions=DIRECTIONS):
    """R2: the guards the specification requires dominate every successful return."""
    # ---- Int
    imod = repo.mod(BUILTINS + "int.py")
    consts = imod.constants()
    ck.ob("Int bounds constants are -2**31 and 2**31-1", consts.get("_MIN_INT") == MIN_INT and consts.get("_MAX_INT") == MAX_INT,
          where=imod.relpath, construct="int:constants", detail=f"_MIN_INT={consts.get('_MIN_INT')} _MAX_INT={consts.get('_MAX_INT')}")
    for d in directions:
        f = scalar_method(repo, "Int", d)
        fv = _view(repo, f)
        succ, _ = success_returns(fv, d)
        for r in succ:
            subj = returned_subject(r)
            # the bool -> 0/1 shortcut needs no range
            if has_condition(fv, r, f"isinstance({subj}, bool)", "T"):
                ck.ob(f"Int.{d}: boolean shortcut returns int(bool)", unparse(r.value) == f"int({subj})", f, r, construct="int:bool-shortcut")
                continue
            lo, hi = bounds_on(fv, r, subj, consts)
            ck.ob(f"Int.{d}: successful return of `{subj}` is dominated by the inclusive 32-bit range test", (lo, hi) == (MIN_INT, MAX_INT), f, r,
                  construct=f"int:{d}:range", detail=f"bounds proven on {subj}: [{lo}, {hi}]")
            if d in ("coerce_output", "coerce_input"):
                ok = has_condition(fv, r, f"is_integer({subj})", "T")
                ck.ob(f"Int.{d}: successful return is dominated by the integrality test", ok, f, r, construct=f"int:{d}:integral")
            else:
                src = [n.value for n in walk_no_nested(f.node) if isinstance(n, ast.Assign) and unparse(n.targets[0]) == subj]
                ok = len(src) == 1 and isinstance(src[0], ast.Call) and dotted(src[0].func) == "int" and unparse(src[0].args[0]).endswith(".value")
                ck.ob("Int.parse_literal: the value is int() of the node's text (no truncation of fractional text)", ok, f, r, construct="int:literal:int()")
    # ---- is_integer
    isi = repo.func("tartiflette/utils/values.py", "is_integer")
    iv = FuncView(isi)
    p = isi.positional_params[0]
    for r in iv.returns():
        if isinstance(r.value, ast.Constant) and r.value.value is False:
            continue
        ok = has_condition(iv, r, f"isinstance({p}, bool)", "F")
        if not ok and isinstance(r.value, ast.BoolOp) and isinstance(r.value.op, ast.And):
            # the same guard as the first operand of a conjunction: `return not isinstance(v, bool) and (...)`
            ok = unparse(r.value.values[0]).replace(" ", "") == f"notisinstance({p},bool)"
        ck.ob("is_integer: bool is rejected before any numeric acceptance", ok, isi, r, construct="is_integer:bool-first")
        txt = unparse(r.value)
        ck.ob("is_integer: accepts ints, and finite floats equal to their floor",
              f"isinstance({p}, int)" in txt and f"isfinite({p})" in txt and f"floor({p}) == {p}" in txt, isi, r, construct="is_integer:predicate")
    # ---- Float
    for d in directions:
        f = scalar_method(repo, "Float", d)
        fv = _view(repo, f)
        succ, _ = success_returns(fv, d)
        for r in succ:
            subj = returned_subject(r)
            if d == "parse_literal":
                fin = [t for t, o in fv.conditions(r) if o == "T" and t.startswith("isfinite(")]
                ck.ob("Float.parse_literal: successful return is dominated by a finiteness test", bool(fin), f, r, construct="float:parse_literal:finite",
                      detail="a literal such as 1e999 would be delivered as inf")
                continue
            ok = has_condition(fv, r, f"isfinite({subj})", "T")
            ck.ob(f"Float.{d}: successful return is dominated by isfinite", ok, f, r, construct=f"float:{d}:finite")
            if d == "coerce_input":
                ck.ob("Float.coerce_input: bool is rejected", has_condition(fv, r, f"isinstance({subj}, bool)", "F"), f, r, construct="float:input:no-bool")
    # ---- output conversions that are decided by a guard
    if "coerce_output" in directions:
        f = scalar_method(repo, "Int", "coerce_output")
        fv = _view(repo, f)
        # (helpers inlined) i = int(x) where x = float(<the value>), and a raise under i != x
        floats = {unparse(n.targets[0]) for n in walk_no_nested(fv.node) if isinstance(n, ast.Assign) and isinstance(n.value, ast.Call) and dotted(n.value.func) == "float"}
        conv = [n for n in walk_no_nested(fv.node) if isinstance(n, ast.Assign) and isinstance(n.value, ast.Call) and dotted(n.value.func) == "int" and n.value.args
                and unparse(n.value.args[0]) in floats]
        rs = []
        if conv:
            i_, x_ = unparse(conv[0].targets[0]), unparse(conv[0].value.args[0])
            rs = [r for r in fv.raises() if fv.dominated_by(r, conv[0]) and (has_condition(fv, r, f"{i_} == {x_}", "F") or has_condition(fv, r, f"{x_} == {i_}", "F"))]
        ck.ob("Int.coerce_output: a numeric string is accepted only when its value is integral (int(x) must equal x: never truncated)", len(conv) == 1 and len(rs) == 1, f,
              conv[0] if conv else f.node, construct="int:output:string-integral")
        if conv:
            ok = has_condition(fv, conv[0], "isinstance(value, str)", "T")
            ck.ob("Int.coerce_output: the string conversion applies to strings only", ok, f, conv[0], construct="int:output:string-only")
        f = scalar_method(repo, "String", "coerce_output")
        fv = _view(repo, f)
        br = [r for r in fv.returns() if has_condition(fv, r, f"isinstance({f.positional_params[1]}, bool)", "T")]
        from .q import ifexp_parts
        v_ = f.positional_params[1]
        ok = len(br) == 1 and ifexp_parts(br[0].value) == (v_, "'true'", "'false'")
        if not ok and len(br) == 2:
            # the same choice as two guarded returns
            spelled = {unparse(r.value): ("T" if has_condition(fv, r, v_, "T") else "F" if has_condition(fv, r, v_, "F") else "?") for r in br}
            ok = spelled == {"'true'": "T", "'false'": "F"}
        ck.ob("String.coerce_output: booleans are spelled true / false (True -> \"true\")", ok, f, br[0] if br else f.node, construct="string:output:bool")
        sr = [r for r in fv.returns() if unparse(r.value) == f.positional_params[1]]
        ck.ob("String.coerce_output: a string is returned as is", len(sr) == 1 and has_condition(fv, sr[0], f"isinstance({f.positional_params[1]}, str)", "T"), f, sr[0] if sr else f.node,
              construct="string:output:str")
        f = scalar_method(repo, "Boolean", "coerce_output")
        fv = _view(repo, f)
        cr = [r for r in fv.returns() if unparse(r.value) == f"bool({f.positional_params[1]})"]
        ck.ob("Boolean.coerce_output: only finite numbers are converted with bool()", len(cr) == 1 and has_condition(fv, cr[0], f"isfinite({f.positional_params[1]})", "T"), f,
              cr[0] if cr else f.node, construct="boolean:output:finite")
    for d in [x for x in directions if x in ("coerce_output", "coerce_input")]:
        f = scalar_method(repo, "ID", d)
        fv = _view(repo, f)
        v = f.positional_params[1]
        cr = [r for r in fv.returns() if unparse(r.value) == f"str(int({v}))"]
        ck.ob(f"ID.{d}: only integers are spelled as decimal strings", len(cr) == 1 and has_condition(fv, cr[0], f"is_integer({v})", "T"), f, cr[0] if cr else f.node, construct=f"id:{d}:integer")
    # ---- String / Boolean input: exactly that type
    if "coerce_input" in directions:
        for scalar, t in (("String", "str"), ("Boolean", "bool")):
            f = scalar_method(repo, scalar, "coerce_input")
            fv = _view(repo, f)
            succ, _ = success_returns(fv, "coerce_input")
            for r in succ:
                subj = returned_subject(r)
                ck.ob(f"{scalar}.coerce_input accepts only {t}", has_condition(fv, r, f"isinstance({subj}, {t})", "T") and unparse(r.value) == subj, f, r,
                      construct=f"{scalar.lower()}:input:exact-type")
        f = scalar_method(repo, "ID", "coerce_input")
        fv = _view(repo, f)
        for r in success_returns(fv, "coerce_input")[0]:
            subj = returned_subject(r)
            ok = has_condition(fv, r, f"isinstance({subj}, str)", "T") or has_condition(fv, r, f"is_integer({subj})", "T")
            ck.ob("ID.coerce_input accepts only strings and integers", ok, f, r, construct="id:input:str-or-int")


def literal_kinds(repo: Repo, scalar: str) -> Set[str]:
    f = scalar_method(repo, scalar, "parse_literal")
    fv = _view(repo, f)
    p = f.positional_params[1]
    kinds: Set[str] = set()
    succ, _ = success_returns(fv, "parse_literal")
    for r in succ:
        found = False
        for t, o in fv.conditions_ast(r):
            for k, v in _isinstance_assumptions(t, o == "T").items():
                if k == p:
                    kinds |= set(v)
                    found = True
        e = r.value
        if isinstance(e, ast.IfExp):
            for k, v in _isinstance_assumptions(e.test, True).items():
                if k == p and unparse(e.orelse) == "UNDEFINED_VALUE":
                    kinds |= set(v)
                    found = True
            for k, v in _isinstance_assumptions(e.test, False).items():
                if k == p and unparse(e.body) == "UNDEFINED_VALUE":
                    kinds |= set(v)
                    found = True
        if not found:
            kinds.add("<any>")
    return kinds


def check_literal_kinds(ck, repo: Repo):
    for scalar, want in LITERAL_KINDS.items():
        f = scalar_method(repo, scalar, "parse_literal")
        got = literal_kinds(repo, scalar)
        ck.ob(f"{scalar}.parse_literal accepts exactly the literal kinds {sorted(want)}", got == want, f, f.node, construct=f"literal-kinds:{scalar}",
              detail=f"accepted node classes: {sorted(got)}")


def check_failure_exits(ck, repo: Repo, directions=DIRECTIONS):
    for scalar in list(SCALARS) + list(DATE_SCALARS):
        for d in directions:
            f = scalar_method(repo, scalar, d)
            fv = _view(repo, f)
            cfg = fv.cfg
            implicit = [(a, lab) for a, lab in cfg.pred[cfg.return_exit.id] if lab != "return"]
            ck.ob(f"{scalar}.{d}: no path falls off the end (silent None)", not implicit, f, f.node, construct=f"exits:{scalar}.{d}:no-fallthrough")
            escaping = [cfg.nodes[a] for a, lab in cfg.pred[cfg.raise_exit.id]]
            if d == "parse_literal":
                ok = not escaping
                ck.ob(f"{scalar}.parse_literal: failure is the invalid value, never an exception", ok, f, f.node, construct=f"exits:{scalar}.{d}:no-raise",
                      detail=str([n.text()[:50] for n in escaping]))
                rets = fv.returns()
                none_ret = [r for r in rets if r.value is None or (isinstance(r.value, ast.Constant) and r.value.value is None)]
                ck.ob(f"{scalar}.parse_literal: never returns None for a rejected literal", not none_ret, f, f.node, construct=f"exits:{scalar}.{d}:no-none")
            else:
                bad = [n for n in escaping if not (n.kind == "stmt" and isinstance(n.ast, ast.Raise) and n.ast.exc is not None
                                                   and unparse(n.ast.exc).startswith("TypeError("))]
                ck.ob(f"{scalar}.{d}: every failure is a raised TypeError", not bad and bool(escaping), f, f.node, construct=f"exits:{scalar}.{d}:typeerror",
                      detail=str([n.text()[:50] for n in bad]))
