"""E8 - self-test: source-level variants analysed in memory.

Each variant is a (file, find, replace) edit applied to the text of one module of
/repo *in memory* (nothing is written to disk) and the property's rules are run
on the resulting program model.

* ``break`` variants re-create a realistic defect; the named rule must report it.
* ``benign`` variants are behaviour-preserving rewrites; every rule must stay
  silent (no violation, no analysis error).

A variant whose ``find`` text is no longer present in the current tree is
reported as *stale* and skipped (the repository moved on; that is not a verdict
about the repository).  A variant that applies but is not judged as expected is
a self-test failure: ANALYSIS-ERROR, exit 2.
"""
from __future__ import annotations

import ast
import importlib
import os
import sys
import time
from concurrent.futures import ProcessPoolExecutor
from typing import Dict, List, Optional, Tuple

from .model import AnalysisError, Repo


SEEDED_DIR = os.path.join(os.path.dirname(os.path.dirname(os.path.abspath(__file__))), "seeded")


def load_variants(prop: str) -> List[dict]:
    try:
        mod = importlib.import_module(f"sa.mutants.{prop.lower()}")
        out = list(getattr(mod, "VARIANTS", []))
    except ModuleNotFoundError:
        out = []
    # the seeded changes written by independent sub-agents are replayed as breaking variants
    if os.path.isdir(SEEDED_DIR):
        import json

        for d in sorted(os.listdir(SEEDED_DIR)):
            meta = os.path.join(SEEDED_DIR, d, "meta.json")
            patch = os.path.join(SEEDED_DIR, d, "patch.diff")
            if os.path.exists(meta) and os.path.exists(patch) and json.load(open(meta)).get("breaks_property") == prop:
                out.append({"id": f"seeded:{d}", "kind": "break", "rule": "*", "patch": patch})
    # behaviour-preserving refactorings written by independent sub-agents are replayed as benign variants: no rule may fire
    bdir = os.path.join(os.path.dirname(SEEDED_DIR), "benign")
    if os.path.isdir(bdir):
        import json

        for d in sorted(os.listdir(bdir)):
            meta = os.path.join(bdir, d, "meta.json")
            patch = os.path.join(bdir, d, "patch.diff")
            if os.path.exists(meta) and os.path.exists(patch) and json.load(open(meta)).get("written_for_property") == prop:
                out.append({"id": f"refactoring:{d}", "kind": "benign", "rule": None, "patch": patch})
    return out


def apply_variant(repo_root: str, v: dict) -> Optional[Dict[str, str]]:
    """Returns the override map, or None when the variant is stale."""
    if v.get("patch"):
        from .patch import apply_unified_diff

        with open(v["patch"], encoding="utf-8") as fh:
            ov = apply_unified_diff(repo_root, fh.read())
        if ov is None:
            return None
        for rel, src in ov.items():
            if rel.endswith(".py"):
                try:
                    ast.parse(src)
                except SyntaxError as ex:
                    raise AnalysisError(f"variant {v['id']} does not parse: {ex}")
        return ov
    overrides: Dict[str, str] = {}
    edits = v.get("edits") or [{"file": v["file"], "find": v["find"], "replace": v["replace"], "count": v.get("count", 1)}]
    for e in edits:
        rel = e["file"]
        path = os.path.join(repo_root, rel)
        if not os.path.exists(path):
            return None
        src = overrides.get(rel)
        if src is None:
            with open(path, encoding="utf-8") as fh:
                src = fh.read()
        n = src.count(e["find"])
        if n != e.get("count", 1):
            return None
        new = src.replace(e["find"], e["replace"])
        if rel.endswith(".py"):
            try:
                ast.parse(new)
            except SyntaxError as ex:
                raise AnalysisError(f"variant {v['id']} does not parse: {ex}")
        overrides[rel] = new
    return overrides


def _failing_keys(ck) -> set:
    return {o.key() for o in ck.obligations if not o.ok}


def _run_variant(args) -> dict:
    prop, v, root, base_fail = args
    from . import q
    from .__main__ import run_check

    q._cfg_cache.clear()
    res = {"id": v["id"], "kind": v["kind"], "expect": v.get("rule"), "status": None, "fired": [], "errors": []}
    try:
        ov = apply_variant(root, v)
    except AnalysisError as e:
        res["status"] = "bad-variant"
        res["errors"] = [str(e)]
        return res
    if ov is None:
        res["status"] = "stale"
        return res
    want = v.get("rule") if isinstance(v.get("rule"), (list, tuple)) else [v.get("rule")]
    try:
        repo = Repo(root, overrides=ov)
        # breaking variants are first run without the (slow) shared rule RS; it is added when the cheap run stays silent
        # or when RS is the rule the variant expects.  Benign variants always get the full check.
        cheap = v["kind"] == "break" and "RS" not in want
        ck = run_check(prop, "quick", repo=repo, write=False, quiet=True, hygiene=not cheap)
        if cheap:
            fired = {o.rule.split(".")[-1] for o in ck.obligations if not o.ok and o.key() not in base_fail}
            if not (any(w in fired for w in want) or ("*" in want and fired)):
                q._cfg_cache.clear()
                ck = run_check(prop, "quick", repo=repo, write=False, quiet=True, hygiene=True)
    except AnalysisError as e:
        res["errors"] = [str(e)]
        ck = None
    if ck is not None:
        new = [o for o in ck.obligations if not o.ok and o.key() not in base_fail]
        res["fired"] = sorted({o.rule.split(".")[-1] for o in new})
        res["fired_detail"] = [f"{o.rule} {o.where}: {o.instance}" for o in new][:6]
        res["errors"] = list(ck.errors)
    if v["kind"] == "break":
        want = v["rule"] if isinstance(v["rule"], (list, tuple)) else [v["rule"]]
        if any(w in res["fired"] for w in want) or ("*" in want and res["fired"]):
            res["status"] = "detected"
        elif res["errors"]:
            res["status"] = "analysis-error-instead-of-violation"
        else:
            res["status"] = "MISSED"
    else:
        if res["fired"]:
            res["status"] = "FALSE-ALARM"
        elif res["errors"]:
            res["status"] = "ANALYSIS-ERROR-ON-BENIGN"
        else:
            res["status"] = "silent"
    return res


def run(prop: str, root: str = None, base_fail: set = None, jobs: int = None) -> List[dict]:
    from .model import REPO_ROOT

    root = root or REPO_ROOT
    variants = load_variants(prop)
    if not variants:
        return []
    if base_fail is None:
        from .__main__ import run_check

        base = run_check(prop, "quick", write=False, quiet=True)
        base_fail = _failing_keys(base)
    work = [(prop, v, root, base_fail) for v in variants]
    jobs = jobs or min(16, len(work))
    if jobs <= 1:
        return [_run_variant(w) for w in work]
    with ProcessPoolExecutor(max_workers=jobs) as ex:
        return list(ex.map(_run_variant, work))


GOOD = {"detected", "silent", "stale"}


def run_for_check(ck):
    t0 = time.time()
    results = run(ck.prop, ck.repo.root, _failing_keys(ck))
    bad = [r for r in results if r["status"] not in GOOD]
    ck.selftest = {
        "variants": len(results),
        "breaking_detected": sum(1 for r in results if r["status"] == "detected"),
        "benign_silent": sum(1 for r in results if r["status"] == "silent"),
        "stale": [r["id"] for r in results if r["status"] == "stale"],
        "failed": [{k: r[k] for k in ("id", "status", "fired", "errors")} for r in bad],
        "wall_s": round(time.time() - t0, 2),
        "results": [{"id": r["id"], "kind": r["kind"], "status": r["status"], "fired": r["fired"]} for r in results],
    }
    ck.evaluations += len(results)
    ck.counts["selftest_variants"] = len(results)
    for r in bad:
        ck.errors.append(f"selftest variant {r['id']} ({r['kind']}, expects {r['expect']}): {r['status']} fired={r['fired']} errors={r['errors'][:1]}")


def main(props, verbose=False) -> int:
    worst = 0
    for p in props:
        t0 = time.time()
        results = run(p)
        bad = [r for r in results if r["status"] not in GOOD]
        print(f"{p}: {len(results)} variants, detected={sum(r['status']=='detected' for r in results)} "
              f"silent={sum(r['status']=='silent' for r in results)} stale={sum(r['status']=='stale' for r in results)} "
              f"failed={len(bad)} ({time.time()-t0:.1f}s)")
        for r in results:
            if verbose or r["status"] not in GOOD:
                print(f"   {r['id']:<50} {r['kind']:<7} expect={r['expect']} -> {r['status']} fired={r['fired']}")
                if r["status"] not in GOOD or verbose:
                    for d in r.get("fired_detail", [])[:4]:
                        print(f"        {d}")
                    for e in r["errors"][:2]:
                        print(f"        ERR {e[:300]}")
        if bad:
            worst = 2
    return worst
