"""Outcome table of `parse_and_validate_query`, computed on paths (shape-independent), shared by C02.R8, C03.R6, C07.R4/R5,
C16 and C18.R3.

Every path of the function is enumerated (exceptional edges of the statement that calls the parser are followed into the
handlers); locals are resolved to the expressions they hold on that path, so `errors = [e]; ...; return None, errors` and
`return None, [e]` are the same outcome.  Classes of paths and what they must answer:

  parser raised a library error        -> (None, [that error])
  parser raised anything else          -> (None, [to_graphql_error(it, ...)])  or the same thing spelled out:
                                          the error itself when coercible, else a TartifletteError wrapping it
  parsed, rules reported errors        -> (None, those errors)
  parsed, no error                     -> (document, None)
"""
from __future__ import annotations

import ast
from typing import List

from .model import unparse
from .pathtab import canon, eager_env
from .q import FuncView, callee_last, contains

FILE = "tartiflette/execution/collect.py"
CAUGHT = "CAUGHT"


def outcomes(repo):
    p = repo.func(FILE, "parse_and_validate_query")
    pv = FuncView(p)
    pc = pv.maybe_call("parse_to_document")
    pstmt = pv.stmt_of(pc) if pc is not None else None
    rows = []
    follow = lambda n, env: n.kind == "stmt" and pstmt is not None and n.ast is pstmt  # noqa: E731
    from .pathtab import inline

    def decide(n, env):
        # a test on a value the path itself has just built (a non-empty list literal, a constant) is decided
        v = inline(n.ast, env)
        if isinstance(v, (ast.List, ast.Tuple, ast.Set)):
            return bool(v.elts)
        if isinstance(v, ast.Dict):
            return bool(v.keys)
        if isinstance(v, ast.Constant):
            return bool(v.value)
        return None

    for tr in pv.cfg.simulate(decide, follow_exc=follow):
        hs = [n.ast for n in tr.nodes if n.kind == "handler"]
        conds = []
        nodes = tr.nodes
        sym = eager_env(tr, CAUGHT)
        rs = sym["__sub__"]
        # tests are resolved with the values at the time they were evaluated: re-walk the prefix
        for i, n in enumerate(nodes[:-1]):
            if n.kind == "test":
                lab = [l for m, l in pv.cfg.succ[n.id] if m == nodes[i + 1].id]
                pre = eager_env(type(tr)(pv.cfg, tr.path[:i + 1], {}, "prefix"), CAUGHT)
                conds.append((unparse(pre["__sub__"](n.ast)), lab[0] if lab else "?"))
        last = tr.last_stmt()
        rv = last.ast.value if last is not None and isinstance(last.ast, ast.Return) else None
        if tr.exit_kind == "raise_exit":
            rows.append({"handlers": hs, "conds": conds, "raises": True, "first": None, "second": None, "node": last.ast if last else p.node})
            continue
        first = second = None
        rr = rs(rv) if rv is not None else None
        if isinstance(rr, ast.Tuple) and len(rr.elts) == 2:
            first, second = unparse(rr.elts[0]), unparse(rr.elts[1])
        rows.append({"handlers": hs, "conds": conds, "raises": False, "first": first, "second": second, "node": last.ast if last else p.node})
    return p, pv, pc, rows


def _handler_kind(h) -> str:
    return unparse(h.type) if h.type is not None else "bare"


def _wraps_foreign(second: str, conds) -> bool:
    """[<caught>] when coercible, [TartifletteError(..., original_error=<caught>)] otherwise, or to_graphql_error(<caught>, ...)."""
    s = second.replace(" ", "")
    c = CAUGHT.replace(" ", "")
    if s.startswith(f"[to_graphql_error({c}") and s.endswith(")]"):
        return True
    if s.startswith(f"[{c}ifis_coercible_exception({c})elseTartifletteError(") and f"original_error={c}" in s:
        return True
    coerc = [o for t, o in conds if "is_coercible_exception" in t.replace(" ", "") or ("hasattr(" in t and "coerce_value" in t)]
    if s == f"[{c}]" and coerc and all(o == "T" for o in coerc):
        return True
    if s.startswith("[TartifletteError(") and f"original_error={c}" in s and coerc and coerc[0] == "F":
        return True
    return False


def check(ck, repo, tag: str = "parse"):
    p, pv, pc, rows = outcomes(repo)
    ck.ob("parse_and_validate_query: one parser call, inside a try", pc is not None and bool(pv.try_handlers_around(pc)), p, pc or p.node, construct=f"{tag}:parser-call")
    ck.ob("parse_and_validate_query: no path raises", not any(r["raises"] for r in rows), p, next((r["node"] for r in rows if r["raises"]), p.node),
          construct=f"{tag}:never-raises")
    exc_rows = [r for r in rows if r["handlers"]]
    kinds = sorted({_handler_kind(r["handlers"][0]) for r in exc_rows})
    ck.ob("parse_and_validate_query: a library error and any other exception of the parser are both caught", "Exception" in kinds or "bare" in kinds, p, p.node,
          construct=f"{tag}:catch-all", detail=str(kinds))
    for r in exc_rows:
        k = _handler_kind(r["handlers"][0])
        if r["first"] is None:
            ok = False
        elif k == "TartifletteError":
            ok = r["first"] == "None" and r["second"].replace(" ", "") == f"[{CAUGHT}]".replace(" ", "")
        else:
            ok = r["first"] == "None" and _wraps_foreign(r["second"], r["conds"])
        ck.ob(f"parse_and_validate_query: `except {k}` answers (None, [a coercible error made from what was caught])", ok, p, r["handlers"][0], construct=f"{tag}:handler:{k}",
              detail=f"answers ({r['first']}, {r['second']})")
    plain = [r for r in rows if not r["handlers"] and not r["raises"]]
    doc = canon(ast.parse("parse_to_document(query, schema)", mode="eval").body, {})
    for r in plain:
        ve = [o for t, o in r["conds"] if t.replace(" ", "").endswith(".validators.errors")]
        if r["first"] is None or not ve:
            ck.ob("parse_and_validate_query: every exit answers a pair decided by the rules' errors", False, p, r["node"], construct=f"{tag}:pair", detail=str(r["conds"]))
            continue
        if ve[-1] == "T":
            ok = r["first"] == "None" and r["second"].replace(" ", "").endswith(".validators.errors")
            ck.ob("parse_and_validate_query answers (None, the validation errors) whenever a rule reported an error", ok, p, r["node"], construct=f"{tag}:refuse:errors",
                  detail=f"answers ({r['first']}, {r['second']})")
        else:
            ok = r["second"] == "None" and r["first"].startswith("parse_to_document(")
            ck.ob("parse_and_validate_query hands out the parsed document only without errors", ok, p, r["node"], construct=f"{tag}:refuse:document",
                  detail=f"answers ({r['first']}, {r['second']})")
    ck.ob("parse_and_validate_query: both verdicts are reachable", any(r["second"] == "None" for r in plain) and any(r["first"] == "None" for r in plain), p, p.node,
          construct=f"{tag}:both-verdicts")
