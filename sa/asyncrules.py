"""Structured-concurrency analysis shared by C08, C09 and C14."""
from __future__ import annotations

import ast
from typing import Dict, List, Optional, Set, Tuple

from .model import AnalysisError, Class, Func, Repo, dotted, unparse, walk_no_nested
from .q import FuncView, arg_text, callee_last, contains

FORBIDDEN_ASYNCIO = {"create_task", "ensure_future", "as_completed", "wait", "wait_for", "shield", "run_coroutine_threadsafe", "get_event_loop", "new_event_loop",
                     "get_running_loop", "run", "Task", "Future", "Queue", "Event", "Lock", "Semaphore", "sleep", "TaskGroup", "to_thread"}
FORBIDDEN_MODULES = {"threading", "concurrent", "concurrent.futures", "multiprocessing", "_thread", "queue", "sched", "signal"}
# attribute slots known (by reading every ``bake``) to hold coroutine functions
ASYNC_SLOTS = {"resolver", "output_coercer", "input_coercer", "literal_coercer", "coercer", "on_post_bake", "introspection_directives",
               "pre_output_coercion_directives", "arguments_coercer", "_build_response", "_query_executor"}
# parameter names that hold coroutine functions wherever they occur in the package (confirmed by reading the call sites)
ASYNC_PARAMS = {"coercer", "inner_coercer", "directives", "resolver", "response_builder", "error_coercer", "directive_arguments_coercer", "input_coercer", "literal_coercer",
                "output_coercer", "next_directive"}


def asyncio_uses(repo: Repo) -> List[Tuple[Func, ast.AST, str]]:
    out = []
    for m in repo.modules.values():
        aliases = {k for k, v in m.imports.items() if v == "asyncio" or v.startswith("asyncio.")}
        for f in m.funcs.values():
            for n in walk_no_nested(f.node):
                if isinstance(n, ast.Attribute) and isinstance(n.value, ast.Name) and n.value.id in aliases and m.imports[n.value.id] == "asyncio":
                    out.append((f, n, n.attr))
                elif isinstance(n, ast.Name) and isinstance(n.ctx, ast.Load) and n.id in aliases and m.imports[n.id].startswith("asyncio."):
                    out.append((f, n, m.imports[n.id].split(".", 1)[1]))
    return out


def forbidden_imports(repo: Repo) -> List[Tuple[str, str]]:
    out = []
    for m in repo.modules.values():
        for k, v in m.imports.items():
            if v.split(".")[0] in FORBIDDEN_MODULES or v in FORBIDDEN_MODULES:
                out.append((m.relpath, v))
    return out


def is_coroutine_function(obj) -> bool:
    return isinstance(obj, Func) and obj.is_async and not obj.is_generator()


def coroutine_calls(repo: Repo, func: Func) -> List[Tuple[ast.Call, str]]:
    """Calls inside ``func`` that create a coroutine object: resolved callee is an
    ``async def``; or the callee is an attribute slot known to hold coroutine
    functions; or the same callable expression is awaited elsewhere in this function."""
    fv = FuncView(func)
    awaited_callees: Set[str] = set()
    for a in fv.awaits():
        v = a.value
        if isinstance(v, ast.Call):
            awaited_callees.add(unparse(v.func))
    out = []
    for c in fv.calls():
        tgt = repo.resolve_call(func, c)
        if is_coroutine_function(tgt):
            out.append((c, f"async def {tgt.qualname}"))
            continue
        if tgt is not None:
            continue
        if isinstance(c.func, ast.Attribute) and c.func.attr in ASYNC_SLOTS and not isinstance(fv.parent(c), ast.Await) and callee_last(c) != "get":
            out.append((c, f"slot .{c.func.attr}"))
            continue
        if unparse(c.func) in awaited_callees:
            out.append((c, f"`{unparse(c.func)}` is awaited elsewhere in this function"))
            continue
        if isinstance(c.func, ast.Name) and c.func.id in ASYNC_PARAMS and func.is_async:
            g = func
            is_param = False
            while g is not None:
                is_param = is_param or c.func.id in [p.lstrip("*") for p in g.params]
                g = g.parent
            if is_param:
                out.append((c, f"parameter `{c.func.id}` holds a coroutine function"))
    return out


def consumption(fv: FuncView, call: ast.Call) -> Tuple[bool, str]:
    """How the coroutine object created by ``call`` is consumed."""
    par = fv.parent(call)
    node = call
    while isinstance(par, (ast.IfExp, ast.BoolOp)) and not (isinstance(par, ast.IfExp) and par.test is node):
        node, par = par, fv.parent(par)
    if isinstance(par, ast.Await):
        return True, "awaited"
    if isinstance(par, ast.Return):
        if fv.func.is_async and not fv.func.is_generator():
            return False, "returned un-awaited from an `async def`: the awaiting caller receives a coroutine object, not the value"
        return True, "returned to the caller (who awaits it)"
    if isinstance(par, ast.Lambda):
        return True, "lambda body (evaluated and awaited by the caller)"
    # element of a comprehension / list that is starred into an awaited call
    comp = fv.in_comprehension(call)
    holder = comp if comp is not None else (par if isinstance(par, (ast.List, ast.Tuple)) else None)
    if holder is not None:
        up = fv.parent(holder)
        if isinstance(up, ast.Starred):
            outer = fv.parent(up)
            if isinstance(outer, ast.Call) and isinstance(fv.parent(outer), ast.Await):
                return True, f"gathered by awaited {unparse(outer.func)}(*...)"
        if isinstance(up, ast.Await):
            return True, "awaited comprehension"
    # positional argument of an awaited call (e.g. complete_value_catching_error(await ...)) is a value, not a coroutine: not our case
    if isinstance(par, ast.Assign) and len(par.targets) == 1 and isinstance(par.targets[0], ast.Name):
        name = par.targets[0].id
        uses = uses_of_def(fv, par, name)
        if not uses:
            return False, f"stored in `{name}` and never used"
        kinds = []
        for u in uses:
            up = fv.parent(u)
            if isinstance(up, ast.Await):
                kinds.append("await")
            elif isinstance(up, ast.Assign) and isinstance(up.targets[0], ast.Subscript) and up.value is u:
                cont = unparse(up.targets[0].value)
                if _container_gathered(fv, cont):
                    kinds.append("gathered")
                else:
                    return False, f"stored into `{cont}` which is never gathered"
            elif isinstance(up, ast.Call) and callee_last(up) == "append" and u in up.args:
                cont = unparse(up.func.value)
                if _container_gathered(fv, cont):
                    kinds.append("gathered")
                else:
                    return False, f"appended to `{cont}` which is never gathered"
            else:
                return False, f"`{name}` escapes through {type(up).__name__}"
        return True, "/".join(sorted(set(kinds)))
    return False, f"result flows into {type(par).__name__} without being awaited"


def uses_of_def(fv: FuncView, def_stmt, name: str) -> List[ast.Name]:
    """Loads of ``name`` reachable from the assignment ``def_stmt`` without crossing another binding of it."""
    cfg = fv.cfg
    start = cfg.node_of(def_stmt)
    rebinding = set()
    for n in cfg.nodes:
        if n.id == start.id or n.ast is None:
            continue
        if n.kind == "stmt" and isinstance(n.ast, (ast.Assign, ast.AnnAssign, ast.AugAssign)):
            tg = n.ast.targets if isinstance(n.ast, ast.Assign) else [n.ast.target]
            if any(isinstance(x, ast.Name) and x.id == name for t in tg for x in ast.walk(t) if isinstance(x.ctx if hasattr(x, "ctx") else None, ast.Store)):
                rebinding.add(n.id)
        elif n.kind == "for" and any(isinstance(x, ast.Name) and x.id == name for x in ast.walk(n.ast.target)):
            rebinding.add(n.id)
    reach = cfg.reachable(start=start.id, blocked=rebinding, skip_exc=False)
    out = []
    for nid in reach | rebinding:
        n = cfg.nodes[nid]
        if n.ast is None or nid == start.id:
            continue
        # a rebinding statement may still *read* the old value on its right-hand side
        roots = [n.ast]
        if n.kind == "for":
            roots = [n.ast.iter] if nid in reach or _pred_in(cfg, nid, reach) else []
        elif nid in rebinding:
            if not _pred_in(cfg, nid, reach | {start.id}):
                continue
            roots = [n.ast.value] if getattr(n.ast, "value", None) is not None else []
        elif n.kind in ("with",):
            roots = [i.context_expr for i in n.ast.items]
        elif n.kind == "handler":
            roots = []
        for r in roots:
            for x in ast.walk(r):
                if isinstance(x, (ast.FunctionDef, ast.AsyncFunctionDef, ast.Lambda)):
                    continue
                if isinstance(x, ast.Name) and x.id == name and isinstance(x.ctx, ast.Load):
                    shadowed = False
                    for a in fv.ancestors(x):
                        if isinstance(a, (ast.ListComp, ast.SetComp, ast.DictComp, ast.GeneratorExp)) and any(
                                isinstance(t, ast.Name) and t.id == name for g in a.generators for t in ast.walk(g.target)):
                            shadowed = True
                            break
                    if not shadowed:
                        out.append(x)
    return out


def _pred_in(cfg, nid, nodes) -> bool:
    return any(a in nodes for a, _ in cfg.pred[nid])


def _container_gathered(fv: FuncView, cont: str) -> bool:
    for c in fv.calls("gather"):
        if isinstance(fv.parent(c), ast.Await) and any(cont in unparse(a) for a in c.args if isinstance(a, ast.Starred)):
            return True
    return False


def check_structured_concurrency(ck, repo: Repo, packages: Tuple[str, ...]):
    uses = asyncio_uses(repo)
    ck.count("asyncio_uses", len(uses))
    for f, n, attr in uses:
        ck.ob(f"{f.qualname}: the only asyncio API used is gather (got asyncio.{attr})", attr == "gather", f, n, construct=f"asyncio:{attr}",
              detail="tasks, futures, as_completed, wait, shield, loop scheduling would let work outlive or reorder relative to its awaiter")
    imps = forbidden_imports(repo)
    ck.ob("no thread / executor / scheduling module is imported by the package", not imps, where="tartiflette/", construct="asyncio:imports", detail=str(imps))
    # positive control for the zero-count rules
    probe = ast.parse("import asyncio\nasync def f():\n    asyncio.create_task(g())").body[1]
    hit = any(isinstance(n, ast.Attribute) and n.attr in FORBIDDEN_ASYNCIO for n in ast.walk(probe))
    ck.ob("positive control: asyncio.create_task is recognised as forbidden", hit, where="sa/asyncrules.py", construct="asyncio:control")
    n_calls = 0
    for f in sorted(repo.all_funcs(), key=lambda f: f.short):
        if not f.module.relpath.startswith(packages):
            continue
        fv = None
        for c, why in coroutine_calls(repo, f):
            fv = fv or FuncView(f)
            n_calls += 1
            ok, how = consumption(fv, c)
            ck.ob(f"{f.qualname}: coroutine created by `{unparse(c.func)[:50]}(...)` ({why}) is awaited, gathered or returned", ok, f, c,
                  construct=f"consumed:{f.qualname}:{unparse(c.func)[:50]}", detail=how)
    ck.count("coroutine_call_sites", n_calls, 60)


def gathers(repo: Repo) -> List[Tuple[Func, FuncView, ast.Call]]:
    out = []
    for f in sorted(repo.all_funcs(), key=lambda f: f.short):
        fv = None
        for c in [n for n in walk_no_nested(f.node) if isinstance(n, ast.Call) and callee_last(n) == "gather" and dotted(n.func) in ("asyncio.gather", "gather")]:
            fv = fv or FuncView(f)
            out.append((f, fv, c))
    return out


FIELD_EXECUTION_MODULES = ("tartiflette/coercers/outputs/", "tartiflette/execution/execute.py", "tartiflette/resolver/factory.py")


def gather_operand_kind(repo: Repo, f: Func, fv: FuncView, g: ast.Call) -> str:
    """field-execution | other, by the defining module of the operands' callee."""
    texts = []
    for a in g.args:
        v = a.value if isinstance(a, ast.Starred) else a
        for c in ast.walk(v):
            if isinstance(c, ast.Call):
                tgt = repo.resolve_call(f, c)
                if tgt is not None and getattr(tgt, "module", None) is not None and tgt.module.relpath.startswith(FIELD_EXECUTION_MODULES):
                    return "field-execution"
                if isinstance(c.func, ast.Attribute) and c.func.attr == "resolver":
                    return "field-execution"
        texts.append(unparse(v))
    for t in texts:
        for name in [n.id for n in ast.walk(ast.parse(t, mode="eval")) if isinstance(n, ast.Name)]:
            for n in walk_no_nested(f.node):
                if isinstance(n, ast.Assign) and isinstance(n.targets[0], ast.Subscript) and unparse(n.targets[0].value) == name and isinstance(n.value, ast.Name):
                    for m in walk_no_nested(f.node):
                        if isinstance(m, ast.Assign) and unparse(m.targets[0]) == n.value.id and isinstance(m.value, ast.Call) and isinstance(m.value.func, ast.Attribute) \
                                and m.value.func.attr == "resolver":
                            return "field-execution"
    return "other"


def check_field_execution_gathers(ck, repo: Repo):
    """Gathers whose operands run resolvers / complete values return only after *all* operands finished."""
    n_field = 0
    for f, fv, g in gathers(repo):
        kind = gather_operand_kind(repo, f, fv, g)
        if kind == "field-execution":
            n_field += 1
            re_ = None
            for k in g.keywords:
                if k.arg == "return_exceptions":
                    re_ = unparse(k.value)
            ck.ob(f"{f.qualname}: gather over field executions / value completions passes return_exceptions=True (it returns only after all operands finished)",
                  re_ == "True", f, g, construct=f"gather:{f.qualname}:return-exceptions",
                  detail="without it (or with a computed flag) the first failure returns at once while sibling resolvers are still running")
        ck.ob(f"{f.qualname}: the gather is awaited where it is created", fv.is_awaited(g), f, g, construct=f"gather:{f.qualname}:awaited")
    ck.counts["field_execution_gathers"] = n_field
    # every list of completions is either gathered this way or awaited item by item
    lc = repo.func("tartiflette/coercers/outputs/list_coercer.py", "list_coercer_concurrently")
    lv = FuncView(lc)
    cvs = lv.calls("complete_value_catching_error")
    for c in cvs:
        ok, how = consumption(lv, c)
        in_gather = any(contains(g, c) for _, _, g in gathers(repo) if _ is lc) if False else None
        ck.ob("list_coercer_concurrently: item completions are consumed by an awaited gather / await", ok, lc, c, construct="gather:list:consumed", detail=how)
