"""Normal form of a function under semantics-preserving rewrites.

Two functions with the same normal form (up to the names of their locals) compute the same thing, whatever refactoring
separates them.  `sa/alpha.py` uses this to recognise that a function of the current tree is the reference function in
another dress - extracted helper, guard clauses instead of if/else, conditional expression instead of if, loop instead
of comprehension, intermediate variable, keyword instead of positional arguments - and then analyses the reference
text, which the rules were written against.  A function whose normal form differs is analysed exactly as it stands.

Every rewrite below is semantics-preserving on its own; each states the condition that makes it so.  "Pure" means: a
name, a constant, or an attribute / constant-subscript chain of names - evaluating it has no effect and its value
cannot be changed by evaluating something else in the same statement.

R1  docstrings, annotations and `pass` are dropped.
R2  `x: T = E` is `x = E`.
R3  `return A if c else B`  ->  `if c: return A` / `else: return B`;  same for `x = A if c else B`, also under `await`.
R4  statements following an `if` one of whose branches always leaves (return / raise / continue / break) move into
    the other branch (guard clauses become if/else).
R5  `if not c: A else: B` -> `if c: B else: A`; same for `is not` / `!=` / `not in` tests with an else.
R6  `if a: (if b: X)` without any else -> `if a and b: X`.
R7  a list / set / dict comprehension is built by an explicit loop into a temporary just before the statement that
    uses it, provided everything that statement evaluates before the comprehension is pure.
R8  `d.setdefault(K, []).append(V)` (d pure) -> `k = K; if k not in d: d[k] = []; d[k].append(V)`.
R9  a local assigned once and read once, by the very next statement, at a position before which that statement
    evaluates only pure expressions, is replaced by its defining expression.
R10 keyword arguments that continue the positional prefix of a known package function are passed positionally.
R11 `getattr(x, "name")` -> `x.name`.
R12 a call of a helper that the reference does not know (a function of the same module, or a method of the same class,
    introduced by the edit) is replaced by the helper's body: parameters bound to the arguments (pure arguments are
    substituted), `return V` in tail position becoming the assignment / return / expression the call stood in.
"""
from __future__ import annotations

import ast
import copy
import itertools
from typing import Callable, Dict, List, Optional, Set

_FUNCS = (ast.FunctionDef, ast.AsyncFunctionDef)
_LEAVE = (ast.Return, ast.Raise, ast.Continue, ast.Break)
_fresh = itertools.count()   # reset by normal_form: temporaries of all passes and rounds get distinct numbers
# facts about the tree being normalised (set by sa/alpha.py before each call): names that are `async def` everywhere they are
# defined (calling one only *creates* a coroutine) and classes whose __init__ only stores its parameters
CREATION = {"async": frozenset(), "ctors": frozenset()}


def _creates_only(e) -> bool:
    """`f(args)` with f a coroutine function and every argument pure or a trivial constructor of pure arguments: evaluating it
    runs no user code and cannot fail, so the statement may move next to the `await` that consumes it."""
    if not (isinstance(e, ast.Call) and isinstance(e.func, ast.Name) and e.func.id in CREATION["async"]):
        return False

    def ok(a):
        if isinstance(a, ast.Starred):
            return ok(a.value)
        if is_pure(a):
            return True
        return isinstance(a, ast.Call) and isinstance(a.func, ast.Name) and a.func.id in CREATION["ctors"] and all(ok(x) for x in a.args) and all(ok(k.value) for k in a.keywords)

    return all(ok(a) for a in e.args) and all(k.arg is not None and ok(k.value) for k in e.keywords)


def is_pure(e) -> bool:
    if isinstance(e, (ast.Name, ast.Constant)):
        return True
    if isinstance(e, ast.Attribute):
        return is_pure(e.value)
    if isinstance(e, ast.Subscript):
        return is_pure(e.value) and isinstance(e.slice, (ast.Constant, ast.Name))
    if isinstance(e, ast.Starred):
        return is_pure(e.value)
    if isinstance(e, ast.IfExp):
        return is_pure(e.test) and is_pure(e.body) and is_pure(e.orelse)
    if isinstance(e, ast.UnaryOp) and isinstance(e.op, ast.Not):
        return is_pure(e.operand)
    return False


def _bodies(node):
    for fld in ("body", "orelse", "finalbody"):
        v = getattr(node, fld, None)
        if isinstance(v, list) and v and isinstance(v[0], ast.stmt):
            yield node, fld
    for h in getattr(node, "handlers", []) or []:
        yield h, "body"


def _rewrite_bodies(node, f):
    """Applies f(list_of_statements) -> list_of_statements to every statement list below node, innermost first."""
    for child in ast.iter_child_nodes(node):
        if isinstance(child, (ast.stmt, ast.ExceptHandler)):
            _rewrite_bodies(child, f)
    for owner, fld in list(_bodies(node)):
        setattr(owner, fld, f(getattr(owner, fld)) or [ast.Pass()])


# ---- R1 / R2 ------------------------------------------------------------------------------------------------------------

def _strip(fn):
    for n in ast.walk(fn):
        if isinstance(n, _FUNCS):
            n.returns = None
            for a in n.args.args + n.args.kwonlyargs + getattr(n.args, "posonlyargs", []) + [x for x in (n.args.vararg, n.args.kwarg) if x]:
                a.annotation = None
            if n.body and isinstance(n.body[0], ast.Expr) and isinstance(n.body[0].value, ast.Constant) and isinstance(n.body[0].value.value, str):
                n.body = n.body[1:] or [ast.Pass()]

    def f(stmts):
        out = []
        for s in stmts:
            if isinstance(s, ast.Pass):
                continue
            if isinstance(s, ast.AnnAssign):
                if s.value is None:
                    continue
                s = ast.Assign(targets=[s.target], value=s.value)
            out.append(s)
        return out

    _rewrite_bodies(fn, f)


# ---- R3 -----------------------------------------------------------------------------------------------------------------

def _split_ifexp(value):
    """value -> (test, a, b) when value is `A if c else B` or `await (A if c else B)`."""
    if isinstance(value, ast.IfExp):
        return value.test, value.body, value.orelse
    if isinstance(value, ast.Await) and isinstance(value.value, ast.IfExp):
        v = value.value
        return v.test, ast.Await(value=v.body), ast.Await(value=v.orelse)
    return None


def _expand_ifexp(fn):
    def f(stmts):
        out = []
        for s in stmts:
            parts = None
            if isinstance(s, ast.Return) and s.value is not None:
                parts = _split_ifexp(s.value)
                mk = lambda v: ast.Return(value=v)  # noqa: E731
            elif isinstance(s, ast.Assign):
                parts = _split_ifexp(s.value)
                tg = s.targets
                mk = lambda v: ast.Assign(targets=copy.deepcopy(tg), value=v)  # noqa: E731
            if parts is None:
                out.append(s)
                continue
            t, a, b = parts
            out.append(ast.If(test=t, body=f([mk(a)]), orelse=f([mk(b)])))
        return out

    _rewrite_bodies(fn, f)


# ---- R4 / R5 / R6 -------------------------------------------------------------------------------------------------------

def _leaves(stmts) -> bool:
    if not stmts:
        return False
    last = stmts[-1]
    if isinstance(last, _LEAVE):
        return True
    if isinstance(last, ast.If) and last.orelse:
        return _leaves(last.body) and _leaves(last.orelse)
    return False


def _guards(fn):
    def f(stmts):
        for i, s in enumerate(stmts):
            rest = stmts[i + 1:]
            if isinstance(s, ast.If) and rest:
                if _leaves(s.body) and not _leaves(s.orelse):
                    s.orelse = f((s.orelse or []) + rest)
                    return stmts[:i + 1]
                if s.orelse and _leaves(s.orelse) and not _leaves(s.body):
                    s.body = f(s.body + rest)
                    return stmts[:i + 1]
        return stmts

    _rewrite_bodies(fn, f)


_NEG = {ast.IsNot: ast.Is, ast.NotEq: ast.Eq, ast.NotIn: ast.In}


def _flip(fn):
    for n in ast.walk(fn):
        if isinstance(n, ast.If) and n.orelse:
            t = n.test
            if isinstance(t, ast.UnaryOp) and isinstance(t.op, ast.Not):
                n.test, n.body, n.orelse = t.operand, n.orelse, n.body
            elif isinstance(t, ast.Compare) and len(t.ops) == 1 and type(t.ops[0]) in _NEG:
                t.ops = [_NEG[type(t.ops[0])]()]
                n.body, n.orelse = n.orelse, n.body


def _merge_ifs(fn):
    changed = True
    while changed:
        changed = False
        for n in ast.walk(fn):
            if isinstance(n, ast.If) and not n.orelse and len(n.body) == 1 and isinstance(n.body[0], ast.If) and not n.body[0].orelse:
                inner = n.body[0]
                vals = []
                for t in (n.test, inner.test):
                    vals += t.values if isinstance(t, ast.BoolOp) and isinstance(t.op, ast.And) else [t]
                n.test, n.body = ast.BoolOp(op=ast.And(), values=vals), inner.body
                changed = True


# ---- R7 -----------------------------------------------------------------------------------------------------------------

_COMPS = (ast.ListComp, ast.SetComp, ast.DictComp)


def _first_comp(stmt):
    """The first comprehension the statement evaluates, if everything evaluated before it is pure; else None."""
    found = []

    def ev(e) -> bool:  # returns False when something impure was evaluated (stop)
        if e is None:
            return True
        if isinstance(e, _COMPS):
            found.append(e)
            return False
        if is_pure(e) and not isinstance(e, ast.Starred):
            return True
        if isinstance(e, ast.Starred):
            return ev(e.value)
        if isinstance(e, ast.Await):
            ev(e.value)
            return False
        if isinstance(e, ast.Call):
            if not ev(e.func):
                return False
            for a in e.args:
                if not ev(a):
                    return False
            for k in e.keywords:
                if not ev(k.value):
                    return False
            return False  # the call itself is an effect
        return False

    if isinstance(stmt, (ast.Assign, ast.Return, ast.Expr, ast.AugAssign)):
        ev(stmt.value)
    return found[0] if found else None


def _hoist_comprehensions(fn):
    counter = _fresh

    def build(comp, acc, k: int, into=None):
        accx = (lambda: copy.deepcopy(into)) if into is not None else (lambda: ast.Name(id=acc, ctx=ast.Load()))
        ren = {}
        for gi, g in enumerate(comp.generators):
            for n in ast.walk(g.target):
                if isinstance(n, ast.Name):
                    ren.setdefault(n.id, f"_c{k}v{len(ren)}")

        def rn(node):
            node = copy.deepcopy(node)
            for n in ast.walk(node):
                if isinstance(n, ast.Name) and n.id in ren:
                    n.id = ren[n.id]
            return node

        if isinstance(comp, ast.DictComp):
            inner = [ast.Assign(targets=[ast.Subscript(value=accx(), slice=rn(comp.key), ctx=ast.Store())], value=rn(comp.value))]
        else:
            meth = "append" if isinstance(comp, ast.ListComp) else "add"
            inner = [ast.Expr(value=ast.Call(func=ast.Attribute(value=accx(), attr=meth, ctx=ast.Load()), args=[rn(comp.elt)], keywords=[]))]
        first = True
        for g in reversed(comp.generators):
            for cond in reversed(g.ifs):
                inner = [ast.If(test=rn(cond), body=inner, orelse=[])]
            tgt = rn(g.target)
            for n in ast.walk(tgt):
                if isinstance(n, ast.Name):
                    n.ctx = ast.Store()
            it = g.iter if g is comp.generators[0] else rn(g.iter)
            loop = (ast.AsyncFor if g.is_async else ast.For)(target=tgt, iter=copy.deepcopy(it) if g is not comp.generators[0] else it, body=inner, orelse=[])
            inner = [loop]
        init = {ast.ListComp: ast.List(elts=[], ctx=ast.Load()), ast.SetComp: ast.Call(func=ast.Name(id="set", ctx=ast.Load()), args=[], keywords=[]),
                ast.DictComp: ast.Dict(keys=[], values=[])}[type(comp)]
        if into is not None:
            return inner
        return [ast.Assign(targets=[ast.Name(id=acc, ctx=ast.Store())], value=init)] + inner

    def f(stmts):
        out = []
        for s in stmts:
            while True:
                c = _first_comp(s)
                if c is None:
                    break
                k = next(counter)
                if isinstance(s, ast.Expr) and isinstance(s.value, ast.Call) and isinstance(s.value.func, ast.Attribute) and s.value.func.attr == "extend" \
                        and s.value.args == [c] and not s.value.keywords and isinstance(c, ast.ListComp) and is_pure(s.value.func.value) \
                        and not ({x.id for x in ast.walk(s.value.func.value) if isinstance(x, ast.Name)} & {x.id for x in ast.walk(c) if isinstance(x, ast.Name)} - {"self"}):
                    out.extend(build(c, None, k, into=s.value.func.value))  # the elements go straight into the extended list
                    s = None
                    break
                if isinstance(s, ast.Assign) and s.value is c and len(s.targets) == 1 and isinstance(s.targets[0], ast.Name) \
                        and not any(isinstance(x, ast.Name) and x.id == s.targets[0].id for x in ast.walk(c)):
                    out.extend(build(c, s.targets[0].id, k))  # `x = [...]`: the loop fills x itself
                    s = None
                    break
                acc = f"_c{k}"
                out.extend(build(c, acc, k))
                _replace_node(s, c, ast.Name(id=acc, ctx=ast.Load()))
            if s is not None:
                out.append(s)
        return out

    _rewrite_bodies(fn, f)


def _replace_node(root, old, new):
    for parent in ast.walk(root):
        for field, value in ast.iter_fields(parent):
            if value is old:
                setattr(parent, field, new)
                return True
            if isinstance(value, list):
                for j, v in enumerate(value):
                    if v is old:
                        value[j] = new
                        return True
    return False


def _forward_temp_lists(fn):
    """`T = []` ... `T.append(E)` ... `for v in T: X.append(v)` with T used for nothing else and X untouched in between:
    the elements go straight into X."""
    changed = True
    while changed:
        changed = False
        for owner, fld in [(o, f_) for n in ast.walk(fn) for o, f_ in _bodies(n)]:
            stmts = getattr(owner, fld)
            for j, lp in enumerate(stmts):
                if not (isinstance(lp, ast.For) and isinstance(lp.iter, ast.Name) and isinstance(lp.target, ast.Name) and len(lp.body) == 1 and not lp.orelse):
                    continue
                b = lp.body[0]
                if not (isinstance(b, ast.Expr) and isinstance(b.value, ast.Call) and isinstance(b.value.func, ast.Attribute) and b.value.func.attr == "append"
                        and len(b.value.args) == 1 and isinstance(b.value.args[0], ast.Name) and b.value.args[0].id == lp.target.id and is_pure(b.value.func.value)):
                    continue
                t, x = lp.iter.id, b.value.func.value
                init = [i for i, s_ in enumerate(stmts[:j]) if isinstance(s_, ast.Assign) and len(s_.targets) == 1 and isinstance(s_.targets[0], ast.Name)
                        and s_.targets[0].id == t and isinstance(s_.value, ast.List) and not s_.value.elts]
                if len(init) != 1:
                    continue
                i0 = init[0]
                uses = [n for n in ast.walk(fn) if isinstance(n, ast.Name) and n.id == t]
                between = [n for s_ in stmts[i0 + 1:j] for n in ast.walk(s_)]
                appends = [c for c in between if isinstance(c, ast.Call) and isinstance(c.func, ast.Attribute) and c.func.attr == "append" and isinstance(c.func.value, ast.Name) and c.func.value.id == t]
                xroots = {n.id for n in ast.walk(x) if isinstance(n, ast.Name)} - {"self"}
                if len(uses) != 2 + len(appends) or any(isinstance(n, ast.Name) and n.id in xroots for n in between) and xroots:
                    continue
                if ast.unparse(x) in {ast.unparse(n) for n in between if isinstance(n, (ast.Attribute, ast.Name))}:
                    continue
                for c in appends:
                    c.func.value = copy.deepcopy(x)
                del stmts[j]
                del stmts[i0]
                changed = True
                break
            if changed:
                break


def _expand_extend(fn):
    counter = _fresh

    def f(stmts):
        out = []
        for s in stmts:
            c = s.value if isinstance(s, ast.Expr) else None
            if isinstance(c, ast.Call) and isinstance(c.func, ast.Attribute) and c.func.attr == "extend" and len(c.args) == 1 and not c.keywords and is_pure(c.func.value) \
                    and not isinstance(c.args[0], _COMPS + (ast.Starred,)):
                v = f"_e{next(counter)}"
                out.append(ast.For(target=ast.Name(id=v, ctx=ast.Store()), iter=c.args[0], orelse=[],
                                   body=[ast.Expr(value=ast.Call(func=ast.Attribute(value=copy.deepcopy(c.func.value), attr="append", ctx=ast.Load()),
                                                                 args=[ast.Name(id=v, ctx=ast.Load())], keywords=[]))]))
                continue
            out.append(s)
        return out

    _rewrite_bodies(fn, f)


# ---- R8 -----------------------------------------------------------------------------------------------------------------

def _expand_setdefault(fn):
    counter = _fresh

    def f(stmts):
        out = []
        for s in stmts:
            c = s.value if isinstance(s, ast.Expr) else None
            if isinstance(c, ast.Call) and isinstance(c.func, ast.Attribute) and c.func.attr == "append" and len(c.args) == 1 and not c.keywords:
                sd = c.func.value
                if isinstance(sd, ast.Call) and isinstance(sd.func, ast.Attribute) and sd.func.attr == "setdefault" and len(sd.args) == 2 and not sd.keywords \
                        and isinstance(sd.args[1], ast.List) and not sd.args[1].elts and is_pure(sd.func.value):
                    d, key = sd.func.value, sd.args[0]
                    if not isinstance(key, (ast.Name, ast.Constant)):
                        kn = f"_k{next(counter)}"
                        out.append(ast.Assign(targets=[ast.Name(id=kn, ctx=ast.Store())], value=key))
                        key = ast.Name(id=kn, ctx=ast.Load())
                    sub = lambda ctx: ast.Subscript(value=copy.deepcopy(d), slice=copy.deepcopy(key), ctx=ctx)  # noqa: E731
                    out.append(ast.If(test=ast.Compare(left=copy.deepcopy(key), ops=[ast.NotIn()], comparators=[copy.deepcopy(d)]),
                                      body=[ast.Assign(targets=[sub(ast.Store())], value=ast.List(elts=[], ctx=ast.Load()))], orelse=[]))
                    out.append(ast.Expr(value=ast.Call(func=ast.Attribute(value=sub(ast.Load()), attr="append", ctx=ast.Load()), args=c.args, keywords=[])))
                    continue
            out.append(s)
        return out

    _rewrite_bodies(fn, f)


# ---- R9 -----------------------------------------------------------------------------------------------------------------

def _first_use_is_early(stmt, name: str) -> Optional[ast.Name]:
    """The single Load of `name` in `stmt` when everything the statement evaluates before it is pure."""
    hit = []

    def ev(e) -> bool:
        if e is None:
            return True
        if isinstance(e, ast.Name):
            if e.id == name and isinstance(e.ctx, ast.Load):
                hit.append(e)
                return False
            return True
        if isinstance(e, ast.Constant):
            return True
        if isinstance(e, (ast.Attribute, ast.Starred, ast.Await)):
            ok = ev(e.value)
            return ok and not isinstance(e, ast.Await)
        if isinstance(e, ast.Subscript):
            return ev(e.value) and ev(e.slice)
        if isinstance(e, ast.UnaryOp):
            return ev(e.operand)
        if isinstance(e, ast.BinOp):
            return ev(e.left) and ev(e.right)
        if isinstance(e, ast.Compare):
            return ev(e.left) and all(ev(c) for c in e.comparators[:1])
        if isinstance(e, ast.BoolOp):
            return ev(e.values[0]) and False
        if isinstance(e, (ast.Tuple, ast.List)):
            return all(ev(x) for x in e.elts)
        if isinstance(e, ast.JoinedStr):
            return all(ev(x) for x in e.values)
        if isinstance(e, ast.FormattedValue):
            return ev(e.value) and e.format_spec is None
        if isinstance(e, ast.Call):
            if not ev(e.func):
                return False
            for a in e.args:
                if not ev(a):
                    return False
            for k in e.keywords:
                if not ev(k.value):
                    return False
            return False
        return False

    if isinstance(stmt, (ast.Return, ast.Expr)):
        ev(stmt.value)
    elif isinstance(stmt, ast.Assign):
        ev(stmt.value)
    elif isinstance(stmt, ast.Raise):
        ev(stmt.exc)
    elif isinstance(stmt, (ast.If, ast.While)):
        ev(stmt.test)
    elif isinstance(stmt, (ast.For, ast.AsyncFor)):
        ev(stmt.iter)
    return hit[0] if hit else None


def _early(stmt, node) -> bool:
    """Is everything `stmt` evaluates before `node` pure?"""
    state = {"hit": False}

    def ev(e) -> bool:
        if e is None:
            return True
        if e is node:
            state["hit"] = True
            return False
        if isinstance(e, (ast.Name, ast.Constant)):
            return True
        if isinstance(e, (ast.Attribute, ast.Starred)):
            return ev(e.value)
        if isinstance(e, ast.Await):
            ev(e.value)
            return False
        if isinstance(e, ast.Yield):
            ev(e.value)   # the operand is evaluated before the generator suspends
            return False
        if isinstance(e, ast.Subscript):
            return ev(e.value) and ev(e.slice)
        if isinstance(e, ast.UnaryOp):
            return ev(e.operand)
        if isinstance(e, ast.BinOp):
            return ev(e.left) and ev(e.right)
        if isinstance(e, ast.Compare):
            return ev(e.left) and all(ev(c) for c in e.comparators[:1])
        if isinstance(e, ast.BoolOp):
            ev(e.values[0])
            return False
        if isinstance(e, (ast.Tuple, ast.List, ast.Set)):
            return all(ev(x) for x in e.elts)
        if isinstance(e, ast.Dict):
            return all(ev(k) and ev(v) for k, v in zip(e.keys, e.values))
        if isinstance(e, ast.JoinedStr):
            return all(ev(x) for x in e.values)
        if isinstance(e, ast.FormattedValue):
            return ev(e.value)
        if isinstance(e, ast.Call):
            if not ev(e.func):
                return False
            for a in e.args:
                if not ev(a):
                    return False
            for k in e.keywords:
                if not ev(k.value):
                    return False
            return False
        return False

    if isinstance(stmt, (ast.Return, ast.Expr, ast.Assign, ast.AugAssign)):
        ev(stmt.value)
    elif isinstance(stmt, ast.Raise):
        ev(stmt.exc)
    elif isinstance(stmt, (ast.If, ast.While)):
        ev(stmt.test)
    elif isinstance(stmt, (ast.For, ast.AsyncFor)):
        ev(stmt.iter)
    return state["hit"]


def _inline_temps(fn):
    changed = True
    while changed:
        changed = False
        counts: Dict[str, int] = {}
        for x in ast.walk(fn):
            if isinstance(x, ast.Name):
                counts[x.id] = counts.get(x.id, 0) + 1
        params = {a.arg for f_ in ast.walk(fn) if isinstance(f_, _FUNCS) for a in f_.args.args + f_.args.kwonlyargs}

        def f(stmts):
            nonlocal changed
            i = 0
            while i + 1 < len(stmts):
                a, b = stmts[i], stmts[i + 1]
                if isinstance(a, ast.Assign) and len(a.targets) == 1 and isinstance(a.targets[0], ast.Name) and counts.get(a.targets[0].id) == 2 \
                        and a.targets[0].id not in params and not a.targets[0].id.startswith("_c"):
                    use = _first_use_is_early(b, a.targets[0].id)
                    if use is not None and _replace_node(b, use, a.value):
                        del stmts[i]
                        changed = True
                        continue
                    # a coroutine created just before the `try` whose first statement awaits it: creating it cannot fail, so it
                    # may as well be created where it is awaited
                    if isinstance(b, ast.Try) and b.body and _creates_only(a.value):
                        use = _first_use_is_early(b.body[0], a.targets[0].id)
                        if use is not None and _replace_node(b.body[0], use, a.value):
                            del stmts[i]
                            changed = True
                            continue
                i += 1
            return stmts

        _rewrite_bodies(fn, f)


# ---- R15 / R16 / R17 ----------------------------------------------------------------------------------------------------

def _split_tuple_assign(fn):
    """`a, b = (E1, E2)` -> `a = E1; b = E2` when no later element reads an earlier target."""
    def f(stmts):
        out = []
        for s in stmts:
            if isinstance(s, ast.Assign) and len(s.targets) == 1 and isinstance(s.targets[0], ast.Tuple) and isinstance(s.value, ast.Tuple) \
                    and len(s.targets[0].elts) == len(s.value.elts) and all(isinstance(t, ast.Name) for t in s.targets[0].elts):
                names = [t.id for t in s.targets[0].elts]
                ok = len(set(names)) == len(names) and not any(isinstance(x, ast.Name) and x.id in names[:i] for i, v in enumerate(s.value.elts) for x in ast.walk(v)) \
                    and not any(isinstance(x, ast.Starred) for x in s.value.elts)
                if ok:
                    for t, v in zip(s.targets[0].elts, s.value.elts):
                        out.append(ast.Assign(targets=[t], value=v))
                    continue
            out.append(s)
        return out

    _rewrite_bodies(fn, f)


def _stores(fn) -> Dict[str, int]:
    st: Dict[str, int] = {}
    for x in ast.walk(fn):
        if isinstance(x, ast.Name) and isinstance(x.ctx, (ast.Store, ast.Del)):
            st[x.id] = st.get(x.id, 0) + 1
        elif isinstance(x, ast.ExceptHandler) and x.name:
            st[x.name] = st.get(x.name, 0) + 1
    return st


def _propagate_pure(fn):
    """A local stored exactly once, from a pure expression over parameters and other once-stored locals, is replaced by
    that expression wherever it is read (reads of attribute chains are taken to be stable during one activation unless the
    function itself stores into such a chain, in which case nothing is propagated)."""
    if any(isinstance(x, (ast.Attribute, ast.Subscript)) and isinstance(x.ctx, (ast.Store, ast.Del)) and not isinstance(x.value, ast.Name) for x in ast.walk(fn)):
        attr_stores = True
    else:
        attr_stores = False
    changed = True
    rounds = 0
    while changed and rounds < 20:
        rounds += 1
        changed = False
        st = _stores(fn)
        params = {a.arg for f_ in ast.walk(fn) if isinstance(f_, _FUNCS) for a in f_.args.args + f_.args.kwonlyargs} | \
            {x.arg for f_ in ast.walk(fn) if isinstance(f_, _FUNCS) for x in (f_.args.vararg, f_.args.kwarg) if x}
        for owner, fld in [(o, f_) for n in ast.walk(fn) for o, f_ in _bodies(n)]:
            stmts = getattr(owner, fld)
            under_try = isinstance(owner, ast.Try) and fld == "body"  # a lookup made under a handler stays under it: every read must be under it too
            for i, s in enumerate(stmts):
                if not (isinstance(s, ast.Assign) and len(s.targets) == 1 and isinstance(s.targets[0], ast.Name)):
                    continue
                x = s.targets[0].id
                if st.get(x) != 1 or x in params or x.startswith("_c") or not is_pure(s.value) or isinstance(s.value, ast.Constant):
                    continue
                roots = [n.id for n in ast.walk(s.value) if isinstance(n, ast.Name)]
                if not all(st.get(r, 0) == 0 or (st.get(r, 0) == 1 and r not in params) for r in roots):
                    continue  # (a name never stored in the function is a parameter or a module-level name)
                if not isinstance(s.value, ast.Name) and attr_stores:
                    continue
                # every read of x must come after this statement in the same block or deeper (no read before the store)
                # every read of x must come after this statement in source order (a read on a path that skipped the store
                # would have failed before; after propagation it evaluates the expression instead)
                order = {id(n): k for k, n in enumerate(_dfs(fn))}
                here = max(order[id(n)] for n in ast.walk(s) if id(n) in order)
                reads = [n for n in ast.walk(fn) if isinstance(n, ast.Name) and n.id == x and isinstance(n.ctx, ast.Load)]
                if not reads or not all(order[id(n)] > here for n in reads):
                    continue
                if under_try:
                    inside = {id(n) for t in stmts for n in ast.walk(t)}
                    if not all(id(n) in inside for n in reads):
                        continue
                for n in reads:
                    _replace_node(fn, n, copy.deepcopy(s.value))
                del stmts[i]
                if not stmts:
                    stmts.append(ast.Pass())
                changed = True
                break
            if changed:
                break


def _coalesce_copies(fn):
    """`x = E ... y = x` in one block, x stored once, y untouched in between: x is y from the start."""
    changed = True
    while changed:
        changed = False
        st = _stores(fn)
        for owner, fld in [(o, f_) for n in ast.walk(fn) for o, f_ in _bodies(n)]:
            stmts = getattr(owner, fld)
            for j, c in enumerate(stmts):
                if not (isinstance(c, ast.Assign) and len(c.targets) == 1 and isinstance(c.targets[0], ast.Name) and isinstance(c.value, ast.Name)):
                    continue
                y, x = c.targets[0].id, c.value.id
                if x == y or st.get(x) != 1:
                    continue
                src = [i for i, s in enumerate(stmts[:j]) if isinstance(s, ast.Assign) and len(s.targets) == 1 and isinstance(s.targets[0], ast.Name) and s.targets[0].id == x]
                if len(src) != 1:
                    continue
                i = src[0]
                if any(isinstance(n, ast.Name) and n.id == y for s in stmts[i:j] for n in ast.walk(s)):
                    continue
                for n in ast.walk(fn):
                    if isinstance(n, ast.Name) and n.id == x:
                        n.id = y
                del stmts[j]
                changed = True
                break
            if changed:
                break


def _hoist_common_tail_return(fn):
    """`if C: A; return E  else: B; return E`  as the last statement of a block  is  `if C: A  else: B` followed by `return E`
    (E is evaluated after A / B either way)."""
    def f(stmts):
        if stmts and isinstance(stmts[-1], ast.If):
            s = stmts[-1]
            if s.body and s.orelse and isinstance(s.body[-1], ast.Return) and isinstance(s.orelse[-1], ast.Return) and \
                    ast.dump(s.body[-1]) == ast.dump(s.orelse[-1]) and (len(s.body) > 1 or len(s.orelse) > 1):
                ret = s.body.pop()
                s.orelse.pop()
                if not s.body:
                    s.test = ast.UnaryOp(op=ast.Not(), operand=s.test)
                    s.body, s.orelse = s.orelse, []
                stmts.append(ret)
        return stmts

    _rewrite_bodies(fn, f)


def _coalesce_branch_copies(fn):
    """`if C: v = p  else: v = E(p)`  (v new, p not read afterwards)  is  `if not C: p = E(p)`: the fresh name a careful
    refactoring introduces instead of rebinding a parameter is that parameter from there on."""
    params = {a.arg for a in fn.args.args + fn.args.kwonlyargs}
    changed = True
    while changed:
        changed = False
        for owner, fld in [(o, f_) for n in ast.walk(fn) for o, f_ in _bodies(n)]:
            stmts = getattr(owner, fld)
            if owner is not fn:
                continue   # top level of the function only: "afterwards" is then simply the rest of the body
            for j, s in enumerate(stmts):
                if not (isinstance(s, ast.If) and s.body and s.orelse):
                    continue
                for copy_side, other in ((s.body, s.orelse), (s.orelse, s.body)):
                    if not (len(copy_side) == 1 and isinstance(copy_side[0], ast.Assign) and len(copy_side[0].targets) == 1 and isinstance(copy_side[0].targets[0], ast.Name)
                            and isinstance(copy_side[0].value, ast.Name)):
                        continue
                    v, p_ = copy_side[0].targets[0].id, copy_side[0].value.id
                    if v == p_ or v in params:
                        continue
                    # v is defined on the other side too, by top-level assignments of that branch only
                    if not (len(other) == 1 and isinstance(other[0], ast.Assign) and len(other[0].targets) == 1 and isinstance(other[0].targets[0], ast.Name) and other[0].targets[0].id == v):
                        continue
                    names_before = {n.id for t in stmts[:j] for n in ast.walk(t) if isinstance(n, ast.Name)} | {n.id for n in ast.walk(s.test) if isinstance(n, ast.Name) and n.id == v}
                    if v in names_before:
                        continue
                    after = [n for t in stmts[j + 1:] for n in ast.walk(t) if isinstance(n, ast.Name)]
                    if any(n.id == p_ for n in after):
                        continue   # p is still read afterwards: the two names are different things
                    stores_v = [n for n in ast.walk(fn) if isinstance(n, ast.Name) and n.id == v and isinstance(n.ctx, ast.Store)]
                    if len(stores_v) != 2:
                        continue
                    for n in ast.walk(fn):
                        if isinstance(n, ast.Name) and n.id == v:
                            n.id = p_
                    # `p = p` on the copy side disappears
                    if copy_side is s.body:
                        s.test = ast.UnaryOp(op=ast.Not(), operand=s.test)
                        s.body, s.orelse = s.orelse, []
                    else:
                        s.orelse = []
                    changed = True
                    break
                if changed:
                    break
            if changed:
                break


def _drop_tail_returns(fn):
    """A bare `return` that ends the function is the implicit one; `if c: pass else: X` is `if not c: X`."""
    def tail(stmts):
        while stmts and isinstance(stmts[-1], ast.Return) and (stmts[-1].value is None or (isinstance(stmts[-1].value, ast.Constant) and stmts[-1].value.value is None)):
            stmts.pop()
        if stmts and isinstance(stmts[-1], ast.If):
            tail(stmts[-1].body)
            tail(stmts[-1].orelse)
            if not stmts[-1].body:
                stmts[-1].body = [ast.Pass()]
        if not stmts:
            stmts.append(ast.Pass())

    if isinstance(fn, _FUNCS) and not any(isinstance(x, (ast.Yield, ast.YieldFrom)) for x in ast.walk(fn)):
        tail(fn.body)

    def loop_tail(stmts):
        # a bare `continue` that ends an iteration anyway
        while stmts and isinstance(stmts[-1], ast.Continue):
            stmts.pop()
        if stmts and isinstance(stmts[-1], ast.If):
            loop_tail(stmts[-1].body)
            loop_tail(stmts[-1].orelse)
            if not stmts[-1].body:
                stmts[-1].body = [ast.Pass()]
        if not stmts:
            stmts.append(ast.Pass())

    for n in ast.walk(fn):
        if isinstance(n, (ast.For, ast.AsyncFor, ast.While)):
            loop_tail(n.body)
    for n in ast.walk(fn):
        if isinstance(n, ast.If) and n.orelse and all(isinstance(b, ast.Pass) for b in n.body):
            n.test = n.test.operand if isinstance(n.test, ast.UnaryOp) and isinstance(n.test.op, ast.Not) else ast.UnaryOp(op=ast.Not(), operand=n.test)
            n.body, n.orelse = n.orelse, []
        elif isinstance(n, ast.If) and n.orelse and all(isinstance(b, ast.Pass) for b in n.orelse):
            n.orelse = []


# ---- R10 / R11 ----------------------------------------------------------------------------------------------------------

def _calls_style(fn, signatures: Dict[str, List[str]]):
    for n in ast.walk(fn):
        if not isinstance(n, ast.Call):
            continue
        if isinstance(n.func, ast.Name) and n.func.id == "getattr" and len(n.args) == 2 and not n.keywords and isinstance(n.args[1], ast.Constant) \
                and isinstance(n.args[1].value, str) and n.args[1].value.isidentifier():
            new = ast.Attribute(value=n.args[0], attr=n.args[1].value, ctx=ast.Load())
            n.__class__ = ast.Attribute
            n.__dict__.clear()
            n.__dict__.update(new.__dict__)
            continue
        for j, a in enumerate(n.args):  # f(*list(E)) is f(*E)
            if isinstance(a, ast.Starred) and isinstance(a.value, ast.Call) and isinstance(a.value.func, ast.Name) and a.value.func.id in ("list", "tuple") \
                    and len(a.value.args) == 1 and not a.value.keywords:
                a.value = a.value.args[0]
        name = n.func.id if isinstance(n.func, ast.Name) else None
        dfl = (signatures.get("__defaults__") or {}).get(name) if name else None
        if dfl:
            # a keyword that spells out the callee's own constant default says nothing
            n.keywords = [k for k in n.keywords if not (k.arg in dfl and isinstance(k.value, ast.Constant) and ast.unparse(k.value) == dfl[k.arg])]
        params = signatures.get(name) if name else None
        if not params or any(isinstance(a, ast.Starred) for a in n.args):
            continue
        while n.keywords and n.keywords[0].arg is not None and len(n.args) < len(params) and n.keywords[0].arg == params[len(n.args)]:
            n.args.append(n.keywords.pop(0).value)


# ---- R12 ----------------------------------------------------------------------------------------------------------------

def _tail_returns_only(stmts) -> bool:
    """Every `return` of the statement list is in tail position (no return inside a loop / try / with)."""
    for i, s in enumerate(stmts):
        last = i == len(stmts) - 1
        if isinstance(s, ast.Return):
            if not last:
                return False
        elif isinstance(s, ast.If):
            if last:
                if not _tail_returns_only(s.body) or not _tail_returns_only(s.orelse):
                    return False
            elif any(isinstance(x, ast.Return) for b in (s.body, s.orelse) for y in b for x in ast.walk(y)):
                return False
        elif isinstance(s, ast.Try) and last and not s.finalbody and not s.orelse:
            # `try: ...; return V` / `except E: return W` as the last statement: the returns are tails of the try's own paths
            if not _tail_returns_only(s.body) or not all(_tail_returns_only(h.body) for h in s.handlers):
                return False
        elif isinstance(s, (ast.With, ast.AsyncWith)) and last:
            # `with X as f: return E`: the value is computed inside the block either way; only the moment the block is left moves
            # past an assignment of a local, which nothing can observe
            if not _tail_returns_only(s.body):
                return False
        elif any(isinstance(x, ast.Return) for x in ast.walk(s)):
            return False
    return True


def _subst(node, mapping: Dict[str, ast.expr]):
    node = copy.deepcopy(node)

    class T(ast.NodeTransformer):
        def visit_Name(self, n):
            if n.id in mapping and isinstance(n.ctx, ast.Load):
                return copy.deepcopy(mapping[n.id])
            return n

    return T().visit(node)


def _inline_helpers(fn, helpers: Dict[str, ast.AST], in_class: bool):
    """helpers: name -> def node of functions the reference does not know (same module / same class)."""
    if not helpers:
        return
    counter = _fresh

    def bind(call, h) -> Optional[Dict[str, ast.expr]]:
        a = h.args
        if a.kwarg or a.kwonlyargs or getattr(a, "posonlyargs", None) or any(isinstance(x, ast.Starred) for x in call.args) or any(k.arg is None for k in call.keywords):
            return None
        names = [x.arg for x in a.args]
        if in_class and names and names[0] in ("self", "cls"):
            names = names[1:]
        defaults = dict(zip(names[len(names) - len(a.defaults):], a.defaults)) if a.defaults else {}
        m: Dict[str, ast.expr] = {}
        if len(call.args) > len(names):
            if not a.vararg or not all(is_pure(x) for x in call.args[len(names):]):
                return None
            # `*rest` collects the extra positional arguments: only ever used as `*rest` in a call (spliced back below)
            uses = [n_ for n_ in ast.walk(h) if isinstance(n_, ast.Name) and n_.id == a.vararg.arg]
            starred = [n_ for n_ in ast.walk(h) if isinstance(n_, ast.Starred) and isinstance(n_.value, ast.Name) and n_.value.id == a.vararg.arg]
            if len(uses) != len(starred):
                return None
            m[a.vararg.arg] = ast.Tuple(elts=list(call.args[len(names):]), ctx=ast.Load())
        elif a.vararg:
            uses = [n_ for n_ in ast.walk(h) if isinstance(n_, ast.Name) and n_.id == a.vararg.arg]
            starred = [n_ for n_ in ast.walk(h) if isinstance(n_, ast.Starred) and isinstance(n_.value, ast.Name) and n_.value.id == a.vararg.arg]
            if len(uses) != len(starred):
                return None
            m[a.vararg.arg] = ast.Tuple(elts=[], ctx=ast.Load())
        for n, v in zip(names, call.args):
            m[n] = v
        for k in call.keywords:
            if k.arg not in names or k.arg in m:
                return None
            m[k.arg] = k.value
        for n in names:
            if n not in m:
                if n not in defaults:
                    return None
                m[n] = defaults[n]
        return m

    def splice(node):
        """`f(a, *(x, y))` left by substituting a `*rest` parameter is `f(a, x, y)`."""
        for c in ast.walk(node):
            if isinstance(c, ast.Call) and any(isinstance(x, ast.Starred) and isinstance(x.value, ast.Tuple) for x in c.args):
                new_args = []
                for x in c.args:
                    if isinstance(x, ast.Starred) and isinstance(x.value, ast.Tuple):
                        new_args.extend(x.value.elts)
                    else:
                        new_args.append(x)
                c.args = new_args
        return node

    def generator_shape(h):
        """A generator that is one loop yielding one expression per turn as its last act: (prelude statements, the loop) or None."""
        if not isinstance(h, ast.FunctionDef):
            return None
        g0 = copy.deepcopy(h)
        g0.decorator_list = []
        _strip(g0)
        if not g0.body or not isinstance(g0.body[-1], ast.For) or g0.body[-1].orelse:
            return None
        pre, loop = g0.body[:-1], g0.body[-1]
        ys = [n_ for n_ in ast.walk(g0) if isinstance(n_, (ast.Yield, ast.YieldFrom))]
        last = loop.body[-1] if loop.body else None
        if len(ys) != 1 or not (isinstance(last, ast.Expr) and last.value is ys[0] and isinstance(ys[0], ast.Yield) and ys[0].value is not None):
            return None
        if any(isinstance(n_, (ast.Return, ast.Try, ast.With, ast.AsyncWith) + _FUNCS + (ast.Lambda, ast.Await)) for n_ in ast.walk(g0) if n_ is not g0):
            return None
        if not all(isinstance(p_, ast.Assign) for p_ in pre):
            return None
        return pre, loop

    def fuse_generator(h, call):
        """(prelude, loop target, loop iterable, loop body before the yield, yielded expression), parameters substituted and the
        helper's own names made fresh - or None."""
        shp = generator_shape(h)
        if shp is None:
            return None
        m = bind(call, h)
        if m is None or not all(is_pure(v) or isinstance(v, ast.Tuple) and all(is_pure(x) for x in v.elts) for v in m.values()):
            return None
        pre, loop = shp
        holder = ast.Module(body=pre + [loop], type_ignores=[])
        assigned = {n_.id for n_ in ast.walk(holder) if isinstance(n_, ast.Name) and isinstance(n_.ctx, ast.Store)}
        if assigned & set(m):
            return None
        k = next(counter)
        ren = {n_: f"_g{k}_{n_}" for n_ in assigned}
        body = [splice(_subst(s_, m)) for s_ in holder.body]
        for s_ in body:
            for n_ in ast.walk(s_):
                if isinstance(n_, ast.Name) and n_.id in ren:
                    n_.id = ren[n_.id]
        loop2 = body[-1]
        return body[:-1], loop2.target, loop2.iter, loop2.body[:-1], loop2.body[-1].value.value

    def target_of(call):
        if budget[0] <= 0:
            return None
        f_ = call.func
        h_ = None
        if isinstance(f_, ast.Name) and f_.id in helpers and not in_class_only.get(f_.id):
            h_ = helpers[f_.id]
        elif isinstance(f_, ast.Attribute) and isinstance(f_.value, ast.Name) and f_.value.id in ("self", "cls") and f_.attr in helpers and in_class_only.get(f_.attr):
            h_ = helpers[f_.attr]
        if h_ is not None and [d for d in getattr(h_, "decorator_list", []) if not (isinstance(d, ast.Name) and d.id in ("staticmethod", "classmethod"))]:
            return None   # a decorated helper is not its body (a cache, a wrapper): its calls stay calls
        return h_

    in_class_only = {k: bool(getattr(v, "_is_method", False)) for k, v in helpers.items()}
    # helpers that can reach themselves are never inlined, and the total number of inlinings is bounded
    calls_of = {k: {c.func.id if isinstance(c.func, ast.Name) else c.func.attr for c in ast.walk(v) if isinstance(c, ast.Call) and isinstance(c.func, (ast.Name, ast.Attribute))}
                for k, v in helpers.items()}

    def reaches_itself(k):
        seen, todo = set(), list(calls_of.get(k, ()))
        while todo:
            x = todo.pop()
            if x == k:
                return True
            if x in seen or x not in calls_of:
                continue
            seen.add(x)
            todo += list(calls_of[x])
        return False

    own = getattr(fn, "name", None)
    helpers = {k: v for k, v in helpers.items() if not reaches_itself(k) and own not in calls_of.get(k, ()) and k != own}
    budget = [60]

    def prepared(h, call, awaited: bool, dead_after=None):
        if isinstance(h, ast.AsyncFunctionDef) != awaited:
            return None
        if any(isinstance(x, (ast.Yield, ast.YieldFrom)) for x in ast.walk(h)) or any(isinstance(x, _FUNCS + (ast.Lambda,)) for b in h.body for x in ast.walk(b)):
            return None
        m = bind(call, h)
        if m is None:
            return None
        g = copy.deepcopy(h)
        g.decorator_list = []
        _strip(g)
        if not (len(g.body) == 1 and isinstance(g.body[0], ast.Return)):
            # (a single `return E` keeps E as an expression, exactly as when the call is replaced inside a larger expression)
            _expand_ifexp(g)
            _guards(g)
        if not _tail_returns_only(g.body):
            return None
        assigned = {n.id for n in ast.walk(g) if isinstance(n, ast.Name) and isinstance(n.ctx, ast.Store)}
        pre, sub = [], {}
        k = next(counter)
        direct = {}
        for pname, arg in m.items():
            uses = sum(1 for n in ast.walk(g) if isinstance(n, ast.Name) and n.id == pname)
            if (is_pure(arg) and pname not in assigned) or uses == 0:
                sub[pname] = arg
            elif pname in assigned and isinstance(arg, ast.Name) and dead_after is not None and arg.id in dead_after:
                direct[pname] = arg.id  # the helper works on the caller's own variable, which the call statement overwrites or abandons
            elif pname not in assigned:
                # the call is the whole value of its statement: its arguments are evaluated, in order, before the body runs
                tname = f"_a{k}_{len(pre)}"
                pre.append(ast.Assign(targets=[ast.Name(id=tname, ctx=ast.Store())], value=copy.deepcopy(arg)))
                sub[pname] = ast.Name(id=tname, ctx=ast.Load())
            else:
                return None
        ren = {n: (direct[n] if n in direct else f"_h{k}_{n}") for n in assigned}
        body = [splice(_subst(s, sub)) for s in g.body]
        for s in body:
            for n in ast.walk(s):
                if isinstance(n, ast.Name) and n.id in ren:
                    n.id = ren[n.id]
        return pre + body

    def tail_map(stmts, mk):
        out = []
        for i, s in enumerate(stmts):
            if i == len(stmts) - 1 and isinstance(s, ast.Return):
                out.extend(mk(s.value))
            elif i == len(stmts) - 1 and isinstance(s, ast.If):
                s.body = tail_map(s.body, mk) or [ast.Pass()]
                s.orelse = tail_map(s.orelse, mk)
                out.append(s)
            elif i == len(stmts) - 1 and isinstance(s, ast.Try) and not s.finalbody and not s.orelse:
                s.body = tail_map(s.body, mk) or [ast.Pass()]
                for h in s.handlers:
                    h.body = tail_map(h.body, mk) or [ast.Pass()]
                out.append(s)
            elif i == len(stmts) - 1 and isinstance(s, (ast.With, ast.AsyncWith)):
                s.body = tail_map(s.body, mk) or [ast.Pass()]
                out.append(s)
            else:
                out.append(s)
        return out

    def f(stmts):
        out = []
        stmts = list(stmts)
        while stmts:
            s = stmts.pop(0)
            done = False
            # a loop over a generator helper: the helper's loop with this loop's body after what it yields
            if isinstance(s, ast.For) and not s.orelse and isinstance(s.iter, ast.Call) and budget[0] > 0:
                h = target_of(s.iter)
                fused = fuse_generator(h, s.iter) if h is not None else None
                if fused is not None:
                    pre, tgt, it, before, yielded = fused
                    budget[0] -= 1
                    new_loop = ast.For(target=tgt, iter=it, body=before + [ast.Assign(targets=[s.target], value=yielded)] + s.body, orelse=[])
                    stmts = pre + [new_loop] + stmts
                    continue
            # `*helper(...)` / `list(helper(...))` of a generator helper that only yields: the comprehension it spells
            if budget[0] > 0:
                for c in [n for n in ast.walk(s) if isinstance(n, ast.Call)]:
                    h = target_of(c)
                    if h is None:
                        continue
                    par = [n for n in ast.walk(s) if isinstance(n, ast.Starred) and n.value is c] or \
                        [n for n in ast.walk(s) if isinstance(n, ast.Call) and isinstance(n.func, ast.Name) and n.func.id == "list" and len(n.args) == 1 and n.args[0] is c]
                    if not par:
                        continue
                    fused = fuse_generator(h, c)
                    if fused is None or fused[0] or fused[3]:
                        continue
                    _, tgt, it, _, yielded = fused
                    comp = ast.ListComp(elt=yielded, generators=[ast.comprehension(target=tgt, iter=it, ifs=[], is_async=0)])
                    budget[0] -= 1
                    if isinstance(par[0], ast.Starred):
                        par[0].value = comp
                    else:
                        _replace_node(s, par[0], comp)
            # a helper call buried in a statement whose earlier sub-expressions are pure is first given a statement of its own
            whole = getattr(s, "value", None) if isinstance(s, (ast.Assign, ast.Return, ast.Expr)) else None
            whole = whole.value if isinstance(whole, ast.Await) else whole
            hoisted = False
            if isinstance(s, (ast.Assign, ast.Return, ast.Expr, ast.AugAssign, ast.If, ast.Raise)):
                aw = {id(n.value): n for n in ast.walk(s) if isinstance(n, ast.Await) and isinstance(n.value, ast.Call)}
                scope = [s.test] if isinstance(s, ast.If) else [s]
                for c in [n for part in scope for n in ast.walk(part) if isinstance(n, ast.Call)]:
                    h = target_of(c)
                    if h is None or c is whole:
                        continue
                    g0 = copy.deepcopy(h)
                    _strip(g0)
                    if len(g0.body) == 1 and isinstance(g0.body[0], ast.Return):
                        continue  # expression-level inlining below handles single-return helpers
                    anchor = aw.get(id(c), c)
                    if isinstance(h, ast.AsyncFunctionDef) != (id(c) in aw) or not _early(s, anchor):
                        continue
                    tname = f"_t{next(counter)}"
                    budget[0] -= 1
                    if not _replace_node(s, anchor, ast.Name(id=tname, ctx=ast.Load())):
                        continue
                    stmts.insert(0, s)
                    stmts.insert(0, ast.Assign(targets=[ast.Name(id=tname, ctx=ast.Store())], value=anchor))
                    hoisted = True
                    break
            if hoisted:
                continue
            # statement-level: the call is the whole value of an assignment / return / expression statement
            val = getattr(s, "value", None) if isinstance(s, (ast.Assign, ast.Return, ast.Expr)) else None
            awaited = isinstance(val, ast.Await)
            call = val.value if awaited else val
            if isinstance(call, ast.Call):
                h = target_of(call)
                if isinstance(s, ast.Return):
                    dead = {a.id for a in call.args if isinstance(a, ast.Name)}
                elif isinstance(s, ast.Assign) and len(s.targets) == 1 and isinstance(s.targets[0], ast.Name):
                    dead = {s.targets[0].id}
                else:
                    dead = set()
                body = prepared(h, call, awaited, dead) if h is not None else None
                if body is not None:
                    if isinstance(s, ast.Assign):
                        tg = s.targets
                        mk = lambda v: [ast.Assign(targets=copy.deepcopy(tg), value=v if v is not None else ast.Constant(value=None))]  # noqa: E731
                    elif isinstance(s, ast.Return):
                        mk = lambda v: [ast.Return(value=v)]  # noqa: E731
                    else:
                        mk = lambda v: [] if v is None or is_pure(v) else [ast.Expr(value=v)]  # noqa: E731
                    falls = not _always_returns(body)
                    new = tail_map(body, mk)
                    if isinstance(s, ast.Return) and falls:
                        new = new + [ast.Return(value=None)]
                    elif isinstance(s, ast.Assign) and falls:
                        new = None  # an implicit None on some path: keep the call
                    if new is not None:
                        budget[0] -= 1
                        out.extend(f(new))
                        done = True
            if not done:
                # expression-level: a helper whose body is a single `return E`
                awaited_calls = {id(n.value) for n in ast.walk(s) if isinstance(n, ast.Await) and isinstance(n.value, ast.Call)}
                for c in [n for n in ast.walk(s) if isinstance(n, ast.Call)]:
                    h = target_of(c)
                    if h is None or isinstance(h, ast.AsyncFunctionDef) != (id(c) in awaited_calls):
                        continue
                    if any(isinstance(x, (ast.Yield, ast.YieldFrom)) for x in ast.walk(h)):
                        continue
                    g = copy.deepcopy(h)
                    _strip(g)
                    if len(g.body) == 1 and isinstance(g.body[0], ast.Return) and g.body[0].value is not None:
                        m = bind(c, g)
                        if m is None:
                            continue
                        e = g.body[0].value
                        impure = [p for p, a in m.items() if not is_pure(a) and any(isinstance(n, ast.Name) and n.id == p for n in ast.walk(e))]
                        anchor = [n for n in ast.walk(s) if isinstance(n, ast.Await) and n.value is c][0] if id(c) in awaited_calls else c
                        ok = not impure or _early(s, anchor)
                        # names bound inside e are comprehension variables (scoped to it): they get fresh names, nothing else may be bound
                        comp_targets = {x.id for c_ in ast.walk(e) if isinstance(c_, ast.comprehension) for x in ast.walk(c_.target) if isinstance(x, ast.Name)}
                        stores = {x.id for x in ast.walk(e) if isinstance(x, ast.Name) and isinstance(x.ctx, ast.Store)}
                        if comp_targets and stores <= comp_targets and not (comp_targets & set(m)):
                            kk2 = next(counter)
                            e = copy.deepcopy(e)
                            for x in ast.walk(e):
                                if isinstance(x, ast.Name) and x.id in comp_targets:
                                    x.id = f"_h{kk2}_{x.id}"
                            stores = set()
                        if ok and not stores:
                            if impure:
                                # the arguments are evaluated, in order, before the body: bind the impure ones first
                                kk = next(counter)
                                names_in_order = [p for p in m if p in impure]
                                for j, p in enumerate(names_in_order):
                                    tname = f"_a{kk}_{j}"
                                    out.append(ast.Assign(targets=[ast.Name(id=tname, ctx=ast.Store())], value=m[p]))
                                    m[p] = ast.Name(id=tname, ctx=ast.Load())
                            new_e = _subst(e, m)
                            budget[0] -= 1
                            if id(c) in awaited_calls:
                                # `await helper(...)` with `async def helper: return E`  ==  `E` evaluated in place (E holds its own awaits)
                                aw = [n for n in ast.walk(s) if isinstance(n, ast.Await) and n.value is c][0]
                                _replace_node(s, aw, new_e)
                            else:
                                _replace_node(s, c, new_e)
                out.append(s)
        return out

    for _ in range(3):
        before = ast.dump(fn)
        _rewrite_bodies(fn, f)
        if ast.dump(fn) == before:
            break


def _always_returns(stmts) -> bool:
    if not stmts:
        return False
    last = stmts[-1]
    if isinstance(last, (ast.Return, ast.Raise)):
        return True
    if isinstance(last, ast.If) and last.orelse:
        return _always_returns(last.body) and _always_returns(last.orelse)
    if isinstance(last, ast.Try) and not last.finalbody and not last.orelse:
        return _always_returns(last.body) and all(_always_returns(h.body) for h in last.handlers)
    if isinstance(last, (ast.With, ast.AsyncWith)):
        return _always_returns(last.body)
    return False


# ---- R27: negations are pushed inward (`not (a and b)` -> `not a or not b`, `not (x in y)` -> `x not in y`) -------------------

_INV = {ast.Is: ast.IsNot, ast.IsNot: ast.Is, ast.Eq: ast.NotEq, ast.NotEq: ast.Eq, ast.In: ast.NotIn, ast.NotIn: ast.In}


def _nnf(fn):
    def neg(e):
        if isinstance(e, ast.UnaryOp) and isinstance(e.op, ast.Not):
            return push(e.operand)
        if isinstance(e, ast.BoolOp):
            return ast.BoolOp(op=ast.Or() if isinstance(e.op, ast.And) else ast.And(), values=[neg(v) for v in e.values])
        if isinstance(e, ast.Compare) and len(e.ops) == 1 and type(e.ops[0]) in _INV:
            return ast.Compare(left=e.left, ops=[_INV[type(e.ops[0])]()], comparators=e.comparators)
        return ast.UnaryOp(op=ast.Not(), operand=e)

    def push(e):
        # only inside a truth context: the value of `not X` is a bool whichever way it is written
        if isinstance(e, ast.UnaryOp) and isinstance(e.op, ast.Not):
            return neg(e.operand)
        return e

    class T(ast.NodeTransformer):
        def visit_UnaryOp(self, node):
            self.generic_visit(node)
            if isinstance(node.op, ast.Not) and isinstance(node.operand, (ast.BoolOp, ast.UnaryOp, ast.Compare)):
                inner = node.operand
                if isinstance(inner, ast.BoolOp) and not all(_boolish(v) for v in inner.values):
                    return node  # `not (a and b)` == `not a or not b` needs every operand to be read as a truth value: it is, by `not`
                return self.visit(neg(inner)) if not isinstance(inner, ast.Compare) or type(inner.ops[0]) in _INV and len(inner.ops) == 1 else node
            return node

    T().visit(fn)


def _boolish(e) -> bool:
    return True


# ---- R28: `try: S(d[k]) except KeyError: H` -> `if k in d: S(d[k]) else: H` ---------------------------------------------------

def _keyerror_to_membership(fn):
    """For a pure container expression d and a pure key k, when the single statement of the try body can raise KeyError only
    through the subscript d[k] (the statement evaluates nothing else but pure expressions)."""
    def only_pure_and_sub(stmt):
        subs = [n for n in ast.walk(stmt) if isinstance(n, ast.Subscript) and isinstance(n.ctx, ast.Load)]
        if len(subs) != 1 or not is_pure(subs[0].value) or not (is_pure(subs[0].slice)):
            return None
        val = stmt.value if isinstance(stmt, (ast.Return, ast.Assign)) else None
        if val is not subs[0]:
            return None
        return subs[0]

    def f(stmts):
        out = []
        for s in stmts:
            if isinstance(s, ast.Try) and len(s.body) == 1 and len(s.handlers) == 1 and not s.finalbody and s.handlers[0].name is None \
                    and s.handlers[0].type is not None and ast.unparse(s.handlers[0].type) == "KeyError":
                sub = only_pure_and_sub(s.body[0])
                if sub is not None:
                    hb = [x for x in s.handlers[0].body if not isinstance(x, ast.Pass)]
                    # the `else` block runs after a successful lookup, outside the handler's protection - as it does after the test
                    out.append(ast.If(test=ast.Compare(left=copy.deepcopy(sub.slice), ops=[ast.In()], comparators=[copy.deepcopy(sub.value)]), body=s.body + list(s.orelse), orelse=hb))
                    continue
            out.append(s)
        return out

    _rewrite_bodies(fn, f)


# ---- R29 / R30 / R31 ----------------------------------------------------------------------------------------------------------

def _search_idioms(fn):
    """`return next((E for x in IT if C), D)` is the search loop `for x in IT: if C: return E` / `return D` (D pure);
    `isinstance(x, (A, B))` is `isinstance(x, A) or isinstance(x, B)` (x pure); `all(P for x in IT)` in a truth context is
    `not [x for x in IT if not P]`."""
    def f(stmts):
        out = []
        for s in stmts:
            v = s.value if isinstance(s, ast.Return) else None
            if isinstance(v, ast.Call) and isinstance(v.func, ast.Name) and v.func.id == "next" and len(v.args) == 2 and not v.keywords \
                    and isinstance(v.args[0], ast.GeneratorExp) and len(v.args[0].generators) == 1 and not v.args[0].generators[0].is_async and is_pure(v.args[1]):
                g = v.args[0].generators[0]
                inner = [ast.Return(value=v.args[0].elt)]
                for c in reversed(g.ifs):
                    inner = [ast.If(test=c, body=inner, orelse=[])]
                out.append(ast.For(target=g.target, iter=g.iter, body=inner, orelse=[]))
                for n in ast.walk(out[-1].target):
                    if isinstance(n, ast.Name):
                        n.ctx = ast.Store()
                out.append(ast.Return(value=v.args[1]))
                continue
            out.append(s)
        return out

    _rewrite_bodies(fn, f)
    for n in list(ast.walk(fn)):
        if isinstance(n, ast.Call) and isinstance(n.func, ast.Name) and n.func.id == "isinstance" and len(n.args) == 2 and not n.keywords \
                and isinstance(n.args[1], ast.Tuple) and len(n.args[1].elts) >= 2 and is_pure(n.args[0]) and all(is_pure(e) for e in n.args[1].elts):
            new = ast.BoolOp(op=ast.Or(), values=[ast.Call(func=ast.Name(id="isinstance", ctx=ast.Load()), args=[copy.deepcopy(n.args[0]), e], keywords=[]) for e in n.args[1].elts])
            n.__class__ = ast.BoolOp
            n.__dict__.clear()
            n.__dict__.update(new.__dict__)
        elif isinstance(n, ast.Call) and isinstance(n.func, ast.Name) and n.func.id == "all" and len(n.args) == 1 and not n.keywords \
                and isinstance(n.args[0], ast.GeneratorExp) and len(n.args[0].generators) == 1 and not n.args[0].generators[0].ifs:
            g = n.args[0].generators[0]
            comp = ast.ListComp(elt=copy.deepcopy(g.target), generators=[ast.comprehension(target=g.target, iter=g.iter, ifs=[ast.UnaryOp(op=ast.Not(), operand=n.args[0].elt)], is_async=0)])
            for x in ast.walk(comp.elt):
                if isinstance(x, ast.Name):
                    x.ctx = ast.Load()
            new = ast.UnaryOp(op=ast.Not(), operand=comp)
            n.__class__ = ast.UnaryOp
            n.__dict__.clear()
            n.__dict__.update(new.__dict__)


# ---- R13: `if a or b: X` with X leaving -> `if a: X` / `if b: X` ----------------------------------------------------------

def _split_or_guards(fn):
    def f(stmts):
        out = []
        for s in stmts:
            if isinstance(s, ast.If) and not s.orelse and isinstance(s.test, ast.BoolOp) and isinstance(s.test.op, ast.Or) and _leaves(s.body) \
                    and not any(isinstance(x, (ast.Name,)) and isinstance(x.ctx, ast.Store) for b in s.body for x in ast.walk(b)):
                for v in s.test.values:
                    out.append(ast.If(test=v, body=copy.deepcopy(s.body), orelse=[]))
            else:
                out.append(s)
        return out

    _rewrite_bodies(fn, f)


# ---- R14: a loop variable that is dead after its loop is a variable of its own ---------------------------------------------

def _split_loop_vars(fn):
    order = {id(n): i for i, n in enumerate(_dfs(fn))}
    counter = _fresh
    loops = [n for n in _dfs(fn) if isinstance(n, (ast.For, ast.AsyncFor))]
    for lp in loops:
        inside = {id(x) for x in ast.walk(lp)}
        end = max(order.get(i, 0) for i in inside if i in order)
        outer = [a for a in _ancestors(fn, lp) if isinstance(a, (ast.For, ast.AsyncFor, ast.While))]
        k = next(counter)
        for j, t in enumerate([x for x in ast.walk(lp.target) if isinstance(x, ast.Name)]):
            name = t.id
            if name.startswith("_c") or name.startswith("_f"):
                continue
            live = False
            for x in _dfs(fn):
                if isinstance(x, ast.Name) and x.id == name and id(x) not in inside:
                    if isinstance(x.ctx, ast.Load) and order[id(x)] > end:
                        # a read inside a later loop that binds the same name reads that loop's own value
                        rebound = any(l2 is not lp and id(x) in {id(y) for y in ast.walk(l2)} and
                                      any(isinstance(t2, ast.Name) and t2.id == name for t2 in ast.walk(l2.target)) for l2 in loops)
                        if not rebound:
                            live = True
                    if outer and any(id(x) in {id(y) for y in ast.walk(o)} for o in outer):
                        live = True
            if live:
                continue
            new = f"_f{k}_{j}"
            for x in ast.walk(lp):
                if isinstance(x, ast.Name) and x.id == name:
                    x.id = new


def _split_webs(fn):
    """`x = E` that unconditionally overwrites a local whose old value is never read afterwards starts a variable of its own
    (so `m = load(m)` and `mod = load(m)` are the same program).  Applied to plain statements of a block; the rest of the
    block - and nothing else - may read the new value."""
    counter = _fresh
    changed = True
    while changed:
        changed = False
        params = {a.arg for a in fn.args.args + fn.args.kwonlyargs} if isinstance(fn, _FUNCS) else set()
        for owner, fld in [(o, f_) for n in _dfs(fn) if not isinstance(n, ast.expr) for o, f_ in _bodies(n)]:
            stmts = getattr(owner, fld)
            for i, s in enumerate(stmts):
                if not (isinstance(s, ast.Assign) and len(s.targets) == 1 and isinstance(s.targets[0], ast.Name)):
                    continue
                x = s.targets[0].id
                if x.startswith("_w") or x.startswith("_c") or x.startswith("_f"):
                    continue
                before = [n for t in stmts[:i] for n in ast.walk(t) if isinstance(n, ast.Name) and n.id == x]
                outside = [n for n in ast.walk(fn) if isinstance(n, ast.Name) and n.id == x and not any(n is m for t in stmts for m in ast.walk(t))]
                loops_ = [a for a in (_ancestors(fn, owner) + [owner]) if isinstance(a, (ast.For, ast.AsyncFor)) and any(isinstance(t, ast.Name) and t.id == x for t in ast.walk(a.target))]
                is_target = bool(loops_)
                defined_before = bool(before) or is_target or x in params
                if not defined_before:
                    continue
                # the old value must be dead: outside this block the name may only occur as an enclosing loop's own target
                if is_target:
                    outside = [n for n in outside if not any(n is m for m in ast.walk(loops_[-1].target))]
                if outside:
                    continue
                if x in params and not before and not is_target:
                    pass  # a parameter overwritten: allowed, the parameter keeps its name up to here
                # later stores in the block would need a further split: handle one at a time, the later ones in later rounds
                new = f"_w{next(counter)}"
                s.targets[0].id = new
                for t in stmts[i + 1:]:
                    for n in ast.walk(t):
                        if isinstance(n, ast.Name) and n.id == x:
                            n.id = new
                changed = True
                break
            if changed:
                break


def _dfs(node):
    yield node
    for ch in ast.iter_child_nodes(node):
        if isinstance(ch, (ast.expr_context, ast.operator, ast.boolop, ast.unaryop, ast.cmpop)):
            continue  # shared singletons: they have no position
        yield from _dfs(ch)


def _ancestors(root, target):
    path = []

    def rec(n, stack):
        if n is target:
            path.extend(stack)
            return True
        for ch in ast.iter_child_nodes(n):
            if rec(ch, stack + [n]):
                return True
        return False

    rec(root, [])
    return path


# ---- the normal form ----------------------------------------------------------------------------------------------------

def _format_to_fstring(fn):
    """`"a {x} b".format(x=E)` with plain `{name}` fields only -> f"a {E} b" (fields are evaluated left to right in both)."""
    import string

    for n in list(ast.walk(fn)):
        if isinstance(n, ast.Call) and isinstance(n.func, ast.Attribute) and n.func.attr == "format" and isinstance(n.func.value, ast.Constant) \
                and isinstance(n.func.value.value, str) and not n.args and n.keywords and all(k.arg for k in n.keywords):
            kw = {k.arg: k.value for k in n.keywords}
            try:
                parts = list(string.Formatter().parse(n.func.value.value))
            except ValueError:
                continue
            if any(f is not None and (f not in kw or spec or conv) for _, f, spec, conv in parts):
                continue
            used = [f for _, f, _, _ in parts if f is not None]
            if sorted(used) != sorted(kw) or [k.arg for k in n.keywords] != used and not all(is_pure(v) for v in kw.values()):
                continue
            values = []
            for lit, f, _, _ in parts:
                if lit:
                    values.append(ast.Constant(value=lit))
                if f is not None:
                    values.append(ast.FormattedValue(value=kw[f], conversion=-1, format_spec=None))
            new = ast.JoinedStr(values=values)
            n.__class__ = ast.JoinedStr
            n.__dict__.clear()
            n.__dict__.update(new.__dict__)


def _fold_constants(fn):
    """`"text" or X` is "text"; `None or X` is X (the constant operand decides without evaluating anything)."""
    changed = True
    while changed:
        changed = False
        for n in ast.walk(fn):
            if isinstance(n, ast.BoolOp) and isinstance(n.values[0], ast.Constant):
                c = n.values[0].value
                decides = bool(c) if isinstance(n.op, ast.Or) else not bool(c)
                new = n.values[0] if decides else (n.values[1] if len(n.values) == 2 else ast.BoolOp(op=n.op, values=n.values[1:]))
                n.__class__ = type(new)
                n.__dict__.clear()
                n.__dict__.update(new.__dict__)
                changed = True
                break


def _simplify_tests(fn):
    """`x in (a,)`-style trivia is left alone; only boolean constants folded after substitution."""
    for n in ast.walk(fn):
        if isinstance(n, ast.BoolOp):
            flat = []
            for v in n.values:
                flat += v.values if isinstance(v, ast.BoolOp) and type(v.op) is type(n.op) else [v]
            n.values = flat


def normal_form(fn, signatures: Optional[Dict[str, List[str]]] = None, helpers: Optional[Dict[str, ast.AST]] = None, in_class: bool = False):
    global _fresh
    _fresh = itertools.count()
    g = copy.deepcopy(fn)
    g.decorator_list = []
    _strip(g)
    _keyerror_to_membership(g)
    _propagate_pure(g)   # before conditional expressions become statements: `f = A if c else B` hoisted out of a loop goes back in
    for _ in range(5):
        before = ast.dump(g)
        _search_idioms(g)
        _nnf(g)
        _keyerror_to_membership(g)
        _propagate_pure(g)
        _expand_ifexp(g)
        _split_or_guards(g)
        _guards(g)
        _flip(g)
        _merge_ifs(g)
        if helpers:
            # after the structural rewrites, so that both dresses of a function offer the same call sites
            _inline_helpers(g, helpers, in_class)
            _strip(g)
        _expand_setdefault(g)
        _hoist_comprehensions(g)
        _expand_extend(g)
        _forward_temp_lists(g)
        _inline_temps(g)
        _split_tuple_assign(g)
        _coalesce_copies(g)
        _coalesce_branch_copies(g)
        _hoist_common_tail_return(g)
        _propagate_pure(g)
        _drop_tail_returns(g)
        _strip(g)
        _calls_style(g, signatures or {})
        _format_to_fstring(g)
        _fold_constants(g)
        _simplify_tests(g)
        if ast.dump(g) == before:
            break
    if helpers:
        for name_, h_ in list(helpers.items()):
            # a local function whose every call was replaced is dead code
            for st_ in list(g.body):
                if isinstance(st_, _FUNCS) and st_.name == name_ and not any(isinstance(x, ast.Name) and x.id == name_ for x in ast.walk(g) if x is not st_):
                    g.body.remove(st_)
    _split_webs(g)
    _split_loop_vars(g)
    ast.fix_missing_locations(g)
    return g
