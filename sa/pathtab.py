"""E3 - finite decision tables ("PathTab").

A small decision function is simulated on its CFG under every valuation of a
handful of named predicates.  Atomic tests are mapped to predicates through the
rule's atom map (canonical source text of the test, with single-assignment
locals inlined).  A test that cannot be mapped is explored *both ways* (sound
for the inclusion "observed terminal classes are within the specified ones":
the real behaviour is one of the explored paths), and is named in the
obligation's detail; with ``strict=True`` it is an ANALYSIS-ERROR instead.  The terminal class of each path is compared with the oracle transcribed
from the specification.  No repository code is executed and no solver is used:
this is abstract interpretation over a finite predicate domain.
"""
from __future__ import annotations

import ast
import itertools
from typing import Callable, Dict, Iterable, List, Optional, Sequence, Set, Tuple, Union

from .cfg import CFG, Node, Trace, build
from .model import AnalysisError, Func, unparse

MARK = "<"


def inline(expr, env: dict, depth: int = 6):
    """Return a copy of expr with local names replaced by the expressions last
    assigned to them on the current path (markers such as loop items are kept
    as names)."""
    if depth <= 0:
        return expr

    class T(ast.NodeTransformer):
        def visit_Name(self, node):
            if isinstance(node.ctx, ast.Load) and node.id in env:
                v = env[node.id]
                if v is None:
                    return node
                if isinstance(v, ast.Name) and v.id.startswith(MARK):
                    return node
                # avoid self reference
                for sub in ast.walk(v):
                    if isinstance(sub, ast.Name) and sub.id == node.id:
                        return node
                return inline(v, {k: w for k, w in env.items() if k != node.id}, depth - 1)
            return node

        def visit_Lambda(self, node):
            return node

    import copy

    return T().visit(copy.deepcopy(expr))


def canon(expr, env: dict = None) -> str:
    return unparse(inline(expr, env or {}))


class Atoms:
    """Maps canonical test text -> (predicate, polarity)."""

    def __init__(self, mapping: Dict[str, Union[str, Tuple[str, bool]]], strict: bool = False, ignore: Iterable[str] = ()):
        self.map: Dict[str, Tuple[str, bool]] = {}
        for k, v in mapping.items():
            if isinstance(v, str):
                if v.startswith("!"):
                    v = (v[1:], False)
                else:
                    v = (v, True)
            self.map[_norm(k)] = v
        self.strict = strict
        self.unmapped: List[str] = []
        self.used: Set[str] = set()
        # structural evaluators tried on the *inlined* expression before giving up:
        # callables (expr_ast, canonical_text) -> True / False / predicate name / "!name" / None
        self.funcs: List[Callable] = []
        # names of module-level `object()` sentinels (identity tests against them are decidable)
        self.sentinels: Set[str] = set()

    def note(self) -> str:
        """Text for obligation details: tests the table could not map (explored both ways)."""
        u = sorted(set(self.unmapped))
        return f"; unrecognised tests explored both ways: {u}" if u else ""

    def lookup(self, text: str) -> Optional[Tuple[str, bool]]:
        r = self.map.get(_norm(text))
        if r:
            self.used.add(_norm(text))
        return r


def _norm(text: str) -> str:
    try:
        return ast.unparse(ast.parse(text, mode="eval").body)
    except SyntaxError:
        return text.strip()


def evaluate(expr, env: dict, val: Dict[str, bool], atoms: Atoms, depth: int = 8) -> Optional[bool]:
    """Three-valued evaluation of a boolean expression under valuation ``val``."""
    if depth <= 0:
        return None
    if isinstance(expr, ast.BoolOp):
        results = [evaluate(v, env, val, atoms, depth) for v in expr.values]
        if isinstance(expr.op, ast.And):
            if any(r is False for r in results):
                return False
            if all(r is True for r in results):
                return True
            return None
        if any(r is True for r in results):
            return True
        if all(r is False for r in results):
            return False
        return None
    if isinstance(expr, ast.UnaryOp) and isinstance(expr.op, ast.Not):
        r = evaluate(expr.operand, env, val, atoms, depth)
        return None if r is None else (not r)
    if isinstance(expr, ast.Constant):
        return bool(expr.value)
    # direct lookup (raw text, then inlined text)
    for text in (unparse(expr), canon(expr, env)):
        hit = atoms.lookup(text)
        if hit:
            name, pol = hit
            if name not in val:
                return None
            return val[name] if pol else (not val[name])
    if isinstance(expr, ast.Name) and expr.id in env and env[expr.id] is not None:
        v = env[expr.id]
        if not (isinstance(v, ast.Name) and v.id.startswith(MARK)):
            return evaluate(v, {k: w for k, w in env.items() if k != expr.id}, val, atoms, depth - 1)
    if isinstance(expr, ast.Compare) and len(expr.ops) == 1:
        op = expr.ops[0]
        flipped = None
        if isinstance(op, ast.IsNot):
            flipped = ast.Compare(left=expr.left, ops=[ast.Is()], comparators=expr.comparators)
        elif isinstance(op, ast.NotIn):
            flipped = ast.Compare(left=expr.left, ops=[ast.In()], comparators=expr.comparators)
        elif isinstance(op, ast.NotEq):
            flipped = ast.Compare(left=expr.left, ops=[ast.Eq()], comparators=expr.comparators)
        if flipped is not None:
            for text in (unparse(flipped), canon(flipped, env)):
                hit = atoms.lookup(text)
                if hit:
                    name, pol = hit
                    if name not in val:
                        return None
                    r = val[name] if pol else (not val[name])
                    return not r
    # identity with a private sentinel (a module-level `object()`): the sentinel is itself, a looked-up value never is
    if isinstance(expr, ast.Compare) and len(expr.ops) == 1 and isinstance(expr.ops[0], (ast.Is, ast.IsNot)) and getattr(atoms, "sentinels", None):
        red = simplify(expr, env, val, atoms) or inline(expr, env)
        if isinstance(red, ast.Compare) and isinstance(red.comparators[0], ast.Name) and red.comparators[0].id in atoms.sentinels:
            same = None
            if isinstance(red.left, ast.Name) and red.left.id == red.comparators[0].id:
                same = True
            elif isinstance(red.left, ast.Subscript):
                same = False
            if same is not None:
                return same if isinstance(expr.ops[0], ast.Is) else not same
    # partial evaluation under the valuation: intermediates such as `v = n.value if n else None` / `d.get(k, U)` are
    # reduced with what the valuation says about their tests, then the reduced test is looked up again
    if depth > 2 and not isinstance(expr, ast.IfExp):
        red = simplify(expr, env, val, atoms)
        if red is not None:
            r = evaluate(red, {}, val, atoms, 2)
            if r is not None:
                return r
    if atoms.funcs:
        inl = inline(expr, env)
        txt = unparse(inl)
        for fn in atoms.funcs:
            r = fn(inl, txt)
            if r is None:
                continue
            if isinstance(r, bool):
                return r
            pol = not r.startswith("!")
            name = r.lstrip("!")
            if name not in val:
                return None
            return val[name] if pol else (not val[name])
    if isinstance(expr, ast.IfExp):
        c = evaluate(expr.test, env, val, atoms, depth - 1)
        if c is True:
            return evaluate(expr.body, env, val, atoms, depth - 1)
        if c is False:
            return evaluate(expr.orelse, env, val, atoms, depth - 1)
        return None
    atoms.unmapped.append(canon(expr, env))
    if atoms.strict:
        raise AnalysisError(f"unmapped test: {canon(expr, env)!r}")
    return None


def simplify(expr, env: dict, val: Dict[str, bool], atoms: Atoms):
    """`expr` with local names inlined and every sub-expression the valuation decides reduced: conditional expressions take the
    chosen branch, `isinstance(None, C)` is False, `d.get(k, default)` is `d[k]` / `default` when `k in d` is decided,
    `x or {}` is `x` when x is decided true.  Returns None when nothing changed."""
    import copy
    inl = inline(expr, env)
    before = unparse(inl)
    quiet = Atoms({})
    quiet.map, quiet.funcs, quiet.sentinels = atoms.map, atoms.funcs, getattr(atoms, "sentinels", set())

    class R(ast.NodeTransformer):
        def visit_Lambda(self, node):
            return node

        def visit_IfExp(self, node):
            self.generic_visit(node)
            c = evaluate(node.test, {}, val, quiet, 2)
            if c is True:
                return node.body
            if c is False:
                return node.orelse
            return node

        def visit_BoolOp(self, node):
            self.generic_visit(node)
            if isinstance(node.op, ast.Or) and len(node.values) == 2:
                c = evaluate(node.values[0], {}, val, quiet, 2)
                if c is True:
                    return node.values[0]
                if c is False:
                    return node.values[1]
            return node

        def visit_Call(self, node):
            self.generic_visit(node)
            if isinstance(node.func, ast.Name) and node.func.id == "isinstance" and len(node.args) == 2 and isinstance(node.args[0], ast.Constant) and node.args[0].value is None:
                return ast.Constant(value=False)
            if isinstance(node.func, ast.Attribute) and node.func.attr == "get" and len(node.args) in (1, 2) and not node.keywords:
                member = ast.Compare(left=node.args[0], ops=[ast.In()], comparators=[node.func.value])
                c = evaluate(member, {}, val, quiet, 2)
                if c is True:
                    return ast.Subscript(value=node.func.value, slice=node.args[0], ctx=ast.Load())
                if c is False:
                    return node.args[1] if len(node.args) == 2 else ast.Constant(value=None)
            return node

    out = R().visit(copy.deepcopy(inl))
    ast.fix_missing_locations(out)

    # a sub-expression the valuation identifies: `is_invalid_value(e)` true -> e is the undefined marker
    class K(ast.NodeTransformer):
        def visit_Lambda(self, node):
            return node

        def generic_visit(self, node):
            if isinstance(node, (ast.Call, ast.Subscript, ast.Attribute)) and isinstance(getattr(node, "ctx", ast.Load()), ast.Load):
                t = unparse(node)
                for probe, repl in ((f"is_invalid_value({t})", ast.Name(id="UNDEFINED_VALUE", ctx=ast.Load())),):
                    hit = quiet.lookup(probe)
                    if hit and hit[0] in val and (val[hit[0]] if hit[1] else not val[hit[0]]):
                        return repl
            return super().generic_visit(node)

    if not (isinstance(out, ast.Call) and isinstance(out.func, ast.Name) and out.func.id == "is_invalid_value") and not isinstance(out, ast.Compare):
        out = K().visit(out)
        ast.fix_missing_locations(out)
    return out if unparse(out) != before else None


def canon_under(expr, env: dict, val: Dict[str, bool], atoms: Atoms) -> str:
    """Canonical text of `expr` after partial evaluation under the valuation."""
    red = simplify(expr, env, val, atoms)
    return unparse(red) if red is not None else canon(expr, env)


class TableResult:
    def __init__(self):
        self.rows: List[dict] = []  # each: valuation, got, expected, ok
        self.mismatches: List[dict] = []
        self.valuations = 0
        self.paths = 0


def decision_table(
    func: Func,
    preds: Sequence[str],
    atoms: Atoms,
    classify: Callable[[Trace, Dict[str, bool]], str],
    oracle: Callable[[Dict[str, bool]], Union[None, str, Set[str]]],
    feasible: Callable[[Dict[str, bool]], bool] = lambda v: True,
    cfg: CFG = None,
    follow_exc=None,
) -> TableResult:
    cfg = cfg or build(func)
    res = TableResult()
    for bits in itertools.product([False, True], repeat=len(preds)):
        val = dict(zip(preds, bits))
        if not feasible(val):
            continue
        expected = oracle(val)
        if expected is None:
            continue
        res.valuations += 1

        def decide(node: Node, env: dict, _val=val):
            return evaluate(node.ast, env, _val, atoms)

        traces = cfg.simulate(decide, follow_exc=follow_exc)
        res.paths += len(traces)
        got = sorted({classify(t, val) for t in traces})
        exp_set = {expected} if isinstance(expected, str) else set(expected)
        ok = bool(got) and set(got) <= exp_set
        row = {"valuation": {k: v for k, v in val.items()}, "got": got, "expected": sorted(exp_set), "ok": ok}
        res.rows.append(row)
        if not ok:
            res.mismatches.append(row)
    return res


def fmt_val(v: Dict[str, bool]) -> str:
    return ",".join(f"{k}={'T' if b else 'F'}" for k, b in v.items())


def iteration_outcomes(cfg: CFG, loop_stmt, decide, label, into_handlers: bool = False) -> Set[frozenset]:
    """Simulates the function and, for every path that runs the body of ``loop_stmt`` once, returns the set of
    labels (``label(node) -> Optional[str]``) met inside that one iteration, plus "<return>" / "<raise>" when
    the iteration leaves the function."""
    head = cfg.node_of(loop_stmt)
    out: Set[frozenset] = set()
    follow = None
    if into_handlers:
        # statements protected by a handler may fail: the path into the handler is part of the iteration
        follow = lambda n, env: any(lab == "exc" and cfg.nodes[m].kind == "handler" for m, lab in cfg.succ[n.id])  # noqa: E731
    for tr in cfg.simulate(decide, follow_exc=follow):
        p = tr.path
        if head.id not in p:
            continue
        i = p.index(head.id)
        rest = p[i + 1:]
        if head.id in rest:
            body = rest[: rest.index(head.id)]
            tail = None
        else:
            body = rest
            tail = tr.exit_kind
        if not body:
            continue
        first = cfg.nodes[body[0]]
        # the iteration was entered iff the first node after the head is inside the loop body
        inside = any(first.ast is not None and any(x is first.ast for x in ast.walk(s)) for s in loop_stmt.body)
        if not inside:
            continue
        labs = set()
        for nid in body:
            n = cfg.nodes[nid]
            if n.ast is None:
                continue
            if not any(any(x is n.ast for x in ast.walk(s)) for s in loop_stmt.body):
                break  # left the loop body (code after the loop)
            l = label(n)
            if l:
                labs.add(l)
        else:
            if tail:
                labs.add("<return>" if tail == "return_exit" else "<raise>")
        out.add(frozenset(labs))
    return out


def eager_env(trace, caught: str = "CAUGHT", opaque=None) -> dict:
    """name -> expression it holds at the end of the path, every right-hand side resolved with the values the names had
    *when it was evaluated* (so `e = Wrap(e)` resolves to `Wrap(<previous e>)`).  A handler's variable is the name `caught`."""
    import copy

    sym: dict = {}

    def keep(v):
        """`opaque(value) -> role name | None`: a value the rule wants to see by role (the result of a producer call) is
        not expanded any further; the name of its role stands for it."""
        if opaque is not None:
            role = opaque(v)
            if role:
                return ast.Name(id=role, ctx=ast.Load())
        return v

    def sub(e):
        class T(ast.NodeTransformer):
            def visit_Name(self, node):
                if isinstance(node.ctx, ast.Load) and node.id in sym:
                    return copy.deepcopy(sym[node.id])
                return node

            def visit_Lambda(self, node):
                return node

        return T().visit(copy.deepcopy(e))

    nodes_ = trace.nodes
    tests = []
    sym["__tests__"] = tests
    for i_, n in enumerate(nodes_):
        if n.kind == "test" and i_ + 1 < len(nodes_):
            lab = [l for m, l in trace.cfg.succ[n.id] if m == nodes_[i_ + 1].id]
            rt = sub(n.ast)
            tests.append((unparse(rt), lab[0] if lab else "?"))
            sym.setdefault("__test_asts__", []).append(rt)
            continue
        if i_ + 1 < len(nodes_) and nodes_[i_ + 1].kind == "handler" and n.kind == "stmt":
            continue  # this statement raised: its assignment did not happen
        if n.kind == "handler" and n.ast.name:
            sym[n.ast.name] = ast.Name(id=caught, ctx=ast.Load())
        elif n.kind == "for":
            for t in ast.walk(n.ast.target):
                if isinstance(t, ast.Name):
                    sym.pop(t.id, None)
        elif n.kind == "stmt" and isinstance(n.ast, (ast.Assign, ast.AnnAssign)) and getattr(n.ast, "value", None) is not None:
            targets = n.ast.targets if isinstance(n.ast, ast.Assign) else [n.ast.target]
            v = sub(n.ast.value)
            for t in targets:
                if isinstance(t, (ast.Attribute, ast.Subscript)):
                    sym["@" + unparse(t)] = v  # queried by rules, never substituted
                if isinstance(t, ast.Name):
                    sym[t.id] = keep(v)
                elif isinstance(t, (ast.Tuple, ast.List)):
                    for i, e in enumerate(t.elts):
                        if isinstance(e, ast.Name):
                            sym[e.id] = keep(v.elts[i] if isinstance(v, (ast.Tuple, ast.List)) and len(v.elts) == len(t.elts) else ast.Subscript(value=v, slice=ast.Constant(value=i), ctx=ast.Load()))
        elif n.kind == "stmt" and isinstance(n.ast, ast.Expr) and isinstance(n.ast.value, ast.Call) and isinstance(n.ast.value.func, ast.Attribute) \
                and isinstance(n.ast.value.func.value, ast.Name) and n.ast.value.func.attr in ("append", "extend") and len(n.ast.value.args) == 1 \
                and isinstance(sym.get(n.ast.value.func.value.id), (ast.List, ast.BinOp)):
            # a local list built on this path: `x.append(E)` / `x.extend(Y)` are what x holds afterwards
            x = n.ast.value.func.value.id
            arg_ = sub(n.ast.value.args[0])
            cur = sym[x]
            if n.ast.value.func.attr == "append":
                sym[x] = ast.List(elts=list(cur.elts) + [arg_], ctx=ast.Load()) if isinstance(cur, ast.List) else ast.BinOp(left=cur, op=ast.Add(), right=ast.List(elts=[arg_], ctx=ast.Load()))
            elif isinstance(arg_, ast.List) and isinstance(cur, ast.List):
                sym[x] = ast.List(elts=list(cur.elts) + list(arg_.elts), ctx=ast.Load())
            elif isinstance(cur, ast.List) and not cur.elts:
                sym[x] = arg_  # extending the empty list: the elements of the argument
            else:
                sym[x] = ast.BinOp(left=cur, op=ast.Add(), right=arg_)
        elif n.kind == "stmt" and isinstance(n.ast, ast.AugAssign) and isinstance(n.ast.target, ast.Name):
            sym[n.ast.target.id] = ast.BinOp(left=sub(n.ast.target), op=n.ast.op, right=sub(n.ast.value))
    sym["__sub__"] = sub
    return sym


def _focus_decider(fv, focus):
    """For rules that only ask what a path stores into `focus` targets: an `if` that neither stores into one of them nor
    tests one of them is walked one way only (the way that does not leave the function)."""
    func = fv.func.node
    ifs = [n for n in ast.walk(func) if isinstance(n, (ast.If, ast.While))]

    def owner(test_ast):
        for st in ifs:
            if any(x is test_ast for x in ast.walk(st.test)):
                return st
        return None

    def relevant(st) -> bool:
        for x in ast.walk(st):
            if isinstance(x, (ast.Assign, ast.AugAssign, ast.AnnAssign)):
                tg = x.targets if isinstance(x, ast.Assign) else [x.target]
                if any(unparse(t) in focus for t in tg):
                    return True
        return any(isinstance(x, (ast.Name, ast.Attribute)) and unparse(x) in focus for x in ast.walk(st.test))

    cache = {}

    def dec(n, env):
        st = owner(n.ast)
        if st is None:
            return None
        if id(st) not in cache:
            if relevant(st):
                cache[id(st)] = None
            else:
                leaves = bool(st.body) and isinstance(st.body[-1], (ast.Raise, ast.Return, ast.Continue, ast.Break))
                cache[id(st)] = False if leaves or not st.orelse else True
        return cache[id(st)]

    return dec


def _literal_truth(a):
    if isinstance(a, (ast.List, ast.Tuple, ast.Set)):
        return bool(a.elts)
    if isinstance(a, ast.Dict):
        return bool(a.keys)
    if isinstance(a, ast.Constant):
        return bool(a.value)
    if isinstance(a, ast.BinOp) and isinstance(a.op, ast.Add) and isinstance(a.left, ast.List) and a.left.elts:
        return True
    if isinstance(a, ast.UnaryOp) and isinstance(a.op, ast.Not):
        t = _literal_truth(a.operand)
        return None if t is None else not t
    if isinstance(a, ast.Compare) and len(a.ops) == 1 and isinstance(a.ops[0], (ast.Is, ast.IsNot)) and isinstance(a.comparators[0], ast.Constant) and a.comparators[0].value is None:
        # identity with None of a value the path itself built: None is None; a display, or an object built by one of the package's
        # error constructors, is not
        is_none = None
        if isinstance(a.left, ast.Constant):
            is_none = a.left.value is None
        elif isinstance(a.left, (ast.List, ast.Tuple, ast.Dict, ast.Set, ast.JoinedStr)):
            is_none = False
        elif isinstance(a.left, ast.Call) and isinstance(a.left.func, ast.Name) and a.left.func.id in NEVER_NONE:
            is_none = False
        if is_none is not None:
            return is_none if isinstance(a.ops[0], ast.Is) else not is_none
    return None


# functions of the package that always answer an object (they end in a constructor call): confirmed by reading
NEVER_NONE = {"coercion_error", "graphql_error_from_nodes", "to_graphql_error", "CoercionResult", "CoercionError", "TartifletteError", "Path", "partial"}


def outcome_rows(fv, raising_stmts=(), decide=None, caught: str = "CAUGHT", focus=None, opaque=None):
    if focus is not None and decide is None:
        decide = _focus_decider(fv, set(focus))
    """One row per path of the function: the outcomes of its tests (each test resolved with the values its names held
    when it was evaluated), the handlers entered, how the path ends and the resolved return value.  `raising_stmts`:
    statements whose exceptional edges are followed."""
    rows = []
    rs = set(id(x) for x in raising_stmts)

    def dec(n, env):
        if decide is not None:
            d = decide(n, env)
            if d is not None:
                return d
        return None

    for tr in fv.cfg.simulate(dec, follow_exc=(lambda n, env: n.kind == "stmt" and id(n.ast) in rs) if rs else None):
        nodes = tr.nodes
        sym = eager_env(tr, caught, opaque)
        conds = list(sym["__tests__"])
        # infeasible paths: a value the path itself built decides its own test; one value cannot test both ways
        feasible = True
        seen_t = {}
        for (txt, out), a in zip(conds, sym.get("__test_asts__", [])):
            lit = _literal_truth(a)
            if lit is not None and (out == "T") != lit:
                feasible = False
            if seen_t.setdefault(txt, out) != out:
                feasible = False
        if not feasible:
            continue
        last = tr.last_stmt()
        ret = None
        if tr.exit_kind == "return_exit" and last is not None and isinstance(last.ast, ast.Return) and last.ast.value is not None:
            ret = sym["__sub__"](last.ast.value)
        rows.append({"conds": conds, "handlers": [n.ast for n in nodes if n.kind == "handler"], "exit": tr.exit_kind, "ret": ret, "sym": sym, "trace": tr,
                     "last": last.ast if last is not None else None})
    return rows


_OPP = {" is not ": " is ", " != ": " == ", " not in ": " in "}


def truth(row, positive_text: str):
    """'T' / 'F' for a test given in positive spelling (`a is b`), whichever spelling the code uses (`a is not b`, `not a is b`)."""
    r = cond_of(row, positive_text)
    if r is not None:
        return r
    for neg, pos in _OPP.items():
        if pos in positive_text:
            r = cond_of(row, positive_text.replace(pos, neg, 1))
            if r is not None:
                return "F" if r == "T" else "T"
    r = cond_of(row, f"not {positive_text}")
    if r is not None:
        return "F" if r == "T" else "T"
    return None


def cond_of(row, text: str):
    """Outcome ('T' / 'F') of the last test of the path whose resolved text equals `text` (spaces ignored), else None."""
    t = text.replace(" ", "")
    hit = [o for c, o in row["conds"] if c.replace(" ", "") == t]
    return hit[-1] if hit else None


def instance_fact(row, subject: str, cls: str):
    """What the path knows about `isinstance(subject, cls)`: 'T', 'F', 'MAYBE' (true for a tuple naming cls among others) or None (never tested).
    Reads `isinstance(s, C)`, `isinstance(s, (A, B))`, `type(s) is C` and their negations, on the resolved test texts."""
    fact = None
    for txt, out in row["conds"]:
        try:
            e = ast.parse(txt, mode="eval").body
        except SyntaxError:
            continue
        neg = False
        while isinstance(e, ast.UnaryOp) and isinstance(e.op, ast.Not):
            e, neg = e.operand, not neg
        holds = (out == "T") != neg
        classes = None
        if isinstance(e, ast.Call) and isinstance(e.func, ast.Name) and e.func.id == "isinstance" and len(e.args) == 2 and ast.unparse(e.args[0]) == subject:
            c = e.args[1]
            classes = [ast.unparse(x) for x in c.elts] if isinstance(c, ast.Tuple) else [ast.unparse(c)]
        if classes is None or cls not in classes:
            continue
        if not holds:
            fact = "F"
        elif len(classes) == 1:
            fact = "T"
        elif fact is None:
            fact = "MAYBE"
    return fact
