"""Benign sweep (thorough tier, exploration evidence - not a verdict): behaviour-preserving edits of the functions a
property is anchored in must leave every rule silent.

Operators (each applied in memory, one at a time):
  RENAME   a local variable gets another name
  RETTEMP  `return E` becomes `t = E; return t`
  FLIP     `if c: A else: B` becomes `if not c: B else: A`
  NOOP     a log line is inserted at the function's entry
  MSG      every message-like string constant is reworded
  CMPSWAP  the operands of `==` / `!=` are swapped
  ANNOT    a local assignment gets a type annotation

An alarm here is a defect of the checker (a rule that keys on spelling instead of structure), never of /repo; the count
and the offending rules are written to the evidence file under `benign_sweep`.
"""
from __future__ import annotations

import ast
import os
import time
from concurrent.futures import ProcessPoolExecutor
from typing import List, Optional, Tuple

from .model import REPO_ROOT, Repo
from .sweep import _func_node

OPS = ("RENAME", "RETTEMP", "FLIP", "NOOP", "MSG", "CMPSWAP", "ANNOT")


def _locals(fn) -> List[str]:
    from .alpha import locals_in_order

    return locals_in_order(fn)


def _sites(fn) -> List[Tuple[str, object]]:
    out: List[Tuple[str, object]] = []
    nodes = list(ast.walk(fn))
    for nm in _locals(fn):
        out.append(("RENAME", nm))
    for i, n in enumerate(nodes):
        if isinstance(n, ast.If) and n.orelse and not (len(n.orelse) == 1 and isinstance(n.orelse[0], ast.If)):
            out.append(("FLIP", i))
        if isinstance(n, ast.Return) and isinstance(n.value, (ast.Call, ast.Await)):
            out.append(("RETTEMP", i))
        if isinstance(n, ast.Compare) and len(n.ops) == 1 and isinstance(n.ops[0], (ast.Eq, ast.NotEq)) and not isinstance(n.comparators[0], ast.Constant):
            out.append(("CMPSWAP", i))
        if isinstance(n, ast.Assign) and len(n.targets) == 1 and isinstance(n.targets[0], ast.Name) and ("ANNOT", None) not in [(o, None) for o, _ in out if o == "ANNOT"]:
            out.append(("ANNOT", i))
    out.append(("NOOP", 0))
    if any(isinstance(n, ast.Constant) and isinstance(n.value, str) and " " in n.value and len(n.value) > 12 for n in nodes):
        out.append(("MSG", 0))
    return out


def _apply(fn, op: str, arg) -> Optional[str]:
    nodes = list(ast.walk(fn))
    if op == "RENAME":
        new = f"{arg}_rn"
        for n in nodes:
            if isinstance(n, ast.Name) and n.id == arg:
                n.id = new
            if isinstance(n, ast.ExceptHandler) and n.name == arg:
                n.name = new
        return f"rename local `{arg}`"
    n = nodes[arg]
    if op == "FLIP":
        n.test = n.test.operand if isinstance(n.test, ast.UnaryOp) and isinstance(n.test.op, ast.Not) else ast.UnaryOp(op=ast.Not(), operand=n.test)
        n.body, n.orelse = n.orelse, n.body
        return "flip if/else"
    if op == "RETTEMP":
        tmp = ast.Assign(targets=[ast.Name(id="_ret_tmp", ctx=ast.Store())], value=n.value)
        new = ast.Return(value=ast.Name(id="_ret_tmp", ctx=ast.Load()))
        for parent in ast.walk(fn):
            for _, value in ast.iter_fields(parent):
                if isinstance(value, list):
                    for j, v in enumerate(value):
                        if v is n:
                            value[j:j + 1] = [tmp, new]
                            return "return through a temporary"
        return None
    if op == "CMPSWAP":
        n.left, n.comparators[0] = n.comparators[0], n.left
        return "swap the operands of == / !="
    if op == "ANNOT":
        for parent in ast.walk(fn):
            for _, value in ast.iter_fields(parent):
                if isinstance(value, list):
                    for j, v in enumerate(value):
                        if v is n:
                            value[j] = ast.AnnAssign(target=n.targets[0], annotation=ast.Constant(value="Any"), value=n.value, simple=1)
                            return "annotate a local assignment"
        return None
    if op == "NOOP":
        k = 1 if (fn.body and isinstance(fn.body[0], ast.Expr) and isinstance(fn.body[0].value, ast.Constant)) else 0
        fn.body.insert(k, ast.Expr(value=ast.Call(func=ast.Attribute(value=ast.Name(id="logger", ctx=ast.Load()), attr="debug", ctx=ast.Load()),
                                                  args=[ast.Constant(value="enter")], keywords=[])))
        return "log line at entry"
    if op == "MSG":
        doc = fn.body[0].value if fn.body and isinstance(fn.body[0], ast.Expr) and isinstance(fn.body[0].value, ast.Constant) else None
        k = 0
        for x in nodes:
            if isinstance(x, ast.Constant) and isinstance(x.value, str) and " " in x.value and len(x.value) > 12 and x is not doc:
                x.value = "Reworded: " + x.value.upper()
                k += 1
        return "reword messages" if k else None
    return None


def _run(args):
    prop, rel, qual, op, arg, root, base_fail = args
    from . import q
    from .__main__ import run_check

    q._cfg_cache.clear()
    tree = ast.parse(open(os.path.join(root, rel), encoding="utf-8").read())
    fn = _func_node(tree, qual)
    if fn is None:
        return None
    try:
        d = _apply(fn, op, arg)
        if d is None:
            return None
        ast.fix_missing_locations(tree)
        src = ast.unparse(tree)
        repo = Repo(root, overrides={rel: src})
        ck = run_check(prop, "quick", repo=repo, write=False, quiet=True, hygiene=False)
    except Exception as e:  # an operator that does not apply cleanly is not evidence either way
        return {"op": op, "func": f"{rel.split('/')[-1]}::{qual}", "status": "n/a", "what": type(e).__name__}
    bad = [o for o in ck.obligations if not o.ok and o.key() not in base_fail]
    status = "alarm" if bad or ck.errors else "silent"
    return {"op": op, "func": f"{rel.split('/')[-1]}::{qual}", "status": status, "what": d, "rules": sorted({f"{o.rule} {(o.construct or '')[:50]}" for o in bad})[:3] + [e[:80] for e in ck.errors][:1]}


def sweep(prop: str, anchors, root: str = None, jobs: int = 16) -> dict:
    from .__main__ import run_check

    root = root or REPO_ROOT
    t0 = time.time()
    base = run_check(prop, "quick", write=False, quiet=True, hygiene=False)
    base_fail = {o.key() for o in base.obligations if not o.ok}
    work = []
    for rel, qual in anchors:
        path = os.path.join(root, rel)
        if not os.path.exists(path):
            continue
        fn = _func_node(ast.parse(open(path, encoding="utf-8").read()), qual)
        if fn is None or not isinstance(fn, (ast.FunctionDef, ast.AsyncFunctionDef)):
            continue
        for op, arg in _sites(fn):
            work.append((prop, rel, qual, op, arg, root, base_fail))
    with ProcessPoolExecutor(max_workers=jobs) as ex:
        res = [r for r in ex.map(_run, work, chunksize=4) if r is not None and r["status"] != "n/a"]
    by_op = {}
    for r in res:
        d = by_op.setdefault(r["op"], {"edits": 0, "silent": 0})
        d["edits"] += 1
        d["silent"] += r["status"] == "silent"
    alarms = [r for r in res if r["status"] == "alarm"]
    return {"property": prop, "edits": len(res), "silent": len(res) - len(alarms), "alarms": len(alarms), "by_operator": by_op,
            "alarm_list": [f"{r['op']} {r['func']} ({r['what']}): {r['rules']}" for r in alarms][:20], "wall_s": round(time.time() - t0, 1)}
