"""Shared model of the query-validation wiring (C06, C07): the rule classes,
RULE_SET, the ``validators.validate(...)`` call sites of the JSON->AST
transformer and the context keys written there."""
from __future__ import annotations

import ast
import re
from typing import Dict, List, Optional, Set, Tuple

from .model import AnalysisError, Class, Func, Repo, dotted, unparse, walk_no_nested
from .q import FuncView, arg, callee_last, kwargs

TRANS = "tartiflette/language/parsers/libgraphqlparser/transformers.py"
RULES_PKG = "tartiflette/language/validators/query/"
RULE_BASE = "tartiflette.language.validators.query.rule.ValidationRule"
DOC = "docs/graphql-query-rules-supported.md"


class Site:
    def __init__(self, func: Func, call: ast.Call, rule: Optional[str], kw: Dict[str, ast.expr]):
        self.func = func
        self.call = call
        self.rule = rule
        self.kw = kw


class Wiring:
    def __init__(self, repo: Repo):
        self.repo = repo
        self.trans = repo.mod(TRANS)
        # rule classes
        self.rule_classes: Dict[str, Class] = {}
        for c in repo.subclasses(RULE_BASE):
            name = repo.find_class_attr(c, "RULE_NAME")
            if "RULE_NAME" in c.class_attrs and isinstance(name, ast.Constant) and isinstance(name.value, str):
                self.rule_classes[name.value] = c
        # RULE_SET
        init = repo.mod(RULES_PKG + "__init__.py")
        rs = init.assigns.get("RULE_SET")
        if not isinstance(rs, ast.Dict):
            raise AnalysisError("RULE_SET dict literal not found")
        self.rule_set: Dict[str, Tuple[str, ast.Call]] = {}
        self.rule_set_mismatch: List[str] = []
        for k, v in zip(rs.keys, rs.values):
            kd = dotted(k)
            if not (kd and kd.endswith(".RULE_NAME") and isinstance(v, ast.Call)):
                raise AnalysisError(f"RULE_SET entry of unreadable shape: {unparse(k)}")
            kcls = repo.lookup(repo.resolve_name(init, kd.rsplit(".", 1)[0]))
            vcls = repo.lookup(repo.resolve_name(init, dotted(v.func) or ""))
            if not isinstance(kcls, Class) or not isinstance(vcls, Class):
                raise AnalysisError(f"RULE_SET entry does not resolve to classes: {unparse(k)}")
            if kcls is not vcls:
                self.rule_set_mismatch.append(f"{kcls.name} key maps to {vcls.name} instance")
            name = repo.find_class_attr(kcls, "RULE_NAME")
            self.rule_set[name.value] = (vcls.name, v)
        # validate sites
        self.sites: List[Site] = []
        for f in self.trans.funcs.values():
            for c in FuncView(f).calls("validate"):
                if not (isinstance(c.func, ast.Attribute) and unparse(c.func.value) == "validators"):
                    continue
                r = arg(c, 0, "rule")
                rule = r.value if isinstance(r, ast.Constant) and isinstance(r.value, str) else None
                kw = {k: v for k, v in kwargs(c).items() if k != "rule"}
                self.sites.append(Site(f, c, rule, kw))
        # ctx keys
        self.ctx_writes: Dict[str, List[Tuple[Func, ast.AST]]] = {}
        for f in self.trans.funcs.values():
            for n in walk_no_nested(f.node):
                key = None
                if isinstance(n, ast.Assign):
                    for t in n.targets:
                        if isinstance(t, ast.Subscript) and unparse(t.value) == "validators.ctx" and isinstance(t.slice, ast.Constant):
                            key = t.slice.value
                elif isinstance(n, ast.Call) and callee_last(n) == "setdefault" and unparse(n.func.value) == "validators.ctx" and n.args and isinstance(n.args[0], ast.Constant):
                    key = n.args[0].value
                if key is not None:
                    self.ctx_writes.setdefault(key, []).append((f, n))

    def validate_method(self, rule_name: str) -> Func:
        c = self.rule_classes.get(rule_name)
        if c is None:
            raise AnalysisError(f"rule class for {rule_name} not found")
        m = self.repo.find_method(c, "validate")
        if m is None:
            raise AnalysisError(f"{c.name}.validate not found")
        return m

    def sites_of(self, rule_name: str) -> List[Site]:
        return [s for s in self.sites if s.rule == rule_name]


def doc_rule_numbers(repo: Repo) -> Set[str]:
    text = repo.read_text(DOC)
    return set(re.findall(r"^#+ .*\(([0-9]+(?:\.[0-9]+)+)\)\s*$", text, flags=re.M))


def signature(m: Func):
    a = m.node.args
    pos = [x.arg for x in a.posonlyargs + a.args if x.arg != "self"]
    ndef = len(a.defaults)
    required = pos[: len(pos) - ndef] if ndef else list(pos)
    optional = pos[len(pos) - ndef:] if ndef else []
    for x, d in zip(a.kwonlyargs, a.kw_defaults):
        (optional if d is not None else required).append(x.arg)
    return required, optional, a.kwarg is not None
