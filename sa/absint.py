"""E13 - abstract evaluation of bake-time *builders* over a finite shape domain.

The three wrapper-chain builders (get_output_coercer / get_input_coercer / get_literal_coercer) are pure functions from
a type expression to a composition of partial applications.  Their correctness is an equation between *terms*:

    C(named)      = named.<slot>                    (or the do-nothing lambda when the type has no such slot)
    C(list of t)  = partial(<list coercer>, <side-specific keywords>, inner_coercer=C(t))
    C(t!)         = partial(<non-null coercer>, <side-specific keywords>, inner_coercer=C(t))

and a program can realise it as a reverse fold over collected wrappers, a second loop over collected types, a recursion,
a `reduce` ... - shapes a syntactic rule would have to enumerate.  Here the builder's AST is *interpreted* over an abstract
domain instead: types are descriptors (named / list / non-null, nothing else), functions of other modules are symbols,
`partial` builds a term.  Every branch test of a builder is decided by the descriptor, so the interpretation is a plain
walk; the result is compared with the specification term.  No repository code is imported or executed - the interpreter
below is the only thing that runs, over AST nodes and terms.  The check is bounded: every wrapper sequence up to a given
depth (the builders treat all levels alike: the rule also requires that they contain no integer arithmetic, `len`, or
depth counters, so a deeper nesting goes through the same statements).
An unsupported construct is an ANALYSIS-ERROR, never a silent pass.
"""
from __future__ import annotations

import ast
import itertools
from typing import Any, Dict, List, Optional

from .model import AnalysisError, unparse


class Unsupported(Exception):
    pass


class PyRaise(Exception):
    def __init__(self, name, text="", value=None):
        super().__init__(name)
        self.name = name
        self.text = text
        self.value = value   # the abstract exception object, when the failure was modelled by one


class _Return(Exception):
    def __init__(self, value):
        self.value = value


class _Break(Exception):
    pass


class _Continue(Exception):
    pass


class TypeV:
    """named | list of inner | non-null inner"""

    def __init__(self, kind, inner=None, name="T", has_slot=True):
        self.kind, self.inner, self.name, self.has_slot = kind, inner, name, has_slot

    def __repr__(self):
        if self.kind == "named":
            return self.name if self.has_slot else self.name + "(no coercer)"
        return f"[{self.inner!r}]" if self.kind == "list" else f"{self.inner!r}!"


class RecV:
    """An abstract record: an instance of class `cls` (a name) with the given attributes; other attributes are symbols,
    methods are looked up in the repository class when the interpreter was given one for that name."""

    def __init__(self, cls, bases=(), **attrs):
        self.cls, self.bases, self.attrs = cls, tuple(bases), attrs

    def __repr__(self):
        return self.attrs.get("_label") or f"<{self.cls}>"


class SetV(list):
    """A set of terms: a list kept free of duplicates (by normal form), iterated in insertion order."""

    def add_(self, x):
        if not any(norm(x) == norm(y) for y in self):
            self.append(x)

    @classmethod
    def of(cls, items):
        s = cls()
        for x in items:
            s.add_(x)
        return s


class Sym:
    def __init__(self, text):
        self.text = text

    def __repr__(self):
        return self.text


class App:
    def __init__(self, func, args, kwargs):
        self.func, self.args, self.kwargs = func, args, kwargs

    def __repr__(self):
        a = [repr(x) for x in self.args] + [f"{k}={v!r}" for k, v in self.kwargs.items()]
        return f"{self.func!r}({', '.join(a)})"


class PartialV:
    def __init__(self, func, args, kwargs):
        if isinstance(func, PartialV):  # functools flattens
            args = tuple(func.args) + tuple(args)
            kwargs = {**func.kwargs, **kwargs}
            func = func.func
        self.func, self.args, self.kwargs = func, tuple(args), dict(kwargs)

    def __repr__(self):
        a = [repr(self.func)] + [repr(x) for x in self.args] + [f"{k}={v!r}" for k, v in sorted(self.kwargs.items())]
        return f"partial({', '.join(a)})"


class LambdaV:
    def __init__(self, node, env):
        self.node, self.env = node, env

    def __repr__(self):
        return f"<lambda: {unparse(self.node.body)}>"


class FuncV:
    def __init__(self, node, env, name):
        self.node, self.env, self.name = node, env, name

    def __repr__(self):
        return f"<function {self.name}>"


class BoundV:
    """A bound method of a concrete list / dict (`add = xs.append`)."""

    def __init__(self, recv, name):
        self.recv, self.name = recv, name

    def __repr__(self):
        return f"<bound {self.name}>"


LIST_METHODS = {"append", "insert", "extend", "pop", "reverse", "copy", "index", "count", "clear", "remove"}
DICT_METHODS = {"get", "items", "keys", "values", "update", "setdefault", "pop", "copy", "clear", "popitem"}


class Env:
    def __init__(self, parent=None):
        self.vars: Dict[str, Any] = {}
        self.parent = parent

    def get(self, name):
        e = self
        while e is not None:
            if name in e.vars:
                return True, e.vars[name]
            e = e.parent
        return False, None


def norm(v):
    """A hashable normal form of a term (keyword order does not matter, a type is its spelling)."""
    if isinstance(v, TypeV):
        return ("type", repr(v))
    if isinstance(v, Sym):
        return ("sym", v.text)
    if isinstance(v, PartialV):
        return ("partial", norm(v.func), tuple(norm(a) for a in v.args), frozenset((k, norm(x)) for k, x in v.kwargs.items()))
    if isinstance(v, App):
        return ("app", norm(v.func), tuple(norm(a) for a in v.args), frozenset((k, norm(x)) for k, x in v.kwargs.items()))
    if isinstance(v, LambdaV):
        return ("lambda", unparse(v.node.body))
    if isinstance(v, RecV):
        return ("rec", id(v))
    if isinstance(v, FuncV):
        return ("function", v.name)
    if isinstance(v, SetV):
        return ("set", frozenset(norm(x) for x in v))
    if isinstance(v, (list, tuple)):
        return (type(v).__name__,) + tuple(norm(x) for x in v)
    if isinstance(v, dict):
        return ("dict", frozenset((k, norm(x)) for k, x in v.items()))
    return v


SLOTS = ("output_coercer", "input_coercer", "literal_coercer")
BUILTINS = {"str", "repr", "dict", "set", "frozenset", "sorted", "any", "all", "partial", "reduce", "reversed", "list", "tuple", "isinstance", "getattr", "hasattr", "enumerate", "zip", "bool", "len", "iter", "next", "callable"}


class Interp:
    def __init__(self, repo, module, fuel: int = 4000, classes=None, interpret=(), stubs=None):
        self.repo, self.module, self.fuel = repo, module, fuel
        self.stubs = stubs or {}           # dotted name -> python callable(args, kwargs) modelling a library function
        self.genv = Env()
        self.classes = classes or {}       # class name -> model.Class whose methods may be interpreted
        self.interpret = set(interpret)    # dotted names of small library functions to interpret rather than keep symbolic

    # ------------------------------------------------------------------ values
    def truth(self, v) -> bool:
        if isinstance(v, (bool, int, str, list, tuple, dict, type(None))):
            return bool(v)
        return True  # objects (types, functions, partials) are truthy

    def attr(self, v, name, node):
        if isinstance(v, TypeV):
            if name == "is_wrapping_type":
                return v.kind != "named"
            if name == "is_list_type":
                return v.kind == "list"
            if name == "is_non_null_type":
                return v.kind == "nonnull"
            if name in ("wrapped_type", "gql_type", "ofType"):
                if v.kind == "named":
                    raise PyRaise("AttributeError", name)
                return v.inner
            if name in SLOTS:
                if v.kind == "named" and v.has_slot:
                    return Sym(f"{v.name}.{name}")
                raise PyRaise("AttributeError", name)
            if name == "is_named_type":
                return v.kind == "named"
            return Sym(f"{v!r}.{name}")
        if isinstance(v, RecV):
            if name in v.attrs:
                return v.attrs[name]
            if v.attrs.get("_strict") and not name.startswith("__"):
                c0 = self.classes.get(v.cls)
                if c0 is None or self.repo.find_method(c0, name) is None:
                    raise PyRaise("AttributeError", name)
            c = self.classes.get(v.cls)
            m = self.repo.find_method(c, name) if c is not None else None
            if m is not None:
                return PartialV(FuncV(m.node, self.genv, m.qualname), (v,), {})
            return Sym(f"{v!r}.{name}")
        if isinstance(v, list) and name in LIST_METHODS:
            return BoundV(v, name)
        if isinstance(v, dict) and name in DICT_METHODS:
            return BoundV(v, name)
        if isinstance(v, (list, tuple, dict, str, int, bool, type(None))):
            raise PyRaise("AttributeError", name)
        if isinstance(v, PartialV):
            if name == "func":
                return v.func
            if name == "keywords":
                return dict(v.kwargs)
            if name == "args":
                return tuple(v.args)
        if isinstance(v, Sym):
            return Sym(f"{v.text}.{name}")
        if isinstance(v, App):
            return Sym(f"{v!r}.{name}")
        raise Unsupported(f"attribute .{name} of {type(v).__name__} at line {getattr(node, 'lineno', '?')}")

    def lookup(self, name, env, node):
        ok, v = env.get(name)
        if ok:
            return v
        m = self.module
        if name in m.funcs and m.funcs[name].parent is None and m.funcs[name].cls is None:
            d0 = self.repo.resolve_name(m, name)
            if d0 in self.stubs:
                return Sym(d0)
            return FuncV(m.funcs[name].node, self.genv, name)
        if name in ("None", "True", "False"):
            return {"None": None, "True": True, "False": False}[name]
        if name in m.assigns and isinstance(m.assigns[name], (ast.Dict, ast.Tuple, ast.List, ast.Constant)):
            # a module-level table of constants / names: evaluated once, in the module's own scope
            ok, cached = self.genv.get("__const__" + name)
            if not ok:
                cached = self.eval(m.assigns[name], self.genv)
                self.genv.vars["__const__" + name] = cached
            return cached
        dotted = self.repo.resolve_name(m, name)
        return Sym(dotted or name)

    # ------------------------------------------------------------------ calls
    def call(self, f, args, kwargs, node):
        self.fuel -= 1
        if self.fuel <= 0:
            raise Unsupported("evaluation does not terminate within the budget")
        if isinstance(f, BoundV):
            return self.method(f.recv, f.name, list(args), dict(kwargs), node)
        if isinstance(f, PartialV):
            return self.call(f.func, list(f.args) + list(args), {**f.kwargs, **kwargs}, node)
        if isinstance(f, LambdaV):
            env = Env(f.env)
            self.bind(f.node.args, args, kwargs, env, f.env)
            return self.eval(f.node.body, env)
        if isinstance(f, FuncV):
            from .model import walk_no_nested
            is_gen = any(isinstance(x, (ast.Yield, ast.YieldFrom)) for x in walk_no_nested(f.node))
            env = Env(f.env)
            self.bind(f.node.args, args, kwargs, env, f.env)
            if is_gen:
                env.vars["__yields__"] = []   # laziness is not modelled: a generator is the list of what it yields
            try:
                self.block(f.node.body, env)
            except _Return as r:
                return env.vars["__yields__"] if is_gen else r.value
            return env.vars["__yields__"] if is_gen else None
        if isinstance(f, Sym) and f.text in self.stubs:
            return self.stubs[f.text](args, kwargs)
        if isinstance(f, Sym) and (f.text in self.interpret or any(p.endswith(".*") and f.text.startswith(p[:-1]) for p in self.interpret)):
            target = self.repo.lookup(f.text)
            if target is not None and hasattr(target, "node") and isinstance(target.node, ast.FunctionDef):
                sub = Interp(self.repo, target.module, self.fuel, self.classes, self.interpret, self.stubs)
                sub.genv = Env()
                r = sub.call(FuncV(target.node, sub.genv, target.name), args, kwargs, node)
                self.fuel = sub.fuel
                return r
        if isinstance(f, (Sym, App)):
            return App(f, list(args), dict(kwargs))
        if f is None or isinstance(f, (bool, int, str, list, tuple, dict)):
            raise PyRaise("TypeError", f"'{type(f).__name__}' object is not callable")
        raise Unsupported(f"call of {type(f).__name__} at line {getattr(node, 'lineno', '?')}")

    def method(self, recv, m, args, kwargs, node):
        if isinstance(recv, SetV):
            def has(x):
                return any(norm(x) == norm(y) for y in recv)
            if m == "add":
                recv.add_(args[0])
                return None
            if m in ("discard", "remove"):
                hits = [i for i, y in enumerate(recv) if norm(y) == norm(args[0])]
                if hits:
                    del recv[hits[0]]
                elif m == "remove":
                    raise PyRaise("KeyError")
                return None
            if m == "update":
                for a in args:
                    for x in list(a):
                        recv.add_(x)
                return None
            if m == "union":
                return SetV.of(list(recv) + [x for a in args for x in list(a)])
            if m in ("intersection", "difference", "intersection_update", "difference_update"):
                other = [norm(x) for a in args for x in list(a)]
                keep = [y for y in recv if (norm(y) in other) == m.startswith("intersection")]
                if m.endswith("_update"):
                    recv[:] = keep
                    return None
                return SetV.of(keep)
            if m in ("issubset", "issuperset", "isdisjoint"):
                other = [norm(x) for x in list(args[0])]
                mine = [norm(y) for y in recv]
                if m == "issubset":
                    return all(y in other for y in mine)
                if m == "issuperset":
                    return all(x in mine for x in other)
                return not any(y in other for y in mine)
            if m == "copy":
                return SetV.of(recv)
            if m == "clear":
                del recv[:]
                return None
            if m == "pop":
                if not recv:
                    raise PyRaise("KeyError")
                return list.pop(recv, 0)
            raise PyRaise("AttributeError", f"set.{m}")
        if isinstance(recv, list):
            if m == "append":
                recv.append(args[0])
                return None
            if m == "insert":
                recv.insert(args[0], args[1])
                return None
            if m == "extend":
                recv.extend(list(args[0]))
                return None
            if m == "pop":
                try:
                    return recv.pop(*args)
                except IndexError:
                    raise PyRaise("IndexError")
            if m == "reverse":
                recv.reverse()
                return None
            if m == "copy":
                return list(recv)
            if m == "clear":
                recv.clear()
                return None
            if m in ("index", "count", "remove"):
                hits = [i for i, x in enumerate(recv) if norm(x) == norm(args[0])]
                if m == "count":
                    return len(hits)
                if not hits:
                    raise PyRaise("ValueError")
                if m == "index":
                    return hits[0]
                del recv[hits[0]]
                return None
            raise PyRaise("AttributeError", f"list.{m}")
        if isinstance(recv, dict):
            if m == "get":
                return recv.get(args[0], args[1] if len(args) > 1 else None)
            if m in ("items", "keys", "values"):
                return [tuple(x) if m == "items" else x for x in getattr(recv, m)()]
            if m == "update":
                src = args[0] if args else {}
                if isinstance(src, dict):
                    recv.update(src)
                else:
                    for k, v in list(src):
                        recv[k] = v
                recv.update(kwargs)
                return None
            if m == "setdefault":
                return recv.setdefault(args[0], args[1] if len(args) > 1 else None)
            if m == "pop":
                if args[0] in recv:
                    return recv.pop(args[0])
                if len(args) > 1:
                    return args[1]
                raise PyRaise("KeyError")
            if m == "popitem":
                if not recv:
                    raise PyRaise("KeyError")
                return tuple(recv.popitem())
            if m == "copy":
                return dict(recv)
            if m == "clear":
                recv.clear()
                return None
            raise PyRaise("AttributeError", f"dict.{m}")
        raise Unsupported(f"method {m}")

    def bind(self, a: ast.arguments, args, kwargs, env, defenv):
        params = [x.arg for x in a.posonlyargs + a.args]
        defaults = a.defaults
        kwargs = dict(kwargs)
        args = list(args)
        for i, p in enumerate(params):
            if i < len(args):
                env.vars[p] = args[i]
            elif p in kwargs:
                env.vars[p] = kwargs.pop(p)
            else:
                di = i - (len(params) - len(defaults))
                if di < 0:
                    raise PyRaise("TypeError", f"missing argument {p}")
                env.vars[p] = self.eval(defaults[di], defenv)
        rest = args[len(params):]
        if a.vararg:
            env.vars[a.vararg.arg] = tuple(rest)
        elif rest:
            raise PyRaise("TypeError", "too many positional arguments")
        for k, d in zip(a.kwonlyargs, a.kw_defaults):
            if k.arg in kwargs:
                env.vars[k.arg] = kwargs.pop(k.arg)
            elif d is not None:
                env.vars[k.arg] = self.eval(d, defenv)
            else:
                raise PyRaise("TypeError", f"missing keyword argument {k.arg}")
        if a.kwarg:
            env.vars[a.kwarg.arg] = kwargs
        elif kwargs:
            raise PyRaise("TypeError", f"unexpected keyword arguments {sorted(kwargs)}")

    def builtin(self, name, args, kwargs, node, env):
        if name == "partial":
            if not args:
                raise PyRaise("TypeError", "partial()")
            return PartialV(args[0], args[1:], kwargs)
        if name == "reduce":
            fn, seq = args[0], list(args[1])
            if len(args) > 2:
                acc = args[2]
            else:
                if not seq:
                    raise PyRaise("TypeError", "reduce of empty sequence")
                acc, seq = seq[0], seq[1:]
            for x in seq:
                acc = self.call(fn, [acc, x], {}, node)
            return acc
        if name in ("str", "repr"):
            return args[0] if isinstance(args[0], str) else Sym(f"{name}({args[0]!r})")
        if name == "dict":
            d = dict(args[0]) if args else {}
            d.update(kwargs)
            return d
        if name in ("set", "frozenset"):
            return SetV.of(list(args[0]) if args else [])
        if name == "sorted":
            seq = list(args[0])
            if kwargs or not all(isinstance(x, (str, int)) for x in seq):
                raise Unsupported("sorted() of abstract values")
            return sorted(seq)
        if name in ("any", "all"):
            ts = [self.truth(x) for x in list(args[0])]
            return any(ts) if name == "any" else all(ts)
        if name == "reversed":
            return list(reversed(list(args[0])))
        if name in ("list", "tuple"):
            r = list(args[0]) if args else []
            return r if name == "list" else tuple(r)
        if name == "iter":
            return list(args[0])
        if name == "next":
            seq = args[0]
            if not isinstance(seq, list):
                raise Unsupported("next() of a non-list")
            if seq:
                return seq.pop(0)
            if len(args) > 1:
                return args[1]
            raise PyRaise("StopIteration")
        if name == "enumerate":
            start = args[1] if len(args) > 1 else kwargs.get("start", 0)
            return [(i + start, x) for i, x in enumerate(list(args[0]))]
        if name == "zip":
            return [tuple(t) for t in zip(*[list(a) for a in args])]
        if name == "bool":
            return self.truth(args[0]) if args else False
        if name == "len":
            if isinstance(args[0], (list, tuple, dict, str)):
                return len(args[0])
            raise Unsupported("len() of an abstract value")
        if name == "callable":
            return isinstance(args[0], (Sym, App, PartialV, LambdaV, FuncV))
        if name == "isinstance":
            obj, cls = args
            classes = list(cls) if isinstance(cls, (tuple, list)) else [cls]
            if isinstance(obj, TypeV):
                for c in classes:
                    t = c.text.rsplit(".", 1)[-1] if isinstance(c, Sym) else ""
                    if (t == "GraphQLList" and obj.kind == "list") or (t == "GraphQLNonNull" and obj.kind == "nonnull") or \
                            (t == "GraphQLWrappingType" and obj.kind != "named") or (t == "GraphQLType"):
                        return True
                return False
            if isinstance(obj, RecV):
                names = {c.text.rsplit(".", 1)[-1] for c in classes if isinstance(c, Sym)}
                return obj.cls in names or bool(set(obj.bases) & names)
            if isinstance(obj, (Sym, App)):
                names = {c.text.rsplit(".", 1)[-1] for c in classes if isinstance(c, Sym)}
                return False  # an opaque symbol is an instance of none of the classes a builder asks about (not a failure, not a partial, not a container)
            if isinstance(obj, (FuncV, LambdaV, BoundV)):
                return False  # a plain function: none of the classes a builder asks about (not a partial, not a container)
            if isinstance(obj, PartialV):
                return any(isinstance(c, Sym) and c.text.rsplit(".", 1)[-1] == "partial" for c in classes)
            if obj is None or isinstance(obj, (bool, int, str, list, tuple, dict)):
                names = {c.text.rsplit(".", 1)[-1] for c in classes if isinstance(c, Sym)}
                return type(obj).__name__ in names or (obj is None and "NoneType" in names)
            raise Unsupported("isinstance of an abstract value")
        if name in ("getattr", "hasattr"):
            obj, an = args[0], args[1]
            if not isinstance(an, str):
                raise Unsupported("getattr with a computed name")
            try:
                v = self.attr(obj, an, node)
            except PyRaise as e:
                if e.name != "AttributeError":
                    raise
                if name == "hasattr":
                    return False
                if len(args) > 2:
                    return args[2]
                raise
            return True if name == "hasattr" else v
        raise Unsupported(name)

    # ------------------------------------------------------------------ expressions
    def eval(self, e, env):
        self.fuel -= 1
        if self.fuel <= 0:
            raise Unsupported("evaluation does not terminate within the budget")
        if isinstance(e, ast.Constant):
            return e.value
        if isinstance(e, ast.Name):
            return self.lookup(e.id, env, e)
        if isinstance(e, ast.Attribute):
            return self.attr(self.eval(e.value, env), e.attr, e)
        if isinstance(e, ast.IfExp):
            return self.eval(e.body if self.truth(self.eval(e.test, env)) else e.orelse, env)
        if isinstance(e, ast.BoolOp):
            v = None
            for x in e.values:
                v = self.eval(x, env)
                t = self.truth(v)
                if (isinstance(e.op, ast.And) and not t) or (isinstance(e.op, ast.Or) and t):
                    return v
            return v
        if isinstance(e, ast.UnaryOp) and isinstance(e.op, ast.Not):
            return not self.truth(self.eval(e.operand, env))
        if isinstance(e, ast.UnaryOp) and isinstance(e.op, (ast.USub, ast.UAdd)):
            v = self.eval(e.operand, env)
            if isinstance(v, int) and not isinstance(v, bool):
                return -v if isinstance(e.op, ast.USub) else v
            raise Unsupported("arithmetic on an abstract value")
        if isinstance(e, ast.BinOp) and isinstance(e.op, (ast.BitOr, ast.BitAnd)):
            a, b = self.eval(e.left, env), self.eval(e.right, env)
            if isinstance(a, SetV) and isinstance(b, SetV):
                return self.method(a, "union" if isinstance(e.op, ast.BitOr) else "intersection", [b], {}, e)
            raise Unsupported("bit operation on abstract values")
        if isinstance(e, ast.BinOp) and isinstance(e.op, (ast.Add, ast.Sub)):
            a, b = self.eval(e.left, env), self.eval(e.right, env)
            if isinstance(e.op, ast.Sub) and isinstance(a, SetV) and isinstance(b, SetV):
                return self.method(a, "difference", [b], {}, e)
            if isinstance(e.op, ast.Add) and (isinstance(a, SetV) or isinstance(b, SetV)):
                raise PyRaise("TypeError", "set + ...")
            if isinstance(a, int) and isinstance(b, int) and not isinstance(a, bool) and not isinstance(b, bool):
                return a + b if isinstance(e.op, ast.Add) else a - b
            if isinstance(e.op, ast.Add) and isinstance(a, str) and isinstance(b, str):
                return a + b
            if isinstance(e.op, ast.Add) and isinstance(a, list) and isinstance(b, list):
                return a + b
            if isinstance(e.op, ast.Add) and isinstance(a, tuple) and isinstance(b, tuple):
                return a + b
            raise Unsupported("arithmetic on an abstract value")
        if isinstance(e, ast.Compare):
            left = self.eval(e.left, env)
            for op, c in zip(e.ops, e.comparators):
                right = self.eval(c, env)
                if isinstance(op, (ast.Is, ast.IsNot)):
                    same = (left is right) or (norm(left) == norm(right) and not isinstance(left, (list, dict, PartialV, LambdaV)))
                    r = same if isinstance(op, ast.Is) else not same
                elif isinstance(op, (ast.Eq, ast.NotEq)):
                    r = (norm(left) == norm(right)) == isinstance(op, ast.Eq)
                elif isinstance(op, (ast.In, ast.NotIn)):
                    if isinstance(right, dict):
                        inside = left in right
                    elif isinstance(right, (list, tuple)):
                        inside = any(norm(left) == norm(x) for x in right)
                    else:
                        raise Unsupported("membership in an abstract value")
                    r = inside == isinstance(op, ast.In)
                elif isinstance(left, int) and isinstance(right, int):
                    r = {ast.Lt: left < right, ast.LtE: left <= right, ast.Gt: left > right, ast.GtE: left >= right}[type(op)]
                else:
                    raise Unsupported(f"comparison {type(op).__name__}")
                if not r:
                    return False
                left = right
            return True
        if isinstance(e, ast.Lambda):
            return LambdaV(e, env)
        if isinstance(e, ast.Set):
            return SetV.of([self.eval(x, env) for x in e.elts])
        if isinstance(e, ast.SetComp):
            return SetV.of(self.eval(ast.ListComp(elt=e.elt, generators=e.generators), env))
        if isinstance(e, (ast.List, ast.Tuple)):
            out = []
            for x in e.elts:
                if isinstance(x, ast.Starred):
                    out.extend(list(self.eval(x.value, env)))
                else:
                    out.append(self.eval(x, env))
            return out if isinstance(e, ast.List) else tuple(out)
        if isinstance(e, ast.Dict):
            d = {}
            for k, v in zip(e.keys, e.values):
                if k is None:
                    d.update(self.eval(v, env))
                else:
                    d[self.eval(k, env)] = self.eval(v, env)
            return d
        if isinstance(e, (ast.ListComp, ast.GeneratorExp)):
            out = []

            def gen(i, env2):
                if i == len(e.generators):
                    out.append(self.eval(e.elt, env2))
                    return
                g = e.generators[i]
                for item in list(self.eval(g.iter, env2)):
                    env3 = Env(env2)
                    self.assign(g.target, item, env3)
                    if all(self.truth(self.eval(c, env3)) for c in g.ifs):
                        gen(i + 1, env3)

            gen(0, env)
            return out
        if isinstance(e, ast.DictComp):
            d = {}

            def dgen(i, env2):
                if i == len(e.generators):
                    d[self.eval(e.key, env2)] = self.eval(e.value, env2)
                    return
                g = e.generators[i]
                for item in list(self.eval(g.iter, env2)):
                    env3 = Env(env2)
                    self.assign(g.target, item, env3)
                    if all(self.truth(self.eval(c, env3)) for c in g.ifs):
                        dgen(i + 1, env3)

            dgen(0, env)
            return d
        if isinstance(e, ast.Subscript):
            v = self.eval(e.value, env)
            if isinstance(e.slice, ast.Slice):
                lo = self.eval(e.slice.lower, env) if e.slice.lower else None
                hi = self.eval(e.slice.upper, env) if e.slice.upper else None
                st = self.eval(e.slice.step, env) if e.slice.step else None
                if isinstance(v, (list, tuple)):
                    return v[lo:hi:st]
                raise Unsupported("slice of an abstract value")
            k = self.eval(e.slice, env)
            if isinstance(v, (list, tuple)) and isinstance(k, int):
                try:
                    return v[k]
                except IndexError:
                    raise PyRaise("IndexError")
            if isinstance(v, dict):
                if k in v:
                    return v[k]
                raise PyRaise("KeyError")
            raise Unsupported("subscript of an abstract value")
        if isinstance(e, ast.Call):
            args, kwargs = [], {}
            for a in e.args:
                if isinstance(a, ast.Starred):
                    args.extend(list(self.eval(a.value, env)))
                else:
                    args.append(self.eval(a, env))
            for k in e.keywords:
                if k.arg is None:
                    kwargs.update(self.eval(k.value, env))
                else:
                    kwargs[k.arg] = self.eval(k.value, env)
            if isinstance(e.func, ast.Name) and e.func.id in BUILTINS and not env.get(e.func.id)[0] and e.func.id not in self.module.funcs:
                return self.builtin(e.func.id, args, kwargs, e, env)
            if isinstance(e.func, ast.Attribute):
                recv = self.eval(e.func.value, env)
                m = e.func.attr
                if isinstance(recv, (list, dict)):
                    return self.method(recv, m, args, kwargs, e)
                if isinstance(recv, str):
                    if m == "format" and all(isinstance(a, str) for a in args) and all(isinstance(a, str) for a in kwargs.values()):
                        return recv.format(*args, **kwargs)
                    if m == "join" and len(args) == 1 and all(isinstance(a, str) for a in args[0]):
                        return recv.join(list(args[0]))
                    if m in ("strip", "lstrip", "rstrip", "lower", "upper") and not args:
                        return getattr(recv, m)()
                    if m in ("startswith", "endswith") and len(args) == 1 and isinstance(args[0], str):
                        return getattr(recv, m)(args[0])
                    raise Unsupported(f"str.{m}")
                return self.call(self.attr(recv, m, e), args, kwargs, e)
            return self.call(self.eval(e.func, env), args, kwargs, e)
        if isinstance(e, ast.Yield):
            ok, ys = env.get("__yields__")
            if not ok:
                raise Unsupported("yield outside a generator")
            ys.append(self.eval(e.value, env) if e.value is not None else None)
            return None
        if isinstance(e, ast.Await):
            v = self.eval(e.value, env)   # scheduling is not modelled: awaiting yields the awaited term ...
            if isinstance(v, RecV) and "_raises" in v.attrs:
                exc = v.attrs["_raises"]   # ... or raises, for an awaitable modelled as failing
                raise PyRaise(exc.cls if isinstance(exc, RecV) else "Exception", "awaited failure", value=exc)
            return v
        if isinstance(e, ast.NamedExpr):
            v = self.eval(e.value, env)
            self.assign(e.target, v, env)
            return v
        if isinstance(e, ast.JoinedStr):
            parts = []
            for v in e.values:
                if isinstance(v, ast.Constant):
                    parts.append(str(v.value))
                elif isinstance(v, ast.FormattedValue) and v.format_spec is None and v.conversion == -1:
                    try:
                        x = self.eval(v.value, env)
                    except (Unsupported, PyRaise):
                        return Sym(unparse(e))
                    if not isinstance(x, str):
                        return Sym(unparse(e))
                    parts.append(x)
                else:
                    return Sym(unparse(e))
            return "".join(parts)
        raise Unsupported(f"{type(e).__name__} at line {getattr(e, 'lineno', '?')}")

    # ------------------------------------------------------------------ statements
    def assign(self, target, value, env):
        if isinstance(target, ast.Name):
            # assignment goes to the scope that holds the name only for nonlocal; plain Python semantics: local
            env.vars[target.id] = value
        elif isinstance(target, (ast.Tuple, ast.List)):
            if not isinstance(value, (list, tuple)):
                raise PyRaise("TypeError", f"cannot unpack {value!r}")
            vals = list(value)
            if len(vals) != len(target.elts):
                raise PyRaise("ValueError", "unpack")
            for t, v in zip(target.elts, vals):
                self.assign(t, v, env)
        elif isinstance(target, ast.Attribute):
            recv = self.eval(target.value, env)
            if isinstance(recv, RecV):
                recv.attrs[target.attr] = value
            else:
                raise Unsupported("attribute store into an abstract value")
        elif isinstance(target, ast.Subscript):
            recv = self.eval(target.value, env)
            k = self.eval(target.slice, env)
            if isinstance(recv, (list, dict)):
                try:
                    recv[k] = value
                except IndexError:
                    raise PyRaise("IndexError", "list assignment index out of range")
                except TypeError:
                    raise PyRaise("TypeError", "unhashable key or bad index")
            else:
                raise Unsupported("store into an abstract value")
        else:
            raise Unsupported(f"assignment target {type(target).__name__}")

    def block(self, stmts, env):
        for s in stmts:
            self.stmt(s, env)

    def stmt(self, s, env):
        self.fuel -= 1
        if self.fuel <= 0:
            raise Unsupported("evaluation does not terminate within the budget")
        if isinstance(s, ast.Expr):
            if not (isinstance(s.value, ast.Constant) and isinstance(s.value.value, str)):
                self.eval(s.value, env)
        elif isinstance(s, ast.Assign):
            v = self.eval(s.value, env)
            for t in s.targets:
                self.assign(t, v, env)
        elif isinstance(s, ast.AnnAssign):
            if s.value is not None:
                self.assign(s.target, self.eval(s.value, env), env)
        elif isinstance(s, ast.AugAssign):
            cur = self.eval(s.target, env)
            v = self.eval(s.value, env)
            if isinstance(cur, SetV) and isinstance(s.op, (ast.BitOr, ast.BitAnd, ast.Sub)) and isinstance(v, SetV):
                self.method(cur, {ast.BitOr: "update", ast.BitAnd: "intersection_update", ast.Sub: "difference_update"}[type(s.op)], [v], {}, s)
            elif isinstance(s.op, ast.Add) and isinstance(cur, SetV):
                raise PyRaise("TypeError", "set += ...")
            elif isinstance(s.op, ast.Add) and isinstance(cur, list):
                cur.extend(list(v))
            elif isinstance(s.op, ast.Add) and isinstance(cur, (int, tuple, str)):
                self.assign(s.target, cur + v, env)
            elif isinstance(s.op, ast.Sub) and isinstance(cur, int):
                self.assign(s.target, cur - v, env)
            else:
                raise Unsupported("augmented assignment")
        elif isinstance(s, ast.Return):
            raise _Return(self.eval(s.value, env) if s.value is not None else None)
        elif isinstance(s, ast.If):
            self.block(s.body if self.truth(self.eval(s.test, env)) else s.orelse, env)
        elif isinstance(s, ast.While):
            n = 0
            while self.truth(self.eval(s.test, env)):
                n += 1
                if n > 50:
                    raise Unsupported("loop does not end on a finite type")
                try:
                    self.block(s.body, env)
                except _Break:
                    break
                except _Continue:
                    continue
            else:
                self.block(s.orelse, env)
        elif isinstance(s, ast.For):
            broke = False
            for item in list(self.eval(s.iter, env)):
                self.assign(s.target, item, env)
                try:
                    self.block(s.body, env)
                except _Break:
                    broke = True
                    break
                except _Continue:
                    continue
            if not broke:
                self.block(s.orelse, env)
        elif isinstance(s, ast.Try):
            try:
                try:
                    self.block(s.body, env)
                except PyRaise as ex:
                    for h in s.handlers:
                        names = []
                        if h.type is None:
                            names = ["*"]
                        elif isinstance(h.type, ast.Tuple):
                            names = [unparse(x) for x in h.type.elts]
                        else:
                            names = [unparse(h.type)]
                        exb = set(ex.value.bases) if isinstance(ex.value, RecV) else set()
                        if "*" in names or ex.name in names or (exb & set(names)) or ("Exception" in names and (not isinstance(ex.value, RecV) or "Exception" in exb)) or "BaseException" in names or \
                                (ex.name in ("KeyError", "IndexError") and "LookupError" in names):
                            if h.name:
                                env.vars[h.name] = ex.value if ex.value is not None else Sym(f"<{ex.name}>")
                            self.block(h.body, env)
                            break
                    else:
                        raise
                else:
                    self.block(s.orelse, env)
            finally:
                self.block(s.finalbody, env)
        elif isinstance(s, (ast.With, ast.AsyncWith)):
            for item in s.items:
                v = self.eval(item.context_expr, env)   # the manager stands for what it yields (files: the file)
                if item.optional_vars is not None:
                    self.assign(item.optional_vars, v, env)
            self.block(s.body, env)
        elif isinstance(s, (ast.FunctionDef, ast.AsyncFunctionDef)):
            env.vars[s.name] = FuncV(s, env, s.name)
        elif isinstance(s, ast.Pass):
            pass
        elif isinstance(s, ast.Break):
            raise _Break()
        elif isinstance(s, ast.Continue):
            raise _Continue()
        elif isinstance(s, ast.Raise):
            name = "Exception"
            value = None
            if s.exc is not None:
                x = s.exc.func if isinstance(s.exc, ast.Call) else s.exc
                name = unparse(x).rsplit(".", 1)[-1]
                cdef = self.module.classes.get(name) if isinstance(x, ast.Name) else None
                if cdef is not None and isinstance(s.exc, ast.Call):
                    # an exception class of the module: the object is built by its own __init__ (what it carries is read by handlers)
                    value = RecV(name, bases=tuple(getattr(cdef, "bases", ()) or ("Exception",)) + ("Exception",))
                    init = cdef.methods.get("__init__")
                    if init is not None:
                        args = [self.eval(a, env) for a in s.exc.args]
                        kwargs = {k.arg: self.eval(k.value, env) for k in s.exc.keywords if k.arg}
                        self.classes.setdefault(name, cdef)
                        self.call(FuncV(init.node, self.genv, init.qualname), [value] + args, kwargs, s)
                elif not isinstance(s.exc, ast.Call):
                    v = self.eval(s.exc, env)
                    if isinstance(v, RecV):
                        value, name = v, v.cls
            raise PyRaise(name, value=value)
        elif isinstance(s, (ast.Import, ast.ImportFrom, ast.Global, ast.Nonlocal)):
            if isinstance(s, (ast.Global, ast.Nonlocal)):
                raise Unsupported("global / nonlocal state in a builder")
        elif isinstance(s, ast.Assert):
            pass
        else:
            raise Unsupported(f"{type(s).__name__} at line {getattr(s, 'lineno', '?')}")

    def run(self, func, args, kwargs=None):
        """Interprets `func` (a model.Func) on abstract arguments; returns the result term."""
        try:
            return self.call(FuncV(func.node, self.genv, func.name), list(args), dict(kwargs or {}), func.node)
        except RecursionError:
            raise Unsupported("evaluation does not terminate within the budget")


def shapes(max_depth: int = 3) -> List[TypeV]:
    """Every wrapper sequence up to max_depth over {list, non-null} (no non-null directly inside a non-null), around a named
    type with a coercer; plus the named type without one, bare and wrapped once."""
    out = []
    for d in range(max_depth + 1):
        for seq in itertools.product(("list", "nonnull"), repeat=d):
            if any(a == b == "nonnull" for a, b in zip(seq, seq[1:])):
                continue
            t = TypeV("named")
            for k in reversed(seq):
                t = TypeV(k, t)
            out.append(t)
    bare = TypeV("named", name="U", has_slot=False)
    out += [bare, TypeV("list", bare), TypeV("nonnull", bare)]
    return out


def uniformity_violations(func) -> List[str]:
    """Constructs that could make a builder treat nesting levels differently (which a bounded shape domain would not see)."""
    bad = []
    for n in ast.walk(func.node):
        if isinstance(n, ast.Call) and isinstance(n.func, ast.Name) and n.func.id in ("len", "range", "divmod"):
            bad.append(f"{n.func.id}() at line {n.lineno}")
        if isinstance(n, ast.BinOp) and isinstance(n.op, (ast.Add, ast.Sub, ast.Mult, ast.Mod, ast.FloorDiv)) and \
                any(isinstance(x, ast.Constant) and isinstance(x.value, int) and not isinstance(x.value, bool) for x in (n.left, n.right)):
            bad.append(f"integer arithmetic at line {n.lineno}")
        if isinstance(n, ast.Compare) and any(isinstance(x, ast.Constant) and isinstance(x.value, int) and not isinstance(x.value, bool) for x in [n.left] + n.comparators):
            bad.append(f"comparison with an integer at line {n.lineno}")
        if isinstance(n, (ast.Global, ast.Nonlocal)):
            bad.append(f"{type(n).__name__.lower()} at line {n.lineno}")
    return bad
