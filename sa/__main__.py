"""CLI:  python -m sa check C01 [--tier quick|thorough]
        python -m sa all [--tier ...]
        python -m sa explain <replay.json>
        python -m sa selftest [C01 ...]
"""
from __future__ import annotations

import argparse
import importlib
import json
import os
import sys
import traceback

from .model import AnalysisError, Repo
from .report import Check

PROPS = [f"C{i:02d}" for i in range(1, 19)]


def run_check(prop: str, tier: str, repo: Repo = None, write: bool = True, quiet: bool = False, hygiene: bool = True) -> Check:
    mod = importlib.import_module(f"sa.props.{prop.lower()}")
    repo = repo or Repo()
    ck = Check(prop, tier, repo, explanation=getattr(mod, "EXPLANATION", ""), quiet=quiet)
    ck.assumptions = list(getattr(mod, "ASSUMPTIONS", []))
    try:
        mod.check(ck)
        _anchored_awaits(ck, prop)
        if hygiene:
            from . import hygiene as _hy

            _hy.check(ck, prop)
    except AnalysisError as e:
        ck.errors.append(str(e))
    except Exception as e:  # never a traceback-as-violation
        ck.errors.append(f"internal error {type(e).__name__}: {e}\n{traceback.format_exc(limit=8)}")
    if tier == "thorough" and write:
        from . import selftest

        try:
            selftest.run_for_check(ck)
        except AnalysisError as e:
            ck.errors.append(f"selftest: {e}")
        except Exception as e:
            ck.errors.append(f"selftest: internal error {type(e).__name__}: {e}\n{traceback.format_exc(limit=8)}")
        try:
            from .anchors import ANCHORS
            from .sweep import sweep

            r = sweep(prop, ANCHORS.get(prop, []), root=repo.root)
            ck.sweep = {k: v for k, v in r.items() if k != "survivors"}
            ck.sweep["survivors_sample"] = r["survivors"][:40]
            ck.evaluations += r["mutants"]
            ck.counts["sweep_mutants"] = r["mutants"]
            ck.counts["sweep_flagged"] = r["killed"] + r["analysis_error"]
        except Exception as e:  # exploration only: never decides the check
            ck.sweep = {"error": f"{type(e).__name__}: {e}"}
        try:
            from . import nfcheck

            nr = nfcheck.run()
            ck.nfcheck = nr
            ck.counts["normal_form_mutants"] = nr["mutants"]
            ck.evaluations += nr["mutants"]
            for h in nr["unexplained"]:
                ck.errors.append(f"normal form: a behaviour-changing mutant has the reference's normal form (unsound rewrite): {h}")
        except Exception as e:
            ck.nfcheck = {"error": f"{type(e).__name__}: {e}"}
        try:
            from . import benign

            b = benign.sweep(prop, ANCHORS.get(prop, []), root=repo.root)
            ck.benign = b
            ck.evaluations += b["edits"]
            ck.counts["benign_edits"] = b["edits"]
            ck.counts["benign_alarms"] = b["alarms"]
            for a in b["alarm_list"][:5]:
                ck.note(f"benign edit raised an alarm (checker brittleness, not a finding): {a}")
        except Exception as e:
            ck.benign = {"error": f"{type(e).__name__}: {e}"}
    ck.finish(write=write)
    return ck


def _anchored_awaits(ck: Check, prop: str):
    """Rule RA, shared by every property with coroutine anchors: each coroutine created in a function
    the property is anchored in is awaited, gathered or returned - an un-awaited coroutine puts a
    coroutine object where the value should be (C08.R1 / C09.R3 decide this for whole packages)."""
    if prop in ("C08", "C09"):
        return
    from . import asyncrules
    from .anchors import ANCHORS
    from .q import FuncView
    from .model import unparse

    with ck.rule("RA"):
        n = 0
        for rel, qual in ANCHORS.get(prop, []):
            mod = ck.repo.by_relpath.get(rel)
            f = mod.funcs.get(qual) if mod else None
            if f is None:
                continue
            fv = None
            for c, why in asyncrules.coroutine_calls(ck.repo, f):
                fv = fv or FuncView(f)
                n += 1
                ok, how = asyncrules.consumption(fv, c)
                ck.ob(f"{f.qualname}: coroutine created by `{unparse(c.func)[:50]}(...)` ({why}) is awaited, gathered or returned", ok, f, c,
                      construct=f"consumed:{f.qualname}:{unparse(c.func)[:50]}", detail=how)
        ck.counts["anchored_coroutine_call_sites"] = n


def main(argv=None) -> int:
    ap = argparse.ArgumentParser(prog="sa")
    sub = ap.add_subparsers(dest="cmd", required=True)
    c = sub.add_parser("check")
    c.add_argument("prop")
    c.add_argument("--tier", default=os.environ.get("VERIF_TIER", "quick"), choices=["quick", "thorough"])
    a = sub.add_parser("all")
    a.add_argument("--tier", default="quick", choices=["quick", "thorough"])
    e = sub.add_parser("explain")
    e.add_argument("path")
    s = sub.add_parser("selftest")
    s.add_argument("props", nargs="*")
    s.add_argument("-v", action="store_true")
    args = ap.parse_args(argv)
    try:
        if args.cmd == "check":
            ck = run_check(args.prop.upper(), args.tier)
            return ck.exit_code
        if args.cmd == "all":
            repo = Repo()
            worst = 0
            for p in PROPS:
                ck = run_check(p, args.tier, repo=repo)
                worst = max(worst, ck.exit_code) if ck.exit_code != 1 else 1 if worst != 1 else 1
                if ck.exit_code == 1:
                    worst = 1
            return worst
        if args.cmd == "explain":
            with open(args.path) as fh:
                r = json.load(fh)
            print(json.dumps(r, indent=1))
            ck = run_check(r["property"], "quick", write=False, quiet=True)
            still = [o for o in ck.new_violations + ck.known_hits if list(o.key()) == r.get("key")]
            if still:
                o = still[0]
                print(f"still present on the current tree: {o.rule} at {o.where}:{o.line}")
                print(f"  instance: {o.instance}")
                print(f"  construct: {o.construct}")
                print(f"  detail: {o.detail}")
                return 1
            print("not reproduced on the current tree")
            return 0
        if args.cmd == "selftest":
            from . import selftest

            return selftest.main(args.props or PROPS, verbose=args.v)
    except AnalysisError as e:
        print(f"ANALYSIS-ERROR {e}")
        return 2
    except Exception as e:
        print(f"ANALYSIS-ERROR internal error {type(e).__name__}: {e}")
        traceback.print_exc()
        return 2
    return 0


if __name__ == "__main__":
    sys.exit(main())
