"""Small query helpers shared by the rules."""
from __future__ import annotations

import ast
from typing import Callable, Dict, Iterable, Iterator, List, Optional, Sequence, Tuple, Union

from .cfg import CFG, Node, build, handler_types, is_broad_handler
from .model import AnalysisError, Func, dotted, unparse, walk_no_nested

_cfg_cache: Dict[int, CFG] = {}


def cfg_of(func: Func) -> CFG:
    c = _cfg_cache.get(id(func.node))
    if c is None or c.func is not func:
        c = build(func)
        _cfg_cache[id(func.node)] = c
    return c


def parents(root) -> Dict[int, ast.AST]:
    out = {}
    for n in ast.walk(root):
        for c in ast.iter_child_nodes(n):
            out[id(c)] = n
    return out


class FuncView:
    """A function with parent links and convenience queries."""

    def __init__(self, func: Func):
        self.func = func
        self.node = func.node
        self.par = parents(func.node)
        self.cfg = cfg_of(func)

    # ---- navigation
    def parent(self, n):
        return self.par.get(id(n))

    def ancestors(self, n) -> Iterator[ast.AST]:
        p = self.par.get(id(n))
        while p is not None:
            yield p
            p = self.par.get(id(p))

    def stmt_of(self, n) -> ast.stmt:
        if isinstance(n, ast.stmt):
            return n
        for a in self.ancestors(n):
            if isinstance(a, ast.stmt):
                return a
        raise AnalysisError("expression without enclosing statement")

    def cfg_node(self, n) -> Node:
        """CFG node holding ``n`` (a statement, or an expression inside one; for an
        expression inside an ``if`` test the atomic test node containing it)."""
        s = self.stmt_of(n)
        if isinstance(s, (ast.If, ast.While)) and n is not s:
            # inside the test?
            for t in self.cfg.nodes:
                if t.kind == "test" and any(x is n for x in ast.walk(t.ast)):
                    return t
        if isinstance(s, ast.Try):
            raise AnalysisError("try statement has no CFG node")
        # comprehension/lambda bodies belong to the enclosing statement
        return self.cfg.node_of(s)

    def enclosing(self, n, types) -> Optional[ast.AST]:
        for a in self.ancestors(n):
            if isinstance(a, types):
                return a
        return None

    def enclosing_loops(self, n) -> List[ast.AST]:
        return [a for a in self.ancestors(n) if isinstance(a, (ast.For, ast.AsyncFor, ast.While))]

    def in_comprehension(self, n) -> Optional[ast.AST]:
        return self.enclosing(n, (ast.ListComp, ast.SetComp, ast.DictComp, ast.GeneratorExp))

    def try_handlers_around(self, n) -> List[Tuple[ast.Try, ast.ExceptHandler]]:
        """Handlers of every ``try`` whose *body* contains n (innermost first)."""
        out = []
        child = n
        for a in self.ancestors(n):
            if isinstance(a, ast.Try):
                if any(child is s or _contains(s, child) for s in a.body):
                    for h in a.handlers:
                        out.append((a, h))
            child = a
        return out

    def in_broad_try(self, n) -> Optional[ast.ExceptHandler]:
        for t, h in self.try_handlers_around(n):
            if is_broad_handler(h):
                return h
        return None

    # ---- searches
    def calls(self, name: Union[str, Sequence[str], None] = None, last: bool = True) -> List[ast.Call]:
        names = None if name is None else ([name] if isinstance(name, str) else list(name))
        out = []
        for n in walk_no_nested(self.node):
            if isinstance(n, ast.Call):
                d = dotted(n.func)
                if names is None:
                    out.append(n)
                elif last and callee_last(n) in names:
                    out.append(n)
                elif not last and d is not None and d in names:
                    out.append(n)
        return sorted(out, key=lambda c: (c.lineno, c.col_offset))

    def one_call(self, name, last=True) -> ast.Call:
        cs = self.calls(name, last)
        if len(cs) != 1:
            raise AnalysisError(f"expected exactly one call of {name} in {self.func.short}, found {len(cs)}")
        return cs[0]

    def maybe_call(self, name, last=True) -> Optional[ast.Call]:
        """The single call of ``name`` or None (absent or ambiguous)."""
        cs = self.calls(name, last)
        return cs[0] if len(cs) == 1 else None

    def some_calls(self, name, minimum=1, last=True) -> List[ast.Call]:
        cs = self.calls(name, last)
        if len(cs) < minimum:
            raise AnalysisError(f"expected >= {minimum} call(s) of {name} in {self.func.short}, found {len(cs)}")
        return cs

    def returns(self) -> List[ast.Return]:
        return [n for n in walk_no_nested(self.node) if isinstance(n, ast.Return)]

    def raises(self) -> List[ast.Raise]:
        return [n for n in walk_no_nested(self.node) if isinstance(n, ast.Raise)]

    def yields(self) -> List[ast.AST]:
        return [n for n in walk_no_nested(self.node) if isinstance(n, (ast.Yield, ast.YieldFrom))]

    def awaits(self) -> List[ast.Await]:
        return [n for n in walk_no_nested(self.node) if isinstance(n, ast.Await)]

    def handlers(self) -> List[ast.ExceptHandler]:
        return [n for n in walk_no_nested(self.node) if isinstance(n, ast.ExceptHandler)]

    def loops(self) -> List[ast.AST]:
        return [n for n in walk_no_nested(self.node) if isinstance(n, (ast.For, ast.AsyncFor, ast.While))]

    def is_awaited(self, call: ast.Call) -> bool:
        return isinstance(self.parent(call), ast.Await)

    # ---- control dependence
    def conditions(self, n) -> List[Tuple[str, str]]:
        """(test text, outcome) pairs necessarily taken to reach n."""
        node = n if isinstance(n, Node) else self.cfg_node(n)
        return [positive_form(t.ast, o) for t, o in self.cfg.control_conditions(node.id)]

    def conditions_ast(self, n) -> List[Tuple[ast.AST, str]]:
        node = n if isinstance(n, Node) else self.cfg_node(n)
        return [(t.ast, o) for t, o in self.cfg.control_conditions(node.id)]

    def guarded(self, n, pred: Callable[[str], bool], outcome: str) -> bool:
        return any(pred(t) and o == outcome for t, o in self.conditions(n))

    def dominated_by(self, n, dom) -> bool:
        a = dom if isinstance(dom, Node) else self.cfg_node(dom)
        b = n if isinstance(n, Node) else self.cfg_node(n)
        return a.id != b.id and self.cfg.dominates(a.id, b.id, skip_exc=True)

    def all_paths_to_return_pass(self, via_nodes: Iterable, start=None) -> bool:
        via = [(v if isinstance(v, Node) else self.cfg_node(v)).id for v in via_nodes]
        s = self.cfg.entry.id if start is None else (start if isinstance(start, Node) else self.cfg_node(start)).id
        return self.cfg.all_paths_pass(s, self.cfg.return_exit.id, via, skip_exc=False)


_FLIP = {ast.NotIn: ast.In, ast.IsNot: ast.Is, ast.NotEq: ast.Eq}


def _bool_valued(e) -> bool:
    if isinstance(e, ast.Call) and isinstance(e.func, ast.Name) and e.func.id in ("isinstance", "issubclass", "callable", "hasattr", "bool"):
        return True
    if isinstance(e, ast.UnaryOp) and isinstance(e.op, ast.Not):
        return True
    return isinstance(e, ast.Compare) and all(isinstance(o, (ast.Is, ast.IsNot, ast.In, ast.NotIn)) for o in e.ops)


def positive_form(test, outcome: str) -> Tuple[str, str]:
    """Normalise a (test, outcome) pair: ``a not in b`` taken True is reported as
    (``a in b``, "F"); same for ``is not`` and ``!=``."""
    if isinstance(test, ast.Compare) and len(test.ops) == 1 and isinstance(test.comparators[0], ast.Constant) \
            and isinstance(test.comparators[0].value, bool) and isinstance(test.ops[0], (ast.Is, ast.Eq, ast.IsNot, ast.NotEq)) and _bool_valued(test.left):
        # `isinstance(x, T) is False` == `not isinstance(x, T)`; only for operands that are certainly bool (for any other, `x is False` is not `not x`)
        same = isinstance(test.ops[0], (ast.Is, ast.Eq)) == test.comparators[0].value
        return positive_form(test.left, outcome if same else ("F" if outcome == "T" else "T"))
    if isinstance(test, ast.Compare) and len(test.ops) == 1 and type(test.ops[0]) in _FLIP:
        pos = ast.Compare(left=test.left, ops=[_FLIP[type(test.ops[0])]()], comparators=test.comparators)
        return unparse(pos), ("F" if outcome == "T" else "T")
    return unparse(test), outcome


def ifexp_parts(e) -> Optional[Tuple[str, str, str]]:
    """``A if c else B`` -> (c, A, B) with a negated test normalised away."""
    if not isinstance(e, ast.IfExp):
        return None
    t, a, b = e.test, e.body, e.orelse
    if isinstance(t, ast.UnaryOp) and isinstance(t.op, ast.Not):
        t, a, b = t.operand, b, a
    return unparse(t), unparse(a), unparse(b)


def callee_last(call: ast.Call) -> Optional[str]:
    """Last component of the callee: ``a.b(...).append`` -> ``append``."""
    f = call.func
    if isinstance(f, ast.Attribute):
        return f.attr
    if isinstance(f, ast.Name):
        return f.id
    return None


def _contains(root, n) -> bool:
    return any(x is n for x in ast.walk(root))


def contains(root, n) -> bool:
    return _contains(root, n)


def arg(call: ast.Call, pos: Optional[int] = None, kw: Optional[str] = None):
    """Positional or keyword argument of a call (None if absent)."""
    if kw is not None:
        for k in call.keywords:
            if k.arg == kw:
                return k.value
    if pos is not None and pos < len(call.args):
        a = call.args[pos]
        if not isinstance(a, ast.Starred):
            return a
    return None


def arg_text(call, pos=None, kw=None) -> Optional[str]:
    a = arg(call, pos, kw)
    return None if a is None else unparse(a)


def kwargs(call: ast.Call) -> Dict[str, ast.expr]:
    return {k.arg: k.value for k in call.keywords if k.arg}


def names_in(node) -> List[str]:
    return [n.id for n in ast.walk(node) if isinstance(n, ast.Name)]


def attr_chains(node) -> List[str]:
    out = []
    for n in ast.walk(node):
        d = dotted(n) if isinstance(n, (ast.Attribute, ast.Name)) else None
        if d:
            out.append(d)
    return out


def isinstance_test(expr) -> Optional[Tuple[str, List[str]]]:
    """``isinstance(x, T)`` / ``isinstance(x, (A, B))`` -> (x text, [type names])."""
    if isinstance(expr, ast.Call) and dotted(expr.func) == "isinstance" and len(expr.args) == 2:
        t = expr.args[1]
        if isinstance(t, ast.Tuple):
            names = [unparse(e) for e in t.elts]
        else:
            names = [unparse(t)]
        return unparse(expr.args[0]), names
    return None


def is_none_test(expr) -> Optional[Tuple[str, bool]]:
    """``x is None`` -> (x, True); ``x is not None`` -> (x, False)."""
    if isinstance(expr, ast.Compare) and len(expr.ops) == 1 and isinstance(expr.comparators[0], ast.Constant) and expr.comparators[0].value is None:
        if isinstance(expr.ops[0], ast.Is):
            return unparse(expr.left), True
        if isinstance(expr.ops[0], ast.IsNot):
            return unparse(expr.left), False
    return None


def assigned_value(func: Func, name: str) -> List[ast.expr]:
    """All expressions assigned to local ``name`` in func."""
    out = []
    for n in walk_no_nested(func.node):
        if isinstance(n, ast.Assign):
            for t in n.targets:
                if isinstance(t, ast.Name) and t.id == name:
                    out.append(n.value)
        elif isinstance(n, ast.AnnAssign) and isinstance(n.target, ast.Name) and n.target.id == name and n.value is not None:
            out.append(n.value)
    return out


def strip_await(e):
    return e.value if isinstance(e, ast.Await) else e


def decorator_names(func: Func) -> List[str]:
    out = []
    for d in func.node.decorator_list:
        if isinstance(d, ast.Call):
            out.append(dotted(d.func) or unparse(d.func))
        else:
            out.append(dotted(d) or unparse(d))
    return out


def collected_into(fv: "FuncView", name: str):
    """How the local list `name` gets its elements, whatever the idiom: `name.append(E)` inside loops, or
    `name = [E for x in IT if C]`.  Returns [(element text, iterable text, frozenset of (condition, outcome))], the
    conditions being the control conditions of the statement plus, for a comprehension, its filters."""
    out = []
    for c in fv.calls("append"):
        if unparse(c.func.value) != name or len(c.args) != 1:
            continue
        loops = fv.enclosing_loops(c)
        it = unparse(loops[-1].iter) if loops else None
        out.append((unparse(c.args[0]), it, frozenset(fv.conditions(c))))
    for n in walk_no_nested(fv.func.node):
        if isinstance(n, ast.Assign) and len(n.targets) == 1 and unparse(n.targets[0]) == name and isinstance(n.value, ast.ListComp) and len(n.value.generators) == 1:
            g = n.value.generators[0]
            conds = set(fv.conditions(n))
            for i in g.ifs:
                conds.add(positive_form(i, "T"))
            out.append((unparse(n.value.elt), unparse(g.iter), frozenset(conds)))
    return out


def inlined_view(repo, f, max_stmts: int = 12, focus=None) -> "FuncView":
    """A view of `f` in which calls of small helpers defined next to it (functions of its module, methods of its class)
    are replaced by the helpers' bodies (sa/normal.py, R12) - so that a rule about what `f` does on its paths is not
    fooled by code having moved into a helper."""
    import copy

    from . import normal
    from .model import Func

    helpers = {}
    for g in f.module.funcs.values():
        if g is f or g.parent is not None:
            continue
        n_st = sum(1 for x in ast.walk(g.node) if isinstance(x, ast.stmt)) - 1
        if n_st > max_stmts or any(isinstance(x, (ast.Yield, ast.YieldFrom)) for x in ast.walk(g.node)):
            continue
        if g.cls is None:
            helpers[g.name] = g.node
        elif f.cls is not None and g.cls is f.cls:
            d = copy.deepcopy(g.node)
            d._is_method = True
            helpers[g.name] = d
    used = {c.func.attr if isinstance(c.func, ast.Attribute) else getattr(c.func, "id", None) for c in ast.walk(f.node) if isinstance(c, ast.Call)}
    helpers = {k: v for k, v in helpers.items() if k in used and k != f.name}
    has_ifexp = any(isinstance(x, ast.IfExp) for x in ast.walk(f.node))
    if not helpers and not has_ifexp:
        return FuncView(f)
    node = copy.deepcopy(f.node)
    normal._fresh = __import__("itertools").count()
    if focus is None:
        normal._expand_ifexp(node)  # `x = A if c else B` becomes a branch of the graph
    else:
        # only the conditional expressions that feed the targets the rule looks at (the others would only multiply paths)
        keep = {}
        for st in ast.walk(node):
            if isinstance(st, ast.Assign) and isinstance(st.value, ast.IfExp) and not any(unparse(t) in focus for t in st.targets):
                keep[id(st)] = st.value
                st.value = ast.Name(id="__opaque_ifexp__", ctx=ast.Load())
        normal._expand_ifexp(node)
        for st in ast.walk(node):
            if id(st) in keep:
                st.value = keep[id(st)]
    if helpers:
        normal._inline_helpers(node, helpers, f.cls is not None)
        normal._expand_ifexp(node)
    if focus is not None:
        _slice(node, set(focus))
    ast.fix_missing_locations(node)
    for n in ast.walk(node):
        if not hasattr(n, "lineno"):
            n.lineno = f.node.lineno
    return FuncView(Func(f.module, f.qualname, node, f.cls, f.parent))


def _slice(fn, focus):
    """Keeps the statements that (transitively) feed the `focus` targets - assignments to them or to names their values
    read, and the compound statements around those; everything else (guards that raise, unrelated bookkeeping) is dropped.
    For rules that ask what a path stores into the focus targets and under which of *their* conditions."""
    rel = set(focus)
    changed = True
    while changed:
        changed = False
        for st in ast.walk(fn):
            if isinstance(st, (ast.Assign, ast.AugAssign, ast.AnnAssign)):
                tg = st.targets if isinstance(st, ast.Assign) else [st.target]
                names = {unparse(t) for t in tg} | {unparse(e) for t in tg if isinstance(t, (ast.Tuple, ast.List)) for e in t.elts}
                if names & rel and st.value is not None:
                    for x in ast.walk(st.value):
                        if isinstance(x, (ast.Name, ast.Attribute)) and unparse(x) not in rel and not (isinstance(x, ast.Name) and x.id in ("self", "cls")):
                            if isinstance(x, ast.Name) or unparse(x).startswith("self."):
                                rel.add(unparse(x))
                                changed = True

    def keep(st) -> bool:
        if isinstance(st, (ast.Assign, ast.AugAssign, ast.AnnAssign)):
            tg = st.targets if isinstance(st, ast.Assign) else [st.target]
            names = {unparse(t) for t in tg} | {unparse(e) for t in tg if isinstance(t, (ast.Tuple, ast.List)) for e in t.elts}
            return bool(names & rel)
        if isinstance(st, ast.Return):
            return "return" in focus
        if isinstance(st, (ast.If, ast.For, ast.AsyncFor, ast.While, ast.Try, ast.With, ast.AsyncWith)):
            return any(keep(x) for x in ast.walk(st) if isinstance(x, ast.stmt) and x is not st)
        return False

    def prune(stmts):
        out = []
        for st in stmts:
            if not keep(st):
                continue
            for fld in ("body", "orelse", "finalbody"):
                v = getattr(st, fld, None)
                if isinstance(v, list) and v and isinstance(v[0], ast.stmt):
                    nv = prune(v)
                    setattr(st, fld, nv if nv or fld != "body" else [ast.Pass()])
            for h in getattr(st, "handlers", []) or []:
                h.body = prune(h.body) or [ast.Pass()]
            out.append(st)
        return out

    fn.body = prune(fn.body) or [ast.Pass()]


def bound_args(repo, module, call, resolve=None):
    """{parameter name: argument text} of `call`, bound through the signature of the package function it calls (positional and
    keyword forms give the same mapping); `resolve` (expr -> expr) is applied to each argument first.  None if the callee is
    not a function of the package or the call does not fit its signature."""
    name = dotted(call.func)
    target = repo.lookup(repo.resolve_name(module, name)) if name else None
    if target is None and name in module.funcs:
        target = module.funcs[name]
    if target is None or not hasattr(target, "node") or not isinstance(target.node, (ast.FunctionDef, ast.AsyncFunctionDef)):
        return None
    params = [a.arg for a in target.node.args.args]
    out = {}
    for i, a in enumerate(call.args):
        if isinstance(a, ast.Starred) or i >= len(params):
            return None
        out[params[i]] = unparse(resolve(a) if resolve else a)
    for k in call.keywords:
        if k.arg is None or k.arg in out:
            return None
        out[k.arg] = unparse(resolve(k.value) if resolve else k.value)
    return out
