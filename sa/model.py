"""E1 - source model of the tartiflette package (stdlib ``ast`` only).

The model is built from the *current* working tree of the repository on every
run (or from an in-memory override map, used by the self-test to analyse
mutated sources without touching the disk).
"""
from __future__ import annotations

import ast
import os
from typing import Dict, Iterable, Iterator, List, Optional, Tuple

REPO_ROOT = os.environ.get("SA_REPO_ROOT", "/repo")
PKG = "tartiflette"
MIN_FILES = 185


class AnalysisError(Exception):
    """An anchor is missing or a construct has a shape a rule cannot read.

    Reported as ``ANALYSIS-ERROR`` / exit 2 - never as a pass, never as a
    violation.
    """


# ---------------------------------------------------------------------------
# small ast helpers
# ---------------------------------------------------------------------------


def unparse(node) -> str:
    if node is None:
        return "None"
    if isinstance(node, str):
        return node
    return ast.unparse(node)


def dotted(expr) -> Optional[str]:
    """``a.b.c`` for a Name/Attribute chain, else None."""
    parts = []
    while isinstance(expr, ast.Attribute):
        parts.append(expr.attr)
        expr = expr.value
    if isinstance(expr, ast.Name):
        parts.append(expr.id)
        return ".".join(reversed(parts))
    return None


def call_name(call: ast.Call) -> Optional[str]:
    return dotted(call.func)


def iter_child_stmts(stmts: Iterable[ast.stmt]) -> Iterator[ast.stmt]:
    """All statements nested in ``stmts`` (not descending into nested defs)."""
    for s in stmts:
        yield s
        for field in ("body", "orelse", "finalbody"):
            sub = getattr(s, field, None)
            if sub and not isinstance(s, (ast.FunctionDef, ast.AsyncFunctionDef, ast.ClassDef)):
                yield from iter_child_stmts(sub)
        if isinstance(s, ast.Try):
            for h in s.handlers:
                yield from iter_child_stmts(h.body)


def walk_no_nested(node) -> Iterator[ast.AST]:
    """ast.walk that does not enter nested function/class/lambda bodies."""
    todo = [node]
    first = True
    while todo:
        n = todo.pop()
        if not first and isinstance(
            n, (ast.FunctionDef, ast.AsyncFunctionDef, ast.ClassDef, ast.Lambda)
        ):
            yield n
            continue
        first = False
        yield n
        todo.extend(reversed(list(ast.iter_child_nodes(n))))


def strip_docstring(body: List[ast.stmt]) -> List[ast.stmt]:
    if (
        body
        and isinstance(body[0], ast.Expr)
        and isinstance(body[0].value, ast.Constant)
        and isinstance(body[0].value.value, str)
    ):
        return body[1:]
    return body


def const_eval(node, env: Optional[dict] = None):
    """Literal evaluator for module constants. Raises ValueError if not literal."""
    env = env or {}
    if isinstance(node, ast.Constant):
        return node.value
    if isinstance(node, ast.UnaryOp) and isinstance(node.op, ast.USub):
        v = const_eval(node.operand, env)
        if isinstance(v, (int, float)):
            return -v
    if isinstance(node, ast.BinOp):
        l, r = const_eval(node.left, env), const_eval(node.right, env)
        if isinstance(node.op, ast.Add):
            return l + r
        if isinstance(node.op, ast.Sub):
            return l - r
        if isinstance(node.op, ast.Mult):
            return l * r
        if isinstance(node.op, ast.Pow):
            return l ** r
    if isinstance(node, (ast.Tuple, ast.List)):
        return tuple(const_eval(e, env) for e in node.elts)
    if isinstance(node, ast.Name) and node.id in env:
        return env[node.id]
    raise ValueError("not a literal: %s" % ast.dump(node)[:80])


# ---------------------------------------------------------------------------
# model classes
# ---------------------------------------------------------------------------


class Func:
    def __init__(self, module: "Module", qualname: str, node, cls: Optional["Class"], parent: Optional["Func"]):
        self.module = module
        self.qualname = qualname
        self.node = node
        self.cls = cls
        self.parent = parent
        self.is_async = isinstance(node, ast.AsyncFunctionDef)

    @property
    def name(self) -> str:
        return self.node.name

    @property
    def fq(self) -> str:
        return f"{self.module.name}.{self.qualname}"

    @property
    def short(self) -> str:
        return f"{self.module.relpath}::{self.qualname}"

    @property
    def body(self) -> List[ast.stmt]:
        return strip_docstring(self.node.body)

    @property
    def params(self) -> List[str]:
        a = self.node.args
        names = [x.arg for x in a.posonlyargs + a.args]
        if a.vararg:
            names.append("*" + a.vararg.arg)
        names += [x.arg for x in a.kwonlyargs]
        if a.kwarg:
            names.append("**" + a.kwarg.arg)
        return names

    @property
    def positional_params(self) -> List[str]:
        a = self.node.args
        return [x.arg for x in a.posonlyargs + a.args]

    def param_defaults(self) -> Dict[str, ast.expr]:
        a = self.node.args
        pos = a.posonlyargs + a.args
        out = {}
        for arg, d in zip(pos[len(pos) - len(a.defaults):], a.defaults):
            out[arg.arg] = d
        for arg, d in zip(a.kwonlyargs, a.kw_defaults):
            if d is not None:
                out[arg.arg] = d
        return out

    @property
    def decorators(self) -> List[str]:
        return [unparse(d) for d in self.node.decorator_list]

    def is_generator(self) -> bool:
        for n in walk_no_nested(self.node):
            if isinstance(n, (ast.Yield, ast.YieldFrom)):
                return True
        return False

    def calls(self) -> List[ast.Call]:
        return [n for n in walk_no_nested(self.node) if isinstance(n, ast.Call)]

    def __repr__(self):
        return f"<Func {self.fq}>"


class Class:
    def __init__(self, module: "Module", name: str, node: ast.ClassDef):
        self.module = module
        self.name = name
        self.node = node
        self.methods: Dict[str, Func] = {}
        self.base_exprs: List[str] = [unparse(b) for b in node.bases]
        self.bases: List[str] = []  # resolved dotted names, filled by Repo
        self.class_attrs: Dict[str, ast.expr] = {}
        for s in node.body:
            if isinstance(s, ast.Assign):
                for t in s.targets:
                    if isinstance(t, ast.Name):
                        self.class_attrs[t.id] = s.value
            elif isinstance(s, ast.AnnAssign) and isinstance(s.target, ast.Name) and s.value is not None:
                self.class_attrs[s.target.id] = s.value

    @property
    def fq(self) -> str:
        return f"{self.module.name}.{self.name}"

    @property
    def slots(self) -> Optional[Tuple[str, ...]]:
        v = self.class_attrs.get("__slots__")
        if v is None:
            return None
        try:
            val = const_eval(v)
        except ValueError:
            return None
        if isinstance(val, str):
            return (val,)
        return tuple(val)

    def self_attrs(self, method: str = "__init__") -> Dict[str, ast.expr]:
        """Attributes assigned on ``self`` in ``method`` (last assignment wins)."""
        out: Dict[str, ast.expr] = {}
        m = self.methods.get(method)
        if not m:
            return out
        for n in walk_no_nested(m.node):
            targets = []
            value = None
            if isinstance(n, ast.Assign):
                targets, value = n.targets, n.value
            elif isinstance(n, ast.AnnAssign):
                targets, value = [n.target], n.value
            for t in targets:
                if isinstance(t, ast.Attribute) and isinstance(t.value, ast.Name) and t.value.id == "self":
                    out[t.attr] = value
        return out

    def properties(self) -> List[str]:
        return [
            name
            for name, m in self.methods.items()
            if any(d == "property" for d in m.decorators)
        ]

    def __repr__(self):
        return f"<Class {self.fq}>"


class Module:
    def __init__(self, name: str, relpath: str, src: str):
        self.name = name
        self.relpath = relpath
        self.src = src
        self.tree = ast.parse(src, filename=relpath)
        # locals of functions that are alpha-equivalent to the pinned tree's are renamed back to the names the rules use
        from . import alpha
        self.alpha_renamed = alpha.apply(self.tree, relpath) if relpath.endswith(".py") else []
        self.is_pkg = relpath.endswith("__init__.py")
        self.imports: Dict[str, str] = {}
        self.funcs: Dict[str, Func] = {}
        self.classes: Dict[str, Class] = {}
        self.assigns: Dict[str, ast.expr] = {}
        self._index()

    @property
    def package(self) -> str:
        return self.name if self.is_pkg else self.name.rsplit(".", 1)[0]

    def _index(self):
        for s in ast.walk(self.tree):
            if isinstance(s, ast.Import):
                for a in s.names:
                    self.imports[a.asname or a.name.split(".")[0]] = a.name if a.asname else a.name.split(".")[0]
            elif isinstance(s, ast.ImportFrom):
                base = s.module or ""
                if s.level:
                    pkg_parts = self.package.split(".")
                    up = s.level - 1
                    if up:
                        pkg_parts = pkg_parts[:-up]
                    base = ".".join(pkg_parts + ([s.module] if s.module else []))
                for a in s.names:
                    self.imports[a.asname or a.name] = f"{base}.{a.name}"
        for s in self.tree.body:
            if isinstance(s, ast.Assign):
                for t in s.targets:
                    if isinstance(t, ast.Name):
                        self.assigns[t.id] = s.value
            elif isinstance(s, ast.AnnAssign) and isinstance(s.target, ast.Name) and s.value is not None:
                self.assigns[s.target.id] = s.value
        self._index_defs(self.tree.body, prefix="", cls=None, parent=None)

    def _index_defs(self, body, prefix, cls, parent):
        for s in iter_child_stmts(body):
            if isinstance(s, (ast.FunctionDef, ast.AsyncFunctionDef)):
                q = prefix + s.name
                f = Func(self, q, s, cls, parent)
                self.funcs[q] = f
                if cls is not None and parent is None:
                    cls.methods[s.name] = f
                self._index_defs(s.body, q + ".", cls=None if parent is None and cls is None else cls, parent=f)
            elif isinstance(s, ast.ClassDef):
                c = Class(self, prefix + s.name, s)
                self.classes[prefix + s.name] = c
                self._index_defs(s.body, prefix + s.name + ".", cls=c, parent=None)

    def constants(self) -> Dict[str, object]:
        env: Dict[str, object] = {}
        for name, v in self.assigns.items():
            try:
                env[name] = const_eval(v, env)
            except (ValueError, TypeError):
                pass
        return env

    def func(self, qualname: str) -> Func:
        try:
            return self.funcs[qualname]
        except KeyError:
            raise AnalysisError(f"anchor missing: function {qualname} in {self.relpath}")

    def cls(self, name: str) -> Class:
        try:
            return self.classes[name]
        except KeyError:
            raise AnalysisError(f"anchor missing: class {name} in {self.relpath}")


class _LazySources(dict):
    """relpath -> text, read on demand."""
    def __init__(self, root, known):
        super().__init__(known)
        self._root = root

    def items(self):
        for k in list(self.keys()):
            yield k, self[k]

    def __getitem__(self, k):
        v = dict.__getitem__(self, k)
        if v is None:
            with open(os.path.join(self._root, k), encoding="utf-8") as fh:
                v = fh.read()
            dict.__setitem__(self, k, v)
        return v


class Repo:
    def __init__(self, root: str = None, overrides: Optional[Dict[str, str]] = None):
        self.root = root or REPO_ROOT
        self.overrides = overrides or {}
        self.modules: Dict[str, Module] = {}
        self.by_relpath: Dict[str, Module] = {}
        self.parse_errors: List[str] = []
        self._load()
        self._resolve_bases()

    # -- loading -----------------------------------------------------------
    def _load(self):
        pkg_dir = os.path.join(self.root, PKG)
        count = 0
        from . import alpha

        srcs = {}
        for dirpath, dirnames, filenames in os.walk(pkg_dir):
            for fn in filenames:
                if fn.endswith(".py"):
                    rel = os.path.relpath(os.path.join(dirpath, fn), self.root)
                    srcs[rel] = None
        srcs.update(self.overrides)
        alpha.begin_repo(_LazySources(self.root, srcs))
        for dirpath, dirnames, filenames in os.walk(pkg_dir):
            dirnames.sort()
            for fn in sorted(filenames):
                if not fn.endswith(".py"):
                    continue
                path = os.path.join(dirpath, fn)
                rel = os.path.relpath(path, self.root)
                if rel in self.overrides:
                    src = self.overrides[rel]
                else:
                    with open(path, encoding="utf-8") as fh:
                        src = fh.read()
                mod = rel[:-3].replace(os.sep, ".")
                if mod.endswith(".__init__"):
                    mod = mod[: -len(".__init__")]
                try:
                    m = Module(mod, rel, src)
                except SyntaxError as e:
                    self.parse_errors.append(f"{rel}: {e}")
                    continue
                self.modules[mod] = m
                self.by_relpath[rel] = m
                count += 1
        if self.parse_errors:
            raise AnalysisError("unparsable source: " + "; ".join(self.parse_errors))
        if count < MIN_FILES:
            raise AnalysisError(f"only {count} files under {pkg_dir} (expected >= {MIN_FILES})")
        self.n_files = count

    def read_text(self, relpath: str) -> str:
        if relpath in self.overrides:
            return self.overrides[relpath]
        p = os.path.join(self.root, relpath)
        if not os.path.exists(p):
            raise AnalysisError(f"anchor missing: file {relpath}")
        with open(p, encoding="utf-8") as fh:
            return fh.read()

    # -- lookup --------------------------------------------------------------
    def mod(self, name_or_rel: str) -> Module:
        if name_or_rel in self.modules:
            return self.modules[name_or_rel]
        if name_or_rel in self.by_relpath:
            return self.by_relpath[name_or_rel]
        raise AnalysisError(f"anchor missing: module {name_or_rel}")

    def func(self, rel: str, qualname: str) -> Func:
        return self.mod(rel).func(qualname)

    def cls(self, rel: str, name: str) -> Class:
        return self.mod(rel).cls(name)

    def all_funcs(self) -> Iterator[Func]:
        for m in self.modules.values():
            yield from m.funcs.values()

    def all_classes(self) -> Iterator[Class]:
        for m in self.modules.values():
            yield from m.classes.values()

    # -- name resolution -------------------------------------------------------
    def resolve_dotted(self, target: str, _depth: int = 0) -> str:
        """Follow re-exports: ``tartiflette.language.ast.FieldNode`` ->
        ``tartiflette.language.ast.field.FieldNode``."""
        if _depth > 8:
            return target
        if target in self.modules:
            return target
        if "." not in target:
            return target
        modname, attr = target.rsplit(".", 1)
        m = self.modules.get(modname)
        if m is None:
            # maybe modname itself is a re-exported thing (a.b.Class.attr)
            return target
        if attr in m.funcs or attr in m.classes or attr in m.assigns:
            return target
        if attr in m.imports:
            return self.resolve_dotted(m.imports[attr], _depth + 1)
        sub = f"{modname}.{attr}"
        if sub in self.modules:
            return sub
        return target

    def resolve_name(self, module: Module, name: str) -> Optional[str]:
        """Resolve a bare or dotted name used in ``module`` to a package-level
        dotted target (function, class, constant or module), or None."""
        head, _, rest = name.partition(".")
        if head in module.funcs or head in module.classes or head in module.assigns:
            base = f"{module.name}.{head}"
        elif head in module.imports:
            base = self.resolve_dotted(module.imports[head])
        else:
            return None
        if rest:
            return self.resolve_dotted(f"{base}.{rest}")
        return base

    def lookup(self, target: Optional[str]):
        """Return Func / Class / Module / ast.expr for a dotted target, or None."""
        if not target:
            return None
        if target in self.modules:
            return self.modules[target]
        parts = target.split(".")
        for i in range(len(parts) - 1, 0, -1):
            modname = ".".join(parts[:i])
            m = self.modules.get(modname)
            if m is None:
                continue
            rest = ".".join(parts[i:])
            if rest in m.funcs:
                return m.funcs[rest]
            if rest in m.classes:
                return m.classes[rest]
            if rest in m.assigns:
                return m.assigns[rest]
            return None
        return None

    def resolve_call(self, func: Func, call: ast.Call):
        """Resolve the callee of ``call`` (made inside ``func``) to a Func/Class,
        for bare names, imported names, ``self.method`` and ``cls.method``."""
        name = dotted(call.func)
        if name is None:
            return None
        head, _, rest = name.partition(".")
        if head in ("self", "cls") and func.cls is not None and rest and "." not in rest:
            m = self.find_method(func.cls, rest)
            if m:
                return m
        # nested function defined in an enclosing function
        f = func
        while f is not None:
            q = f"{f.qualname}.{head}"
            if q in func.module.funcs and not rest:
                return func.module.funcs[q]
            f = f.parent
        return self.lookup(self.resolve_name(func.module, name))

    # -- class hierarchy ---------------------------------------------------------
    def _resolve_bases(self):
        for c in self.all_classes():
            c.bases = []
            for b in c.node.bases:
                d = dotted(b)
                if d is None:
                    continue
                r = self.resolve_name(c.module, d)
                c.bases.append(r or d)

    def class_by_fq(self, fq: str) -> Optional[Class]:
        obj = self.lookup(fq)
        return obj if isinstance(obj, Class) else None

    def mro(self, cls: Class) -> List[Class]:
        out, todo, seen = [], [cls], set()
        while todo:
            c = todo.pop(0)
            if c.fq in seen:
                continue
            seen.add(c.fq)
            out.append(c)
            for b in c.bases:
                bc = self.class_by_fq(b)
                if bc:
                    todo.append(bc)
        return out

    def find_method(self, cls: Class, name: str) -> Optional[Func]:
        for c in self.mro(cls):
            if name in c.methods:
                return c.methods[name]
        return None

    def find_class_attr(self, cls: Class, name: str):
        for c in self.mro(cls):
            if name in c.class_attrs:
                return c.class_attrs[name]
        return None

    def subclasses(self, fq: str, transitive: bool = True, strict: bool = True) -> List[Class]:
        root = self.class_by_fq(self.resolve_dotted(fq))
        if root is None:
            raise AnalysisError(f"anchor missing: class {fq}")
        out = []
        for c in self.all_classes():
            if c is root:
                if not strict:
                    out.append(c)
                continue
            chain = self.mro(c) if transitive else [c] + [x for x in (self.class_by_fq(b) for b in c.bases) if x]
            if root in chain[1:]:
                out.append(c)
        return sorted(out, key=lambda c: c.fq)

    def is_subclass(self, cls: Class, fq: str) -> bool:
        root = self.class_by_fq(self.resolve_dotted(fq))
        return root is not None and root in self.mro(cls)
