"""Automatic mutation sweep (thorough tier, exploration evidence - not a verdict).

For the functions a property is anchored in, every applicable single-point
mutation of a small operator set is applied *in memory* and the property's rules
are run on the mutated program model.  The kill ratio says how much of the
anchored code the rules actually constrain; the survivors are listed so that a
reader (or the next round) can decide whether they are equivalent mutants or
holes in the rules.  Nothing here passes or fails a check.

Operators: NEG (negate an if / while / conditional-expression test), DROP-AND /
DROP-OR (remove one operand of a boolean operation), DEL (delete a simple
statement; `return x` -> `return None`), CMP (flip a comparison: is/is not,
==/!=, in/not in, </<=, >/>=), CONST (True<->False), SWAP (swap two adjacent
positional arguments of a call), AWAIT (drop an await), and three "clean-up" operators for the idioms a tidy-minded
edit confuses: TRUTHY (`x is None` -> `not x`, `x is not None` -> `x`), FALSY (`if x` -> `if x is not None`),
NULLUNDEF (`is None` <-> `is UNDEFINED_VALUE`: explicit null versus absent).
"""
from __future__ import annotations

import ast
import copy
import os
import time
from concurrent.futures import ProcessPoolExecutor
from typing import Dict, List, Optional, Tuple

from .model import Repo, strip_docstring, unparse

CMP_FLIP = {ast.Is: ast.IsNot, ast.IsNot: ast.Is, ast.Eq: ast.NotEq, ast.NotEq: ast.Eq, ast.In: ast.NotIn, ast.NotIn: ast.In,
            ast.Lt: ast.LtE, ast.LtE: ast.Lt, ast.Gt: ast.GtE, ast.GtE: ast.Gt}


def _func_node(tree: ast.Module, qualname: str):
    parts = qualname.split(".")
    body = tree.body
    node = None
    for p in parts:
        node = None
        for s in body:
            if isinstance(s, (ast.FunctionDef, ast.AsyncFunctionDef, ast.ClassDef)) and s.name == p:
                node = s
                break
        if node is None:
            return None
        body = node.body
    return node


def _sites(fn) -> List[Tuple[str, int]]:
    """(operator, index of the node in a deterministic walk) for every applicable mutation."""
    out = []
    nodes = list(ast.walk(fn))
    for i, n in enumerate(nodes):
        if isinstance(n, (ast.If, ast.While, ast.IfExp)):
            out.append(("NEG", i))
        if isinstance(n, ast.BoolOp) and len(n.values) >= 2:
            for k in range(len(n.values)):
                out.append((f"DROP-{'AND' if isinstance(n.op, ast.And) else 'OR'}:{k}", i))
        if isinstance(n, ast.Compare) and len(n.ops) == 1 and type(n.ops[0]) in CMP_FLIP:
            out.append(("CMP", i))
        if isinstance(n, ast.Constant) and isinstance(n.value, bool):
            out.append(("CONST", i))
        # "clean-up" operators: the idioms a tidy-minded edit confuses (null / absent / falsy)
        if isinstance(n, ast.Compare) and len(n.ops) == 1 and isinstance(n.ops[0], (ast.Is, ast.IsNot)) and _is_none(n.comparators[0]):
            out.append(("TRUTHY", i))
        if isinstance(n, (ast.If, ast.While, ast.IfExp)) and _plain_value(n.test) is not None:
            out.append(("FALSY", i))
        if isinstance(n, ast.Compare) and len(n.ops) == 1 and isinstance(n.ops[0], (ast.Is, ast.IsNot)) and (
                _is_none(n.comparators[0]) or _is_undefined(n.comparators[0])):
            out.append(("NULLUNDEF", i))
        if isinstance(n, ast.Call) and len([a for a in n.args if not isinstance(a, ast.Starred)]) >= 2:
            for k in range(len(n.args) - 1):
                if not isinstance(n.args[k], ast.Starred) and not isinstance(n.args[k + 1], ast.Starred) and unparse(n.args[k]) != unparse(n.args[k + 1]):
                    out.append((f"SWAP:{k}", i))
        if isinstance(n, ast.Await):
            out.append(("AWAIT", i))
        if isinstance(n, (ast.Expr, ast.Assign, ast.AugAssign, ast.Return, ast.Raise, ast.Continue, ast.Break)) and n is not fn:
            if isinstance(n, ast.Expr) and isinstance(n.value, ast.Constant):
                continue  # docstring
            if isinstance(n, ast.Return) and (n.value is None or (isinstance(n.value, ast.Constant) and n.value.value is None)):
                continue
            out.append(("DEL", i))
    return out


def _is_none(e):
    return isinstance(e, ast.Constant) and e.value is None


def _is_undefined(e):
    return isinstance(e, ast.Name) and e.id == "UNDEFINED_VALUE"


def _plain_value(test):
    """x / not x with x a name, attribute or subscript (a truthiness test of a value): returns (x, negated)."""
    neg = False
    if isinstance(test, ast.UnaryOp) and isinstance(test.op, ast.Not):
        test, neg = test.operand, True
    if isinstance(test, (ast.Name, ast.Attribute, ast.Subscript)):
        return test, neg
    return None


def _apply(fn, op: str, idx: int) -> Optional[str]:
    """Mutates fn in place; returns a short description or None when not applicable."""
    nodes = list(ast.walk(fn))
    n = nodes[idx]
    kind, _, k = op.partition(":")
    if kind == "NEG":
        before = unparse(n.test)
        n.test = ast.UnaryOp(op=ast.Not(), operand=n.test)
        return f"negate `{before[:60]}`"
    if kind.startswith("DROP-"):
        k = int(k)
        before = unparse(n)
        dropped = unparse(n.values[k])
        vals = [v for j, v in enumerate(n.values) if j != k]
        repl = vals[0] if len(vals) == 1 else ast.BoolOp(op=n.op, values=vals)
        _replace(fn, n, repl)
        return f"drop operand `{dropped[:50]}` of `{before[:60]}`"
    if kind == "CMP":
        before = unparse(n)
        n.ops = [CMP_FLIP[type(n.ops[0])]()]
        return f"`{before[:60]}` -> `{unparse(n)[:60]}`"
    if kind == "TRUTHY":
        before = unparse(n)
        x = n.left
        repl = ast.UnaryOp(op=ast.Not(), operand=x) if isinstance(n.ops[0], ast.Is) else x
        _replace(fn, n, repl)
        return f"`{before[:60]}` -> `{unparse(repl)[:60]}` (falsy values taken for null)"
    if kind == "FALSY":
        before = unparse(n.test)
        x, neg = _plain_value(n.test)
        n.test = ast.Compare(left=x, ops=[ast.Is() if neg else ast.IsNot()], comparators=[ast.Constant(value=None)])
        return f"`{before[:60]}` -> `{unparse(n.test)[:60]}` (falsy values no longer taken for absent)"
    if kind == "NULLUNDEF":
        before = unparse(n)
        n.comparators = [ast.Name(id="UNDEFINED_VALUE", ctx=ast.Load())] if _is_none(n.comparators[0]) else [ast.Constant(value=None)]
        return f"`{before[:60]}` -> `{unparse(n)[:60]}` (null and absent confused)"
    if kind == "CONST":
        n.value = not n.value
        return f"constant {not n.value} -> {n.value}"
    if kind == "SWAP":
        k = int(k)
        before = unparse(n)[:70]
        n.args[k], n.args[k + 1] = n.args[k + 1], n.args[k]
        return f"swap arguments {k},{k+1} of `{before}`"
    if kind == "AWAIT":
        before = unparse(n)[:60]
        _replace(fn, n, n.value)
        return f"drop await in `{before}`"
    if kind == "DEL":
        before = unparse(n)[:70]
        if isinstance(n, ast.Return):
            n.value = ast.Constant(value=None)
            return f"`{before}` -> return None"
        _replace(fn, n, ast.Pass())
        return f"delete `{before}`"
    return None


def _replace(root, old, new):
    for parent in ast.walk(root):
        for field, value in ast.iter_fields(parent):
            if value is old:
                setattr(parent, field, new)
                return
            if isinstance(value, list):
                for j, v in enumerate(value):
                    if v is old:
                        value[j] = new
                        return


def enumerate_mutants(root: str, anchors: List[Tuple[str, str]]) -> List[dict]:
    out = []
    for rel, qual in anchors:
        path = os.path.join(root, rel)
        if not os.path.exists(path):
            continue
        tree = ast.parse(open(path, encoding="utf-8").read())
        fn = _func_node(tree, qual)
        if fn is None:
            continue
        for op, idx in _sites(fn):
            out.append({"file": rel, "func": qual, "op": op, "idx": idx})
    return out


def build_override(root: str, m: dict) -> Optional[Tuple[Dict[str, str], str]]:
    path = os.path.join(root, m["file"])
    tree = ast.parse(open(path, encoding="utf-8").read())
    fn = _func_node(tree, m["func"])
    if fn is None:
        return None
    desc = _apply(fn, m["op"], m["idx"])
    if desc is None:
        return None
    ast.fix_missing_locations(tree)
    try:
        src = ast.unparse(tree)
        ast.parse(src)
    except Exception:
        return None
    return {m["file"]: src}, desc


def _run(args):
    prop, m, root, base_fail = args
    from . import q
    from .__main__ import run_check

    q._cfg_cache.clear()
    r = build_override(root, m)
    if r is None:
        return dict(m, status="n/a")
    ov, desc = r
    try:
        repo = Repo(root, overrides=ov)
        # the shared state-hygiene rule RS is left out of the sweep: the operators add no state, and RS costs ~4 s per mutant
        ck = run_check(prop, "quick", repo=repo, write=False, quiet=True, hygiene=False)
        new = [o for o in ck.obligations if not o.ok and o.key() not in base_fail]
        status = "killed" if new else ("analysis-error" if ck.errors else "survived")
        rules = sorted({o.rule.split(".")[-1] for o in new})
    except Exception as e:  # a mutant may make the model unreadable
        status, rules = "analysis-error", [type(e).__name__]
    return dict(m, status=status, desc=desc, rules=rules)


def sweep(prop: str, anchors: List[Tuple[str, str]], root: str = None, jobs: int = 16, limit: int = None) -> dict:
    from .__main__ import run_check
    from .model import REPO_ROOT

    root = root or REPO_ROOT
    t0 = time.time()
    base = run_check(prop, "quick", write=False, quiet=True, hygiene=False)
    base_fail = {o.key() for o in base.obligations if not o.ok}
    mutants = enumerate_mutants(root, anchors)
    if limit:
        mutants = mutants[:limit]
    work = [(prop, m, root, base_fail) for m in mutants]
    with ProcessPoolExecutor(max_workers=jobs) as ex:
        results = list(ex.map(_run, work, chunksize=4))
    res = [r for r in results if r["status"] != "n/a"]
    killed = [r for r in res if r["status"] == "killed"]
    aerr = [r for r in res if r["status"] == "analysis-error"]
    surv = [r for r in res if r["status"] == "survived"]
    return {
        "property": prop, "anchors": len(anchors), "mutants": len(res), "killed": len(killed), "analysis_error": len(aerr), "survived": len(surv),
        "wall_s": round(time.time() - t0, 1),
        "survivors": [f"{r['file'].split('/')[-1]}::{r['func']} {r['op']} {r['desc']}" for r in surv],
        "by_function": _by_function(res),
    }


def _by_function(res):
    out = {}
    for r in res:
        k = f"{r['file'].split('/')[-1]}::{r['func']}"
        d = out.setdefault(k, {"mutants": 0, "killed": 0})
        d["mutants"] += 1
        d["killed"] += r["status"] in ("killed", "analysis-error")
    return out
