"""Static checkers for the tartiflette properties C01-C18.

Everything here reads /repo's *source* (stdlib ``ast``; lark is used only to
load the SDL grammar file as data).  No tartiflette code is imported or run.
"""
