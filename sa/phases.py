"""Phase model shared by C08.R4, C15, C16, C17: which functions can run in the
EXEC phase (after the cache lookup) and in the PARSE phase (the cached
function), and the census of their write sites."""
from __future__ import annotations

import ast
from typing import Dict, List, Optional, Set, Tuple

from .effects import CallGraph, Provenance, WriteSite, classify_receiver, write_sites
from .model import AnalysisError, Func, Repo, unparse

E = "tartiflette.engine.Engine."
EXEC_ENTRIES = [E + "_perform_query", E + "_perform_subscription", E + "execute", E + "subscribe", "tartiflette.execution.response.build_response"]
PARSE_ENTRY = "tartiflette.execution.collect.parse_and_validate_query"

# attribute names under which per-request objects hold references to *shared* objects
SHARED_ATTRS = {"schema", "_schema", "operation", "fragments", "document", "field_nodes", "definition", "definitions", "type_definitions", "graphql_type",
                "gql_type", "return_type", "parent_type", "directives", "arguments", "implementation", "selection_set", "selections", "validators",
                "input_fields", "implemented_fields", "values", "_value_map", "wrapped_type", "type_condition", "variable_definitions", "default_value"}
AST_ROOTS = {"document", "operation", "fragments", "fragment_definition", "field_nodes", "field_node", "selection", "selection_set", "node", "argument_node",
             "argument_nodes", "directive_node", "directive_nodes", "definition", "variable_definition_node", "value_node", "type_node", "operations",
             "executable_variable_definition", "executable_variable_definitions"}
SCHEMA_ROOTS = {"schema", "field_definition", "argument_definition", "argument_definitions", "directive_definition", "input_field", "input_fields", "enum_type",
                "enum_value", "scalar_type", "object_type", "abstract_type", "input_object_type", "runtime_type", "return_type", "parent_type", "graphql_type",
                "item_type", "inner_type", "type_definition", "operation_root_type", "conditional_type"}

_cache: Dict[int, "Phases"] = {}


class Phases:
    def __init__(self, repo: Repo):
        self.repo = repo
        self.graph = CallGraph(repo)
        # request-time hooks of the built-in directives are invoked through getattr(implementation, key),
        # which the reference graph cannot follow: they are explicit entry points of the EXEC phase
        hooks = [f.fq for f in repo.all_funcs() if f.module.relpath.startswith("tartiflette/directive/builtins/") and f.cls is not None
                 and f.name.startswith("on_") and f.name != "on_post_bake"]
        self.exec_entries = EXEC_ENTRIES + sorted(hooks)
        self.exec_set = self.graph.reachable(self.exec_entries, stop=[PARSE_ENTRY])
        self.parse_set = self.graph.reachable([PARSE_ENTRY])
        self.exec_prov = Provenance(self.graph, self.exec_set, trusted_params=("info",))
        self.parse_prov = Provenance(self.graph, self.parse_set)

    def sites(self, phase: Set[str]) -> List[Tuple[Func, WriteSite, str, str]]:
        out = []
        for fq in sorted(phase):
            f = self.graph.funcs[fq]
            for s in write_sites(f):
                c, why = classify_receiver(f, s)
                out.append((f, s, c, why))
        return out

    def judge(self, f: Func, s: WriteSite, c: str, why: str, prov: Provenance) -> Tuple[bool, str]:
        """Is the written object created by the current request/parse?"""
        if c == "SELF-PER-REQUEST":
            hop = [a for a in _attr_chain(s.receiver) if a in SHARED_ATTRS]
            if hop:
                return False, f"`self` is per-request but the write goes through shared attribute(s) {hop}"
            return True, c + ": " + why
        if c == "FRESH":
            return True, c + ": " + why
        if c in ("SELF-SHARED", "GLOBAL", "UNKNOWN"):
            return False, c + ": " + why
        chain = _attr_chain(s.receiver)
        shared_hop = [a for a in chain if a in SHARED_ATTRS]
        if c == "PARAM":
            ok, w = prov.param_owned(_owner(f, s.root), s.root)
            if ok and shared_hop:
                return False, f"parameter {s.root} is per-request but the write goes through shared attribute(s) {shared_hop}"
            return ok, f"PARAM {s.root}: {w}"
        if c == "DERIVED":
            from .effects import local_bindings

            for b in local_bindings(f, s.root):
                ok, w = prov.expr_owned(f, b)
                if not ok:
                    return False, f"DERIVED {s.root}: {w}"
            if shared_hop:
                return False, f"local {s.root} is per-request but the write goes through shared attribute(s) {shared_hop}"
            return True, f"DERIVED {s.root}: bound to per-request objects"
        return False, c


def _owner(f: Func, root: str) -> Func:
    g = f
    while g is not None:
        if root in [p.lstrip("*") for p in g.params]:
            return g
        g = g.parent
    return f


def _attr_chain(e) -> List[str]:
    out = []
    while isinstance(e, (ast.Attribute, ast.Subscript, ast.Call)):
        if isinstance(e, ast.Attribute):
            out.append(e.attr)
            e = e.value
        elif isinstance(e, ast.Subscript):
            e = e.value
        else:
            e = e.func
    return list(reversed(out))


def phases(repo: Repo) -> Phases:
    p = _cache.get(id(repo))
    if p is None or p.repo is not repo:
        _cache.clear()
        p = Phases(repo)
        _cache[id(repo)] = p
    return p
