"""Rule RS - state hygiene by reach, shared by every property whose statement quantifies over
"any schema x any request" (the answer is a function of the schema and the request, nothing else).

The censuses that C15 / C16 / C17 own (EXEC-phase writes to objects not created by the request,
PARSE-phase writes to shared objects, mutable defaults, memoised functions, module- and class-level
containers written after import) are run once per program model.  A failing instance is *attributed*
to property P when a function it involves lies in P's reach: the closure, in the reference graph, of
the functions P is anchored in.  So a cache keyed by type name inside `get_output_coercer` is reported
by C17 (engines are not independent) and also by every property whose anchored code calls that
function (its results now depend on what another engine or an earlier request did).

Nothing is re-decided here: the verdict on each instance is the owning rule's; RS only decides
whether the instance concerns the property at hand.  A finding listed for the owning property in
known_findings.json is not attributed (it is reported once, where it is owned).
"""
from __future__ import annotations

import ast
import re
from typing import Dict, List, Set, Tuple

from .model import Repo, unparse, walk_no_nested

OWNERS = ("C15", "C16", "C17")
# rules of the owners that are censuses of state (the other rules of C15-C17 are wiring rules of their own)
CENSUS_RULES = {"C15.R1", "C15.R2", "C15.R3", "C16.R1", "C16.R3", "C16.R5", "C17.R3"}
_FUNC_RE = re.compile(r"(tartiflette/[\w/]+\.py)::([\w\.]+)")

# functions that are part of a property's computation but run at bake time, reached through slots the
# reference graph resolves only by name; listed so that RS covers them too (one line of reason each)
INPUTS = "tartiflette/coercers/inputs/"
EXTRA_REACH = {
    "C01": [("tartiflette/coercers/outputs/compute.py", "get_output_coercer"),
            ("tartiflette/language/validators/query/fragment_spread_is_possible.py", "*")],   # reads the possible-type sets execution answers from   # builds the completion chain the anchors call through `output_coercer`
    "C02": [("tartiflette/coercers/outputs/compute.py", "get_output_coercer"),
            ("tartiflette/coercers/outputs/abstract_coercer.py", "ensure_valid_runtime_type")],  # an impossible runtime type is one of the contained failures
    "C03": [("tartiflette/coercers/outputs/compute.py", "get_output_coercer"),
            ("tartiflette/coercers/outputs/common.py", "complete_object_value"),
            ("tartiflette/language/validators/query/fragment_spread_is_possible.py", "*")],   # (as C01) # the keys of an object are those collected for *its* runtime type, per completion
    "C08": [("tartiflette/coercers/outputs/compute.py", "get_output_coercer")],
    "C04": [(INPUTS, "*")],                                                        # the whole variable-coercion package
    "C05": [("tartiflette/coercers/literals/", "*"), ("tartiflette/coercers/arguments.py", "*"),
            ("tartiflette/types/helpers/get_directive_instances.py", "*")],                # directive arguments are arguments: coerced per instance with the request's variables
    "C10": [(INPUTS + "scalar_coercer.py", "*"), ("tartiflette/coercers/literals/scalar_coercer.py", "*"), ("tartiflette/coercers/outputs/scalar_coercer.py", "*")],
    "C13": [("tartiflette/types/helpers/get_directive_instances.py", "*"),
            (INPUTS, "*")],   # on_post_input_coercion hooks are part of the input coercers: applied per request, defaults included
    # _perform_subscription hands the *same* variables object to the source and to every per-event execution, and the same
    # validated document serves every event: variable coercion and the subscription-specific validation rule must keep no state
    "C14": [(INPUTS, "*"), ("tartiflette/coercers/variables.py", "*"), ("tartiflette/language/validators/query/single_root_field.py", "*")],
    # the SDL pipeline: text -> lark document -> schema object; what it returns must be of this build only
    "C11": [("tartiflette/language/parsers/lark/parser.py", "*"), ("tartiflette/schema/transformer.py", "*"), ("tartiflette/schema/bakery.py", "*")],
    "C12": [("tartiflette/language/parsers/lark/parser.py", "*"), ("tartiflette/schema/transformer.py", "*"), ("tartiflette/schema/bakery.py", "*")],
    "C06": [("tartiflette/language/validators/query/", "*")],
    "C07": [("tartiflette/language/validators/query/", "*")],
}

_cache: Dict[int, Tuple[Repo, List[dict]]] = {}


def _readers(repo: Repo, name: str) -> Set[str]:
    """Functions whose result can depend on the container `name`: they read it (a mention that is not merely the
    receiver of a store / mutator call), or they read a @property that does."""
    from .effects import MUTATORS

    def reads(f, nm):
        write_only = set()
        for n in walk_no_nested(f.node):
            if isinstance(n, ast.Call) and isinstance(n.func, ast.Attribute) and n.func.attr in MUTATORS and not _used_as_value(f, n):
                write_only.add(id(n.func.value))
            if isinstance(n, (ast.Assign, ast.AugAssign)):
                for t in (n.targets if isinstance(n, ast.Assign) else [n.target]):
                    if isinstance(t, ast.Subscript):
                        write_only.add(id(t.value))
                    else:
                        write_only.add(id(t))
        for n in walk_no_nested(f.node):
            if ((isinstance(n, ast.Name) and n.id == nm) or (isinstance(n, ast.Attribute) and n.attr == nm)) and id(n) not in write_only:
                return True
        return False

    out, props = set(), set()
    for f in repo.all_funcs():
        if reads(f, name):
            out.add(f.short)
            if any(d == "property" or d.endswith(".getter") for d in f.decorators):
                props.add(f.name)
    for pn in props:
        if pn == name:
            continue
        for f in repo.all_funcs():
            if reads(f, pn):
                out.add(f.short)
    return out


def _used_as_value(f, call) -> bool:
    """`x.pop()` whose value is used is a read as well as a write."""
    for n in walk_no_nested(f.node):
        if isinstance(n, ast.Expr) and n.value is call:
            return False
    return True


def census(repo: Repo) -> List[dict]:
    """Every instance of the state censuses, with the functions it involves."""
    hit = _cache.get(id(repo))
    if hit is not None and hit[0] is repo:
        return hit[1]
    from .__main__ import run_check
    from .report import load_known

    known = {(k.get("rule"), k.get("function"), k.get("construct")) for k in load_known() if k.get("status") == "known"}
    out = []
    for owner in OWNERS:
        ck = run_check(owner, "quick", repo=repo, write=False, quiet=True, hygiene=False)
        for e in ck.errors:
            # only a census rule that could not be computed matters here; the owner's other rules are its own business
            rid = e.split(":", 1)[0].strip()
            if f"{owner}.{rid}" in CENSUS_RULES or not rid.startswith("R"):
                out.append({"rule": f"{owner}.census", "ok": None, "error": e, "funcs": set()})
        for o in ck.obligations:
            if o.rule not in CENSUS_RULES:
                continue
            if not o.ok and (o.rule, o.where or "", o.construct or o.instance) in known:
                continue
            funcs = {f"{m.group(1)}::{m.group(2)}" for m in _FUNC_RE.finditer(o.where or "")}
            if not funcs:  # census-level instance: the functions it names
                for text in (o.detail or "", o.instance or "", o.construct or ""):
                    for m in _FUNC_RE.finditer(text):
                        funcs.add(f"{m.group(1)}::{m.group(2)}")
            if not o.ok and (o.construct or "").startswith("global:"):
                name = (o.construct or "").rsplit(":", 1)[-1].rsplit(".", 1)[-1]
                funcs |= _readers(repo, name)
            out.append({"rule": o.rule, "ok": o.ok, "where": o.where, "construct": o.construct, "instance": o.instance, "detail": o.detail, "line": o.line, "funcs": funcs})
    _cache.clear()
    _cache[id(repo)] = (repo, out)
    return out


def reach(repo: Repo, prop: str) -> Set[str]:
    """The functions P is anchored in (plus EXTRA_REACH) and the functions those call directly."""
    from .anchors import ANCHORS
    from .phases import phases

    g = phases(repo).graph
    entries = []
    for rel, qual in list(ANCHORS.get(prop, [])) + EXTRA_REACH.get(prop, []):
        if qual == "*":
            entries += [f.fq for m in repo.modules.values() if m.relpath.startswith(rel) for f in m.funcs.values()]
            continue
        mod = repo.by_relpath.get(rel)
        f = mod.funcs.get(qual) if mod else None
        if f is not None:
            entries.append(f.fq)
    sides_apart = _sides_apart(repo)
    seen: Set[str] = set()
    for e in entries:
        if e in g.funcs:
            seen.add(e)
            for x in g.edges.get(e, ()):
                # the reference graph resolves `coercer(...)` / `inner_coercer(...)` by slot name, which mixes the three coercer
                # packages; they never import one another (checked), so an edge from one side to another is an artefact
                if sides_apart and _side(g.funcs[e]) and _side(g.funcs[x]) and _side(g.funcs[e]) != _side(g.funcs[x]):
                    continue
                seen.add(x)
    return {g.funcs[x].short for x in seen}


def _side(f):
    m = re.match(r"tartiflette/coercers/(inputs|outputs|literals)/", f.module.relpath)
    return m.group(1) if m else None


def _sides_apart(repo: Repo) -> bool:
    for m in repo.modules.values():
        mm = re.match(r"tartiflette/coercers/(inputs|outputs|literals)/", m.relpath)
        if not mm:
            continue
        for tgt in m.imports.values():
            t = tgt if isinstance(tgt, str) else str(tgt)
            o = re.search(r"tartiflette\.coercers\.(inputs|outputs|literals)\b", t)
            if o and o.group(1) != mm.group(1):
                return False
    return True


def check(ck, prop: str):
    if prop in OWNERS:
        return
    with ck.rule("RS"):
        r = reach(ck.repo, prop)
        items = census(ck.repo)
        n_rel = 0
        for it in items:
            if it["ok"] is None:
                ck.errors.append(f"RS: census of {it['rule']} could not be computed: {it['error'][:200]}")
                continue
            inv = it["funcs"] & r
            if not inv:
                continue
            n_rel += 1
            if it["ok"]:
                continue
            ck.ob(f"state hygiene ({it['rule']}): {it['instance']}", False, where=it["where"], construct=f"hygiene:{it['rule']}:{it['construct']}",
                  detail=f"involves {sorted(inv)[:3]}, reached from this property's anchors; {it['detail'] or ''}"[:400])
            ck.obligations[-1].line = it["line"]
        ck.counts["hygiene_reached_functions"] = len(r)
        ck.counts["hygiene_instances_in_reach"] = n_rel
        ck.ob(f"state hygiene: {n_rel} census instances (writes, defaults, caches, global containers) involve the {len(r)} functions reached from this property's anchors",
              len(r) > 0, where="tartiflette/", construct="hygiene:census", evals=max(1, n_rel))
