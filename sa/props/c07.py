"""C07 - documents breaking a supported validation rule are refused, nothing runs."""
from __future__ import annotations

import ast
import itertools

from ..model import AnalysisError, dotted, unparse, walk_no_nested
from ..q import FuncView, arg, arg_text, callee_last, contains, kwargs, strip_await
from ..validation import RULES_PKG, TRANS, Wiring, doc_rule_numbers, signature
from . import c05, c06

EXPLANATION = (
    "Census and wiring of the 26 documented rules (classes = RULE_SET = names used at call sites = documented numbers), "
    "per-site coverage (each rule is invoked from the parser of every node kind it discriminates on, on the node just "
    "built, on every path), writer/reader agreement of the context keys, errors are kept (dispatch appends on every "
    "path, every error object built flows to the returned list, no early return inside a loop over candidate sites), "
    "refused documents short-circuit before execution, the cycle rule descends into every selection kind, and the "
    "table-shaped rule predicates equal the specification's. Not decided: strictness of graph-shaped predicates at every site."
)


def check(ck):
    repo = ck.repo
    w = Wiring(repo)
    with ck.rule("R1"):
        _census(ck, repo, w)
    with ck.rule("R2"):
        _site_coverage(ck, repo, w)
    with ck.rule("R3"):
        _context_plumbing(ck, repo, w)
    with ck.rule("R4"):
        _errors_kept(ck, repo, w)
    with ck.rule("R5"):
        _nothing_runs(ck, repo)
    with ck.rule("R6"):
        _cycle_traversal(ck, repo)
        single_root_traversal(ck, repo)
    with ck.rule("R7"):
        c05._usage_coverage(ck, repo)
        c06._scoped_context(ck, repo, w)
        # the document-level collectors (variables / fragments used through nested spreads) must lose nothing
        c06._document_level(ck, repo, w)
        c06.usage_walk_terms(ck, repo)
    with ck.rule("R8"):
        c06.rule_tables(ck, repo, w)
        c06.values_of_correct_type_table(ck, repo)
        from .c03 import possible_type_sets
        possible_type_sets(ck, repo)


def _census(ck, repo, w):
    classes = set(w.rule_classes)
    in_set = set(w.rule_set)
    used = {s.rule for s in w.sites if s.rule}
    ck.count("rule_classes", len(classes), 26)
    for r in sorted(classes | in_set | used):
        ck.ob(f"rule {r}: has a class, is registered in RULE_SET and is invoked from the transformer", r in classes and r in in_set and r in used,
              where=RULES_PKG + "__init__.py", construct=f"census:{r}",
              detail=f"class={r in classes} registered={r in in_set} invoked={r in used}")
    ck.ob("RULE_SET keys and instances belong to the same class", not w.rule_set_mismatch, where=RULES_PKG + "__init__.py", construct="census:key-instance",
          detail=str(w.rule_set_mismatch))
    bad = [s for s in w.sites if s.rule is None]
    ck.ob("every validate site names its rule with a string literal", not bad, where=TRANS, construct="census:literal-names",
          detail=str([unparse(s.call)[:60] for s in bad]))
    nums = {}
    for r, c in w.rule_classes.items():
        n = repo.find_class_attr(c, "RULE_NUMBER")
        nums[r] = n.value if isinstance(n, ast.Constant) else None
    documented = doc_rule_numbers(repo)
    ck.count("documented_rules", len(documented), 26)
    for r, n in sorted(nums.items()):
        ck.ob(f"rule {r} carries the number {n} of a rule the project documents as supported", n in documented, where="docs/graphql-query-rules-supported.md",
              construct=f"census:doc:{r}")
    missing = documented - set(nums.values())
    ck.ob("every documented rule number is implemented by a rule class", not missing, where="docs/graphql-query-rules-supported.md", construct="census:doc-implemented",
          detail=str(sorted(missing)))
    ck.ob("rule numbers are distinct", len(set(nums.values())) == len(nums), where=RULES_PKG, construct="census:distinct-numbers")
    # the document is built with this rule set
    d = w.trans.func("document_from_ast_json")
    c = FuncView(d).maybe_call("Validators")
    ok = c is not None and [unparse(a) for a in c.args] == [d.positional_params[2], "RULE_SET"] and \
        repo.resolve_name(w.trans, "RULE_SET") == "tartiflette.language.validators.query.RULE_SET"
    ck.ob("document_from_ast_json validates with the engine's schema and the full RULE_SET", ok, d, c or d.node, construct="census:validators")


NODE_KIND_RULES = ("values-of-correct-type", "argument-names", "required-arguments")
CTOR = {"_parse_field": "FieldNode", "_parse_directive": "DirectiveNode", "_parse_fragment_spread": "FragmentSpreadNode", "_parse_inline_fragment": "InlineFragmentNode",
        "_parse_fragment_definition": "FragmentDefinitionNode", "_parse_operation_definition": "OperationDefinitionNode", "_parse_variable_definition": "VariableDefinitionNode"}


def _site_coverage(ck, repo, w):
    def has(parser, rule):
        return any(s.func.name == parser and s.rule == rule for s in w.sites)

    for r in NODE_KIND_RULES:
        m = w.validate_method(r)
        disc = any("isinstance(node, DirectiveNode)" == t for t, o in [c for n in FuncView(m).cfg.nodes if n.kind == "test" for c in [(n.text(), "")]])
        ck.ob(f"{r}: validate discriminates directive nodes from field nodes", disc, m, m.node, construct=f"coverage:{r}:discriminates")
        for parser in ("_parse_directive", "_parse_field"):
            ck.ob(f"{r} is invoked from {parser}", has(parser, r), w.trans.func(parser), w.trans.func(parser).node, construct=f"coverage:{r}:{parser}",
                  detail="a rule that handles both fields and directives but is invoked from one parser only misses every violation in the other position")
    users = [f for f in w.trans.funcs.values() if FuncView(f).calls("_parse_directives")]
    ck.count("parsers_with_directives", len(users), 5)
    for f in sorted(users, key=lambda f: f.name):
        ck.ob(f"{f.name} parses directives, so it checks their location", has(f.name, "directives-are-in-valid-locations"), f, f.node, construct=f"coverage:locations:{f.name}")
    for parser in ("_parse_inline_fragment", "_parse_fragment_definition"):
        for r in ("fragment-spread-type-existence", "fragments-on-composite-types"):
            ck.ob(f"{r} is invoked from {parser}", has(parser, r), w.trans.func(parser), w.trans.func(parser).node, construct=f"coverage:{r}:{parser}")
    for r, parser in (("argument-uniqueness", "_parse_arguments"), ("directives-are-unique-per-location", "_parse_directives"),
                      ("input-object-field-uniqueness", "_parse_object_fields"), ("variable-uniqueness", "_parse_variable_definitions"),
                      ("variables-are-input-types", "_parse_variable_definition"), ("directives-are-defined", "_parse_directive"),
                      ("field-selections-on-objects-interfaces-and-unions-types", "_parse_field"), ("leaf-field-selections", "_parse_field"),
                      ("executable-definitions", "document_from_ast_json")):
        ck.ob(f"{r} is invoked from {parser}", has(parser, r), w.trans.func(parser), w.trans.func(parser).node, construct=f"coverage:{r}:{parser}")
    # each site validates the node just built and lies on every path from its construction to the return
    for s in w.sites:
        f = s.func
        fv = FuncView(f)
        subject = [k for k in s.kw if k != "path"]
        if f.name in CTOR:
            ctor = [c for c in fv.calls(CTOR[f.name])]
            if len(ctor) != 1:
                raise AnalysisError(f"{f.name}: expected one {CTOR[f.name]}(...) construction")
            st = fv.stmt_of(ctor[0])
            built = unparse(st.targets[0]) if isinstance(st, ast.Assign) else None
            ok = len(subject) == 1 and unparse(s.kw[subject[0]]) == built
            ck.ob(f"{f.name}: the {s.rule} site validates the node this parser just built", ok, f, s.call, construct=f"subject:{f.name}:{s.rule}")
            ok = fv.all_paths_to_return_pass([s.call], start=st)
            ck.ob(f"{f.name}: the {s.rule} site lies on every path from the construction to the return", ok, f, s.call, construct=f"always:{f.name}:{s.rule}")
            rets = fv.returns()
            ck.ob(f"{f.name}: returns the node it built and validated", len(rets) == 1 and unparse(rets[0].value) == built, f, rets[0] if rets else f.node, construct=f"returns:{f.name}")
        elif f.name in ("_parse_arguments", "_parse_directives", "_parse_object_fields", "_parse_variable_definitions"):
            # list-level: validates the list it returns
            rets = [r for r in fv.returns() if isinstance(r.value, ast.Name)]
            ok = len(subject) == 1 and len(rets) == 1 and unparse(s.kw[subject[0]]) == unparse(rets[0].value) and fv.dominated_by(rets[0], fv.stmt_of(s.call))
            ck.ob(f"{f.name}: the {s.rule} site validates the list it returns, before returning it", ok, f, s.call, construct=f"subject:{f.name}:{s.rule}")
            comp = [n for n in walk_no_nested(f.node) if isinstance(n, ast.ListComp)]
            ok = len(comp) == 1 and unparse(comp[0].generators[0].iter) == f.positional_params[0] and not comp[0].generators[0].ifs
            ck.ob(f"{f.name}: every element of the incoming list is parsed", ok, f, comp[0] if comp else f.node, construct=f"all-elements:{f.name}")
    # list-level parsers: nothing of a non-empty incoming list is dropped (a dropped node is a node no rule ever sees)
    n_list = 0
    for f in sorted(w.trans.funcs.values(), key=lambda f: f.name):
        if not f.positional_params:
            continue
        p0 = f.positional_params[0]
        fv = FuncView(f)
        its = [(n, n.generators[0]) for n in walk_no_nested(f.node) if isinstance(n, ast.ListComp) and unparse(n.generators[0].iter) == p0]
        its += [(n, n) for n in fv.loops() if isinstance(n, ast.For) and unparse(n.iter) == p0]
        if not its:
            continue
        n_list += 1
        node, gen = its[0]
        ok = len(its) == 1 and not getattr(gen, "ifs", []) and set(fv.conditions(node)) <= {(p0, "T")} and \
            not (isinstance(node, ast.For) and any(isinstance(x, (ast.Break, ast.Continue, ast.Return)) for x in walk_no_nested(node)))
        ck.ob(f"{f.name}: every element of a non-empty `{p0}` is parsed (no filter, no early exit, not skipped)", ok, f, node, construct=f"all-elements:{f.name}:guard",
              detail=str(sorted(fv.conditions(node))))
        empties = [r for r in fv.returns() if unparse(r.value) == "[]"]
        ck.ob(f"{f.name}: the empty list is answered only for an empty `{p0}`", all(set(fv.conditions(r)) == {(p0, "F")} for r in empties), f, empties[0] if empties else f.node,
              construct=f"all-elements:{f.name}:empty")
    ck.count("list_level_parsers", n_list, 7)
    # bookkeeping read by the document-level rules (used / defined fragments, variables per operation or fragment)
    fs = w.trans.func("_parse_fragment_spread")
    fsv = FuncView(fs)
    built = [c for c in fsv.calls("FragmentSpreadNode")]
    bname = unparse(fsv.stmt_of(built[0]).targets[0]) if len(built) == 1 and isinstance(fsv.stmt_of(built[0]), ast.Assign) else "?"
    apps = {unparse(c.func.value)[:60]: c for c in fsv.calls("append")}
    glob_ = [c for t, c in apps.items() if t.startswith("validators.ctx.setdefault('fragment_spreads', [])")]
    ok = len(glob_) == 1 and unparse(glob_[0].args[0]) == bname and not fsv.conditions(glob_[0])
    ck.ob("_parse_fragment_spread records every spread in the document-wide list (read by fragment-must-be-used / spread-target-defined)", ok, fs, glob_[0] if glob_ else fs.node,
          construct="bookkeeping:spreads:document")
    per = [c for c in fsv.calls("append") if ".setdefault('spreads', [])" in unparse(c.func.value)]
    conds = {("operation" if "per_operation" in unparse(c.func.value) else "fragment"): (set(fsv.conditions(c)), unparse(c.func.value), unparse(c.args[0])) for c in per}
    ok = set(conds) == {"operation", "fragment"} and conds["operation"][0] == {("validators.ctx['in_operation']", "T")} and conds["fragment"][0] == {("validators.ctx['in_operation']", "F")} and \
        "validators.ctx['per_operation'][validators.ctx['current_operation_name']]" in conds["operation"][1] and \
        "validators.ctx['per_fragment'][validators.ctx['current_fragment_name']]" in conds["fragment"][1] and conds["operation"][2] == bname and conds["fragment"][2] == bname
    ck.ob("_parse_fragment_spread files the spread under the operation or the fragment being parsed, whichever it is in", ok, fs, per[0] if per else fs.node,
          construct="bookkeeping:spreads:owner", detail=str({k: sorted(v[0]) for k, v in conds.items()}))
    od = w.trans.func("_parse_operation_definition")
    st = {}
    for n in walk_no_nested(od.node):
        if isinstance(n, ast.Assign):
            st[unparse(n.targets[0])] = n.value
    from ..q import ifexp_parts
    ok = ifexp_parts(st.get("name")) == ("operation_definition_ast['name']", "_parse_name(operation_definition_ast['name'])", "None") and \
        ifexp_parts(st.get("validators.ctx['current_operation_name']")) == ("name", "name.value", "'None'") and unparse(st.get("validators.ctx['in_operation']")) == "True"
    sd = [c for c in FuncView(od).calls("setdefault") if unparse(c.func.value) == "validators.ctx.setdefault('per_operation', {})"]
    ok = ok and len(sd) == 1 and ifexp_parts(sd[0].args[0]) == ("name", "name.value", "'None'")
    ck.ob("_parse_operation_definition: the operation's bookkeeping key is its name ('None' for the anonymous one) and in_operation is set", ok, od, od.node,
          construct="bookkeeping:operation-key")
    fd = w.trans.func("_parse_fragment_definition")
    st = {unparse(n.targets[0]): n.value for n in walk_no_nested(fd.node) if isinstance(n, ast.Assign)}
    ok = unparse(st.get("validators.ctx['in_operation']")) == "False" and unparse(st.get("validators.ctx['current_fragment_name']")) == "name.value" and \
        unparse(st.get("name")) == "_parse_name(fragment_definition_ast['name'])"
    ck.ob("_parse_fragment_definition: the fragment's bookkeeping key is its name and in_operation is cleared", ok, fd, fd.node, construct="bookkeeping:fragment-key")
    pa = w.trans.func("_parse_argument")
    pv = FuncView(pa)
    ctor = pv.maybe_call("ArgumentNode")
    rets = pv.returns()
    built = unparse(pv.stmt_of(ctor).targets[0]) if ctor is not None and isinstance(pv.stmt_of(ctor), ast.Assign) else None
    ck.ob("_parse_argument returns the node it built", built is not None and len(rets) == 1 and unparse(rets[0].value) == built, pa, rets[0] if rets else pa.node, construct="returns:_parse_argument")
    # paths are threaded
    for s in w.sites:
        p = s.kw.get("path")
        ok = p is not None and unparse(p) in ("path", "None")
        ck.ob(f"{s.func.name}: the {s.rule} site passes the current path", ok, s.func, s.call, construct=f"path:{s.func.name}:{s.rule}")


def _context_plumbing(ck, repo, w):
    ctx_keys = set(w.ctx_writes)
    for r in sorted(w.rule_classes):
        m = w.validate_method(r)
        required, optional, _ = signature(m)
        passed = set()
        for s in w.sites_of(r):
            passed |= set(s.kw)
        for p in optional:
            if p in passed or p in ("path", "schema"):
                continue
            ck.ob(f"{r}: optional parameter `{p}` that no call site passes is a context key written by the transformer", p in ctx_keys, m, m.node,
                  construct=f"plumbing:{r}:{p}", detail=f"context keys written: {sorted(ctx_keys)}")
    # record shapes: keys of dict records written vs. read
    readers = {
        "args_using_var": [RULES_PKG + "all_variable_usages_are_allowed.py"],
        "spreaded_in": [RULES_PKG + "fragment_spread_is_possible.py"],
    }
    for key, files in readers.items():
        written = set()
        for f in w.trans.funcs.values():
            for n in walk_no_nested(f.node):
                if isinstance(n, ast.Call) and callee_last(n) == "append" and n.args and isinstance(n.args[0], ast.Dict):
                    chain = unparse(n.func.value)
                    if f"'{key}'" in chain:
                        written |= {k.value for k in n.args[0].keys if isinstance(k, ast.Constant)}
        read = set()
        for rel in files:
            mod = repo.mod(rel)
            for n in ast.walk(mod.tree):
                if isinstance(n, ast.Subscript) and isinstance(n.slice, ast.Constant) and isinstance(n.slice.value, str) and isinstance(n.ctx, ast.Load):
                    base = unparse(n.value)
                    if base.split("[")[0] in ("used_arg", "arg_info", "spread") or base.startswith("locations["):
                        read.add(n.slice.value)
        ck.ob(f"records stored under `{key}` carry every field the reading rule uses", bool(written) and read <= written, where=TRANS, construct=f"plumbing:record:{key}",
              detail=f"written {sorted(written)} read {sorted(read)}")
    _context_freshness(ck, repo, w)
    for key in ("used_vars", "spreads", "args_using_var"):
        writers = [f.name for f in w.trans.funcs.values() for n in walk_no_nested(f.node) if isinstance(n, ast.Call) and callee_last(n) == "setdefault"
                   and n.args and isinstance(n.args[0], ast.Constant) and n.args[0].value == key]
        rd = 0
        for rel, mod in repo.by_relpath.items():
            if rel.startswith(RULES_PKG):
                rd += sum(1 for n in ast.walk(mod.tree) if isinstance(n, ast.Constant) and n.value == key)
        ck.ob(f"per-operation / per-fragment record `{key}` is written for both scopes and read by a rule", len(writers) == 2 and rd >= 1, where=TRANS,
              construct=f"plumbing:scoped:{key}", detail=f"writers {writers}, reads {rd}")


def _context_freshness(ck, repo, w):
    """A context key that a parser writes for its children (without save/restore) must still hold that
    value when a child reads it: inside the writer, no call that can reach a reader of the key is
    evaluated after a call that can reach another writer of it."""
    from ..effects import CallGraph
    trans = w.trans
    funcs = trans.funcs
    # local call graph of the transformer module, dispatch tables included
    def callees(f):
        out = set()
        for c in FuncView(f).calls():
            d = c.func
            if isinstance(d, ast.Name) and d.id in funcs:
                out.add(d.id)
            elif isinstance(d, ast.Subscript) and isinstance(d.value, ast.Name) and d.value.id in trans.assigns and isinstance(trans.assigns[d.value.id], ast.Dict):
                out |= {unparse(v) for v in trans.assigns[d.value.id].values if unparse(v) in funcs}
        return out
    direct = {n: callees(f) for n, f in funcs.items() if "." not in n}
    def reach(names):
        seen, todo = set(), list(names)
        while todo:
            x = todo.pop()
            if x in seen or x not in direct:
                continue
            seen.add(x)
            todo.extend(direct[x])
        return seen
    readers, writers = {}, {}
    for n, f in funcs.items():
        for x in walk_no_nested(f.node):
            if isinstance(x, ast.Subscript) and unparse(x.value) == "validators.ctx" and isinstance(x.slice, ast.Constant):
                (readers if isinstance(x.ctx, ast.Load) else writers).setdefault(x.slice.value, set()).add(n)
            if isinstance(x, ast.Call) and callee_last(x) == "get" and unparse(x.func.value) == "validators.ctx" and x.args and isinstance(x.args[0], ast.Constant):
                readers.setdefault(x.args[0].value, set()).add(n)
    n_checked = 0
    for key in sorted(writers):
        if key == "parent_type_name":
            continue  # save/restore discipline: C06.R3 / C07.R7
        for wn in sorted(writers[key]):
            f = funcs[wn]
            fv = FuncView(f)
            events = []
            for x in walk_no_nested(f.node):
                if isinstance(x, ast.Assign) and any(isinstance(t, ast.Subscript) and unparse(t) == f"validators.ctx['{key}']" for t in x.targets):
                    events.append(((x.end_lineno, x.end_col_offset), "write", x))
                elif isinstance(x, ast.Call):
                    tg = set()
                    if isinstance(x.func, ast.Name) and x.func.id in funcs:
                        tg = {x.func.id}
                    elif isinstance(x.func, ast.Subscript) and isinstance(x.func.value, ast.Name) and x.func.value.id in trans.assigns and isinstance(trans.assigns[x.func.value.id], ast.Dict):
                        tg = {unparse(v) for v in trans.assigns[x.func.value.id].values if unparse(v) in funcs}
                    if tg:
                        r = reach(tg)
                        # readers reached without first crossing a function that (re)writes the key itself
                        seen, todo = set(), list(tg)
                        while todo:
                            y = todo.pop()
                            if y in seen or y not in direct:
                                continue
                            seen.add(y)
                            if y in writers[key]:
                                continue
                            todo.extend(direct[y])
                        unshielded = {y for y in seen if y not in writers[key]}
                        events.append(((x.end_lineno, x.end_col_offset), "call", x, bool(unshielded & readers.get(key, set())), bool(r & writers[key])))
            events.sort(key=lambda e: e[0])
            stale = False
            bad = None
            started = False
            for e in events:
                if e[1] == "write":
                    stale, started = False, True
                elif started:
                    if e[3] and stale:
                        bad = bad or e[2]
                    if e[4]:
                        stale = True
            n_checked += 1
            ck.ob(f"{wn}: children that read context key `{key}` are parsed before any child that can overwrite it", bad is None, f, bad if bad is not None else f.node,
                  construct=f"freshness:{wn}:{key}",
                  detail="e.g. parsing a field's selection set before its arguments leaves `current_field_name` naming the last nested field: the argument's variable usage is recorded under the wrong field and never type-checked")
    ck.counts["context_key_writers_checked"] = n_checked


def _errors_kept(ck, repo, w):
    v = repo.func("tartiflette/language/validators/__init__.py", "Validators.validate")
    vv = FuncView(v)
    ext = [c for c in vv.calls("extend") if unparse(c.func.value) == "self.errors"]
    rc = vv.maybe_call("validate")
    ok = len(ext) == 1 and rc is not None
    if ok:
        st = vv.stmt_of(rc)
        ok = isinstance(st, ast.Assign) and unparse(ext[0].args[0]) == unparse(st.targets[0]) and set(vv.conditions(ext[0])) == {("self._abort", "F")} and \
            set(vv.conditions(rc)) == {("self._abort", "F")} and unparse(rc.func.value) == f"self.rules[{v.positional_params[1]}]"
        ok = ok and vv.all_paths_to_return_pass([ext[0]], start=st)
    ck.ob("Validators.validate: unless aborted, the named rule runs and its errors are appended on every path", ok, v, ext[0] if ext else v.node, construct="dispatch:append")
    ab = [n for n in walk_no_nested(v.node) if isinstance(n, ast.Assign) and unparse(n.targets[0]) == "self._abort"]
    ok = len(ab) == 1 and unparse(ab[0].value) == "True" and ext and vv.dominated_by(ext[0], ab[0]) is False
    conds = set(vv.conditions(ab[0])) if ab else set()
    ck.ob("Validators.validate: the abort flag is raised only by an aborting rule that reported errors (and those errors are still appended)",
          len(ab) == 1 and (f"self.rules[{v.positional_params[1]}].abort", "T") in conds and ("rule_errors", "T") in conds, v, ab[0] if ab else v.node,
          construct="dispatch:abort")
    n_err = 0
    for rel, mod in sorted(repo.by_relpath.items()):
        if not rel.startswith(RULES_PKG) or rel.endswith(("__init__.py", "rule.py")):
            continue
        for f in mod.funcs.values():
            fv = FuncView(f)
            # (a) every error object built flows to what is returned
            for c in fv.calls("graphql_error_from_nodes"):
                n_err += 1
                ck.ob(f"{f.qualname}: the error built here reaches the returned list", _flows_to_return(fv, c), f, c, construct=f"flows:{f.qualname}:{_short(c)}")
            # (b) no early return inside a loop over candidates
            if not (f.name == "validate" or f.name.startswith("_validate")):
                continue
            for r in fv.returns():
                loops = [l for l in fv.enclosing_loops(r) if isinstance(l, ast.For)]
                if not loops:
                    continue
                in_handler = fv.enclosing(r, (ast.ExceptHandler,)) is not None
                ck.ob(f"{f.qualname}: no early return inside the loop over candidate sites (later candidates would never be checked)", in_handler, f, r,
                      construct=f"early-return:{f.qualname}",
                      detail="returning the verdict of the first candidate skips the others" if not in_handler else "returns the caught, non-empty error list of an aborting rule")
    ck.count("error_constructions_in_rules", n_err, 30)
    # parse_and_validate_query refuses when errors exist (path outcome table, shape-independent)
    from .. import parsegate
    parsegate.check(ck, repo, tag="refuse")
    d = w.trans.func("document_from_ast_json")
    c = FuncView(d).maybe_call("DocumentNode")
    ck.ob("the document carries the validators object whose errors were accumulated", c is not None and arg_text(c, None, "validators") == "validators", d, c or d.node,
          construct="refuse:validators-kept")


def _short(c):
    m = arg(c, 0, "message")
    return (unparse(m)[:40] if m is not None else "?")


def _flows_to_return(fv, call) -> bool:
    cur = call
    for a in fv.ancestors(call):
        if isinstance(a, ast.Return):
            return True
        if isinstance(a, ast.Call) and a is not call and callee_last(a) in ("append", "extend") and isinstance(a.func, ast.Attribute):
            name = unparse(a.func.value)
            rets = [unparse(r.value) for r in fv.returns() if r.value is not None]
            if name in rets:
                return True
            # passed on to a helper / returned through reassignment
            return any(name in [x.id for x in ast.walk(r.value) if isinstance(x, ast.Name)] for r in fv.returns() if r.value is not None)
        if isinstance(a, ast.Assign):
            t = unparse(a.targets[0])
            if t.startswith("self."):
                return True  # exception payload (cycle rule), returned by validate's handler
            rets = [r for r in fv.returns() if r.value is not None and t in [x.id for x in ast.walk(r.value) if isinstance(x, ast.Name)]]
            return bool(rets)
        if isinstance(a, (ast.FunctionDef, ast.AsyncFunctionDef)):
            return False
        cur = a
    return False


def _nothing_runs(ck, repo):
    for name, callee in (("Engine._perform_query", "execute"), ("Engine._perform_subscription", "create_source_event_stream")):
        f = repo.func("tartiflette/engine.py", name)
        fv = FuncView(f)
        c = fv.maybe_call(callee)
        flag = f.positional_params[3]
        ok = c is not None and fv.guarded(c, lambda t: t == flag, "F")
        ck.ob(f"{name}: {callee} runs only without parsing/validation errors", ok, f, c or f.node, construct=f"gate:{name}")
        rb = [b for b in fv.calls("_build_response") if fv.guarded(b, lambda t: t == flag, "T")]
        ok = len(rb) == 1 and arg_text(rb[0], None, "errors") == flag
        ck.ob(f"{name}: with errors it answers an errors-only response built from those errors", ok, f, rb[0] if rb else f.node, construct=f"gate:{name}:response")
        others = [x for x in fv.calls(["execute", "create_source_event_stream"]) if fv.guarded(x, lambda t: t == flag, "T")]
        ck.ob(f"{name}: nothing is executed on the error branch", not others, f, others[0] if others else f.node, construct=f"gate:{name}:no-exec")
    for name, ex in (("Engine.execute", "_query_executor"), ("Engine.subscribe", "_subscription_executor")):
        f = repo.func("tartiflette/engine.py", name)
        from ..q import inlined_view as _iv
        fv = _iv(repo, f)
        pc = fv.maybe_call("_cached_parse_and_validate_query")
        st = fv.stmt_of(pc) if pc is not None else None
        ok = isinstance(st, ast.Assign) and isinstance(st.targets[0], ast.Tuple) and len(st.targets[0].elts) == 2
        c = fv.maybe_call(ex)
        if ok and c is not None:
            d, e = [unparse(x) for x in st.targets[0].elts]
            ok = [unparse(a) for a in c.args][:3] == ["self._schema", d, e]
        ck.ob(f"{name}: passes the (document, errors) pair of the cached parse to the executor", bool(ok and c is not None), f, c or f.node, construct=f"pass-through:{name}")
    from .. import parsegate
    parsegate.check(ck, repo, tag="gate:parse")
    # bake_execute wires _perform_query/_perform_subscription as the innermost callable
    e = repo.func("tartiflette/engine.py", "Engine.cook")
    c = FuncView(e).maybe_call("bake_execute")
    ok = c is not None and [unparse(a) for a in c.args] == ["self._perform_query", "self._perform_subscription"]
    ck.ob("Engine.cook: the executors wrap _perform_query / _perform_subscription (the gates above)", ok, e, c or e.node, construct="gate:wired")


def single_root_traversal(ck, repo):
    """SingleRootField looks through named and inline fragments: the root of a subscription may be a spread
    (shared with C14.R2: a subscription with several root fields must get one errors-only response)."""
    single_root_terms(ck, repo)
    ff = repo.func(RULES_PKG + "single_root_field.py", "_find_fragment")
    r = [x for x in FuncView(ff).returns() if unparse(x.value) != "None"]
    ok = len(r) == 1 and (f"{unparse(r[0].value)}.name.value == {ff.positional_params[1]}", "T") in FuncView(ff).conditions(r[0])
    ck.ob("single-root-field: _find_fragment returns the fragment of that name", ok, ff, ff.node, construct="single-root:find")
    v = repo.func(RULES_PKG + "single_root_field.py", "SingleRootField.validate")
    vv = FuncView(v)
    c = vv.maybe_call("_validate_selection_set")
    ok = c is not None and (f"operation.operation_type == 'subscription'", "T") in vv.conditions(c) and [unparse(a) for a in c.args][:3] == ["operation", "operation.selection_set", "definitions['FragmentDefinition']"]
    ck.ob("single-root-field: applied to every subscription operation with the document's fragments", ok, v, c or v.node, construct="single-root:applied")


def _cycle_traversal(ck, repo):
    # what the rule answers - every fragment a starting point, spreads followed, fields and inline fragments descended into - is
    # decided by interpreting it on every spread graph over three fragments (E13, shared with C06.R2)
    c06.cycle_rule_terms(ck, repo)
    # the instance registered in RULE_SET aborts the remaining rules (they recurse through spreads without a visited set)
    w = Wiring(repo)
    inst = w.rule_set.get("fragment-spreads-must-not-form-cycles")
    ok = inst is not None and (arg_text(inst[1], 0, "abort") == "True")
    ck.ob("cycle rule is registered as aborting: rules that recurse through spreads never run on a cyclic document", ok, where=RULES_PKG + "__init__.py",
          construct="cycle:abort")
    d = w.trans.func("_parse_definitions")
    sites = [s for s in w.sites if s.func is d]
    first = sites[0].rule if sites else None
    ck.ob("cycle rule is the first document-level rule to run", first == "fragment-spreads-must-not-form-cycles", d, sites[0].call if sites else d.node,
          construct="cycle:first")


def single_root_terms(ck, repo):
    """E13: SingleRootField._validate_selection_set interpreted over every selection-set shape up to three fragments deep
    (field / found spread / unknown spread / inline fragment, zero to two selections per level) and compared with the
    decision the rule implements: the set reached by following a lone spread or inline fragment is in error iff it holds
    more than one selection; an unknown fragment is somebody else's business.  Independent of how the traversal is written
    (recursive validation, find-the-root helper plus one count, loop)."""
    from .. import absint
    from ..absint import RecV, Sym, App
    cls = repo.cls(RULES_PKG + "single_root_field.py", "SingleRootField")
    f = repo.func(RULES_PKG + "single_root_field.py", "SingleRootField._validate_selection_set")
    counter = itertools.count()

    def field():
        return RecV("FieldNode", _label="f")

    def sset(sels):
        return RecV("SelectionSetNode", selections=list(sels), _label="{" + " ".join(repr(x) for x in sels) + "}")

    def shapes(depth):
        base = [[], [field()], [field(), field()]]
        out = [("plain", sset(b), [], "error" if len(b) > 1 else "ok") for b in base]
        if depth == 0:
            return out
        inner = shapes(depth - 1)
        for tag, ss, frags, verdict in inner:
            il = RecV("InlineFragmentNode", selection_set=ss, _label="...on X " + repr(ss))
            out.append(("inline", sset([il]), frags, verdict))
            name = f"F{next(counter)}"
            sp = RecV("FragmentSpreadNode", name=RecV("NameNode", value=name), _label="..." + name)
            fd = RecV("FragmentDefinitionNode", name=RecV("NameNode", value=name), selection_set=ss, _label="fragment " + name)
            out.append(("spread", sset([sp]), frags + [fd], verdict))
            # a fragment next to a field: two selections at this level, whatever the fragment holds
            out.append(("inline+field", sset([il, field()]), frags, "error"))
        unk = RecV("FragmentSpreadNode", name=RecV("NameNode", value="Nope"), _label="...Nope")
        out.append(("unknown-spread", sset([unk]), [], "ok"))
        return out

    import itertools as _it
    n = 0
    for tag, ss, frags, verdict in shapes(3):
        for named in (True, False):
            op = RecV("OperationDefinitionNode", name=RecV("NameNode", value="S") if named else None, selection_set=ss, operation_type="subscription")
            it = absint.Interp(repo, f.module, classes={"SingleRootField": cls})
            me = RecV("SingleRootField", _extensions=Sym("extensions"))
            try:
                got = it.run(f, [me, op, ss, list(frags), Sym("path")])
                kind = "ok" if got == [] else ("error" if isinstance(got, list) and len(got) == 1 and isinstance(got[0], App) and repr(got[0].func).endswith("graphql_error_from_nodes") else f"other: {got!r}")
            except absint.Unsupported as e:
                raise AnalysisError(f"{f.short}: cannot be interpreted over selection shapes: {e}")
            except absint.PyRaise as e:
                kind = f"raises {e.name}"
            n += 1
            ck.ob(f"single-root-field on {ss!r}: {verdict}", kind == verdict, f, f.node, construct=f"single-root:shape:{tag}:{ss!r}"[:120], detail=f"got {kind}")
    ck.count("single_root_shapes", n, 40)
