"""C09 - mutation root fields run serially, in document order."""
from __future__ import annotations

import ast

from .. import asyncrules
from ..model import AnalysisError, dotted, unparse, walk_no_nested
from ..q import FuncView, arg_text, callee_last, contains, ifexp_parts, strip_await

EXPLANATION = (
    "The executor is selected by operation type (mutation -> serial) with checked polarity; in the serial executor the "
    "per-field resolve call is the direct operand of an await inside a plain for loop over the collected mapping (not "
    "stored, not gathered, no asyncio API, no try, no early exit), results are stored under the entry key in loop order; "
    "together with structured concurrency (nothing outlives its awaiter, C08.R1) the await returns only when the whole "
    "sub-selection finished. Residual assumption: asyncio's semantics of await."
)
EXE = "tartiflette/execution/execute.py"


def check(ck):
    repo = ck.repo
    with ck.rule("R1"):
        f = repo.func(EXE, "execute_operation")
        fv = FuncView(f)
        p = f.positional_params
        # path rows, operands resolved (the executor may be picked into a local first, or by a conditional expression)
        from ..pathtab import outcome_rows as _rows, truth as _truth
        from ..q import inlined_view as _iv
        seen_ = {}
        cases_ = []
        for r_ in _rows(fv):   # (the executors are functions of this module: not looked through)
            if r_["exit"] != "return_exit" or r_["ret"] is None:
                continue
            v_ = strip_await(r_["ret"])
            if isinstance(v_, ast.IfExp):   # `await (A(...) if c else B(...))`: one case per arm
                cases_.append((r_, v_.body, "T" if unparse(v_.test) == f"{p[1]}.operation_type == 'mutation'" else None))
                cases_.append((r_, v_.orelse, "F" if unparse(v_.test) == f"{p[1]}.operation_type == 'mutation'" else None))
            else:
                cases_.append((r_, v_, _truth(r_, f"{p[1]}.operation_type == 'mutation'")))
        for r_, call_, mut in cases_:
            if not isinstance(call_, ast.Call) or callee_last(call_) not in ("execute_fields_serially", "execute_fields"):
                continue
            a_ = [unparse(x) for x in call_.args]
            ok_ops = len(a_) == 5 and a_[0] == p[0] and a_[2] == p[2] and a_[3] == "None" and a_[1].endswith(f"get_operation_root_type({p[1]})") and "collect_fields(" in a_[4]
            seen_[(mut, callee_last(call_))] = ok_ops and isinstance(r_["ret"], ast.Await)
        ck.ob("execute_operation: mutation -> serial executor, otherwise the concurrent one", set(seen_) == {("T", "execute_fields_serially"), ("F", "execute_fields")}, f, f.node,
              construct="select:by-type", detail=str(sorted(map(str, seen_))))
        for name in ("execute_fields_serially", "execute_fields"):
            oks = [v for (m_, n_), v in seen_.items() if n_ == name]
            ck.ob(f"execute_operation: {name} gets (ctx, operation root type, root value, no path, collected root fields)", bool(oks) and all(oks), f, f.node, construct=f"select:operands:{name}")
        cf = fv.maybe_call("collect_fields")
        ck.ob("execute_operation: root fields are collected from the operation's selection set for the operation's root type",
              cf is not None and [unparse(x) for x in cf.args] == [p[0], "operation_root_type", f"{p[1]}.selection_set"], f, cf or f.node, construct="select:collect")
        rt = fv.maybe_call("get_operation_root_type")
        ck.ob("execute_operation: the root type is looked up for this operation", rt is not None and [unparse(x) for x in rt.args] == [p[1]], f, rt or f.node, construct="select:root-type")
        g = repo.func("tartiflette/schema/schema.py", "GraphQLSchema.get_operation_root_type")
        r = [x for x in FuncView(g).returns()]
        ck.ob("get_operation_root_type maps the operation type to the schema's root type of that kind",
              len(r) == 1 and unparse(r[0].value) == f"self._operation_types[{g.positional_params[1]}.operation_type]", g, g.node, construct="select:root-lookup")
        b = repo.func("tartiflette/schema/schema.py", "GraphQLSchema.bake")
        st = [n for n in walk_no_nested(b.node) if isinstance(n, ast.Assign) and unparse(n.targets[0]) == "self._operation_types" and isinstance(n.value, ast.Dict)]
        ok = False
        if len(st) == 1:
            d = {unparse(k): unparse(v) for k, v in zip(st[0].value.keys, st[0].value.values)}
            ok = all(d.get(f"'{k}'") == f"self.type_definitions.get(self.{k}_operation_name)" for k in ("query", "mutation", "subscription"))
        ck.ob("GraphQLSchema.bake: each operation kind maps to the type named by that kind's operation name", ok, b, st[0] if st else b.node, construct="select:root-table")
    with ck.rule("R2"):
        s = repo.func(EXE, "execute_fields_serially")
        sv = FuncView(s)
        sp = s.positional_params
        loops = [l for l in sv.loops()]
        ck.ob("execute_fields_serially: one plain `for` loop", len(loops) == 1 and isinstance(loops[0], ast.For), s, s.node, construct="serial:one-loop")
        lp = loops[0]
        ck.ob("execute_fields_serially: iterates the collected mapping in its own order", unparse(lp.iter) == f"{sp[4]}.items()", s, lp, construct="serial:order")
        rc = [c for c in sv.calls() if contains(lp, c) and (callee_last(c) in ("resolve_field", "resolver"))]
        ok = len(rc) == 1 and sv.is_awaited(rc[0]) and sv.in_comprehension(rc[0]) is None
        ck.ob("execute_fields_serially: the field is resolved by a call that is the direct operand of `await`, inside the loop body", ok, s, rc[0] if rc else lp,
              construct="serial:await-in-loop", detail="storing or gathering the coroutine would start the next root field before this one completed")
        ck.ob("execute_fields_serially: no asyncio API", not [c for c in sv.calls() if (dotted(c.func) or "").startswith("asyncio.")], s, s.node, construct="serial:no-asyncio")
        ck.ob("execute_fields_serially: no try and no early exit that could leave the loop", not sv.handlers() and not any(isinstance(n, (ast.Break, ast.Return)) for n in walk_no_nested(lp)),
              s, lp, construct="serial:no-early-exit")
        ck.ob("execute_fields_serially: is a coroutine function awaited by execute_operation", s.is_async, s, s.node, construct="serial:async")
        st = [n for n in walk_no_nested(lp) if isinstance(n, ast.Assign) and isinstance(n.targets[0], ast.Subscript)]
        key = unparse(lp.target.elts[0]) if isinstance(lp.target, ast.Tuple) else "?"
        ck.ob("execute_fields_serially: results are stored under the entry key, in loop order", len(st) == 1 and unparse(st[0].targets[0]) == f"results[{key}]", s,
              st[0] if st else lp, construct="serial:store")
        from .c01 import serial_twin, _resolve_field_forward
        serial_twin(ck, repo)
        _resolve_field_forward(ck, repo)
        init = [n for n in walk_no_nested(s.node) if isinstance(n, ast.Assign) and unparse(n.targets[0]) == "results"]
        ck.ob("execute_fields_serially: the result mapping is a plain dict (insertion order = document order)", len(init) == 1 and unparse(init[0].value) in ("{}", "dict()"), s,
              init[0] if init else s.node, construct="serial:dict")
    # "in document order": the mapping the serial loop iterates is filled by collect_fields in first-appearance order
    # (accumulate-form stores only: a key is never removed and re-inserted) - C01.R1-R5
    with ck.pinned("R4"):
        from . import c01
        c01.collection_rules(ck, repo)
    with ck.rule("R3"):
        asyncrules.check_structured_concurrency(ck, repo, ("tartiflette/coercers/", "tartiflette/execution/", "tartiflette/resolver/", "tartiflette/utils/"))
        asyncrules.check_field_execution_gathers(ck, repo)
        # a failing nullable root field yields null and the loop goes on: the failure funnel (C02.R1/R2) and
        # the placement of argument coercion inside the field's own try (C05.R2) are C09 obligations too
        from . import c02, c05
        c02.r1(ck, repo)
        c02.r2(ck, repo)
        c05.field_funnel(ck, repo)
        c02.operation_catch(ck, repo)
        rf = repo.func(EXE, "resolve_field")
        rv = FuncView(rf)
        c = rv.maybe_call("resolver")
        ck.ob("execute.resolve_field awaits the field's baked resolver (completion of the whole sub-selection)", c is not None and rv.is_awaited(c), rf, c or rf.node,
              construct="serial:resolve-awaits")
        fr = repo.func("tartiflette/resolver/factory.py", "resolve_field")
        fv2 = FuncView(fr)
        c = fv2.maybe_call("complete_value_catching_error")
        ck.ob("factory.resolve_field awaits the completion of the resolved value", c is not None and fv2.is_awaited(c), fr, c or fr.node, construct="serial:complete-awaits")
