"""C11 - introspection describes exactly the schema that was supplied (tables)."""
from __future__ import annotations

import ast
import itertools
import os
import re

from ..model import AnalysisError, Class, dotted, unparse, walk_no_nested
from ..pathtab import Atoms, canon, evaluate
from ..q import FuncView, arg, arg_text, callee_last, contains, kwargs, strip_await
from .c04 import _ret_class

EXPLANATION = (
    "Agreement of the tables along the path SDL text -> lark tree -> AST -> schema objects -> introspection fields: the "
    "child kinds each grammar rule can produce (expanded BNF obtained from lark, used as a grammar *reader* only) are "
    "accepted by the matching converter and every extracted key reaches the AST node constructor; every AST definition "
    "class has a schema builder that reads all of its slots; every extension merges all of its parts; every field of "
    "the introspection SDL is exposed by every Python class that can inhabit its type, with the right `kind`; "
    "deprecation flags, includeDeprecated filtering, hiding and unknown-type lookups follow their tables; the four ways "
    "of supplying SDL reach the same store. Not decided: the round trip model -> SDL -> engine -> introspection -> "
    "model for all schemas (needs execution); textual fidelity of default values."
)
LARK_DIR = "tartiflette/language/parsers/lark/"
CONV = LARK_DIR + "transformers/converters.py"
NODET = LARK_DIR + "transformers/node_transformer.py"
GRAMMAR = LARK_DIR + "graphql_sdl_grammar.lark"
STF = "tartiflette/schema/transformer.py"

INHABITANTS = {
    "__Schema": [("tartiflette/schema/schema.py", "GraphQLSchema")],
    "__Type": [("tartiflette/types/scalar.py", "GraphQLScalarType"), ("tartiflette/types/object.py", "GraphQLObjectType"), ("tartiflette/types/interface.py", "GraphQLInterfaceType"),
               ("tartiflette/types/union.py", "GraphQLUnionType"), ("tartiflette/types/enum.py", "GraphQLEnumType"), ("tartiflette/types/input_object.py", "GraphQLInputObjectType"),
               ("tartiflette/types/list.py", "GraphQLList"), ("tartiflette/types/non_null.py", "GraphQLNonNull")],
    "__Field": [("tartiflette/types/field.py", "GraphQLField")],
    "__InputValue": [("tartiflette/types/argument.py", "GraphQLArgument"), ("tartiflette/types/input_field.py", "GraphQLInputField")],
    "__EnumValue": [("tartiflette/types/enum.py", "GraphQLEnumValue")],
    "__Directive": [("tartiflette/types/directive.py", "GraphQLDirective")],
}
KIND = {"GraphQLScalarType": "SCALAR", "GraphQLObjectType": "OBJECT", "GraphQLInterfaceType": "INTERFACE", "GraphQLUnionType": "UNION", "GraphQLEnumType": "ENUM",
        "GraphQLInputObjectType": "INPUT_OBJECT", "GraphQLList": "LIST", "GraphQLNonNull": "NON_NULL"}
# fields that must be non-null for a kind (spec 4.5.2), beyond the SDL's own non-null markers
REQUIRED_BY_KIND = {"OBJECT": {"name", "fields", "interfaces"}, "INTERFACE": {"name", "fields", "possibleTypes"}, "UNION": {"name", "possibleTypes"}, "ENUM": {"name", "enumValues"},
                    "INPUT_OBJECT": {"name", "inputFields"}, "SCALAR": {"name"}, "LIST": {"ofType"}, "NON_NULL": {"ofType"}}


def check(ck):
    repo = ck.repo
    with ck.rule("R1"):
        _grammar_tables(ck, repo)
        string_token_rows(ck, repo)
    with ck.rule("R2"):
        _ast_to_schema(ck, repo)
    with ck.rule("R3"):
        _introspection_tables(ck, repo)
    with ck.rule("R4"):
        _deprecation_and_hiding(ck, repo)
        schema_marked_non_introspectable(ck, repo)
        # deprecation reasons (and every other directive argument shown or acted on) are read per directive *instance*: each
        # instance's arguments coercer is bound to its own node and definition (C13.R2)
        from .c13 import bound_coerce_arguments
        g_ = repo.func("tartiflette/types/helpers/get_directive_instances.py", "compute_directive_nodes")
        site_, kw_ = bound_coerce_arguments(repo, g_)
        lps_ = [l for l in FuncView(g_).loops() if isinstance(l, ast.For) and unparse(l.iter) == g_.positional_params[1]]
        node_var = unparse(lps_[0].target) if lps_ else "directive_node"
        ok_ = kw_ is not None and kw_.get("node") == node_var and kw_.get("argument_definitions", "").endswith(".arguments") and site_ is not None and \
            (not lps_ or any(x is site_ for x in ast.walk(lps_[0])) or isinstance(site_, ast.Call) and any(x is site_ for l_ in lps_ for x in ast.walk(l_)))
        ck.ob("compute_directive_nodes: each directive instance reads its arguments from its own node (deprecation reasons are not mixed up between directives of one element)",
              bool(ok_), g_, site_ if site_ is not None else g_.node, construct="deprecated:instance-arguments", detail=str(kw_))
    with ck.rule("R5"):
        _sdl_assembly(ck, repo)
    with ck.rule("R6"):
        # "for any valid SDL the engine builds": the covariance clauses a valid implementation relies on
        from .c12 import interface_field_type_table
        interface_field_type_table(ck, repo, side="accept")


# ---------------------------------------------------------------------------


def _load_grammar(repo):
    try:
        from lark import Lark
    except ImportError:
        raise AnalysisError("lark is not importable: the grammar table (C11.R1) cannot be read")
    text = repo.read_text(GRAMMAR)
    lark = Lark(text, start="document", parser="lalr", lexer="contextual", propagate_positions=True)
    rules = {}
    for r in lark.rules:
        name = str(r.origin.name)
        rules.setdefault(name, {"alts": [], "expand1": bool(r.options and r.options.expand1)})
        rules[name]["alts"].append([(s.name, s.is_term, bool(getattr(s, "filter_out", False))) for s in r.expansion])
    return rules


def _child_kinds(rules, name, seen=None):
    """Kinds (token types / rule names) a tree built by rule `name` can have as children."""
    out = set()
    for alt in rules[name]["alts"]:
        for sym, is_term, filtered in alt:
            out |= _kinds_of_symbol(rules, sym, is_term, filtered, (seen or set()) | {name})
    return out


def _kinds_of_symbol(rules, sym, is_term, filtered, seen):
    if is_term:
        return set() if filtered else {sym}
    if sym in seen and (sym.startswith("_")):
        return set()
    r = rules[sym]
    if sym.startswith("_"):
        out = set()
        for alt in r["alts"]:
            for s2, t2, f2 in alt:
                out |= _kinds_of_symbol(rules, s2, t2, f2, seen | {sym})
        return out
    if r["expand1"]:
        out = set()
        for alt in r["alts"]:
            vis = [(s2, t2, f2) for s2, t2, f2 in alt if not (t2 and f2)]
            if len(vis) == 1 and not (not vis[0][1] and vis[0][0].startswith("_")):
                out |= _kinds_of_symbol(rules, vis[0][0], vis[0][1], vis[0][2], seen | {sym})
            else:
                out.add(sym)
        return out
    return {sym}


def _grammar_tables(ck, repo):
    rules = _load_grammar(repo)
    conv = repo.mod(CONV)
    nt = repo.cls(NODET, "NodeTransformer")
    visible = [n for n, r in rules.items() if not n.startswith("_") and not r["expand1"]]
    ck.count("grammar_rules", len(visible), 45)
    n_tables = 0
    for rule in sorted(visible):
        m = nt.methods.get(rule)
        ck.ob(f"grammar rule `{rule}` has a NodeTransformer method", m is not None, where=NODET, construct=f"transformer:{rule}",
              detail="lark's Transformer leaves an unhandled tree in place; the parent converter then meets a Tree where it expects a SchemaNode")
        if m is None:
            continue
        mv = FuncView(m)
        sn = [c for c in mv.calls("SchemaNode")]
        if rule == "document":
            st = [n for n in walk_no_nested(m.node) if isinstance(n, ast.Assign) and unparse(n.targets[0]) == "self.document_node"]
            ck.ob("NodeTransformer.document keeps the converted DocumentNode", len(st) == 1 and unparse(st[0].value) == "lark_to_document_node(tree)", m, m.node,
                  construct="transformer:document:kept")
        else:
            ok = bool(sn) and all(arg_text(c, None, "type") == repr(rule) for c in sn)
            ck.ob(f"NodeTransformer.{rule} produces a SchemaNode typed `{rule}`", ok, m, sn[0] if sn else m.node, construct=f"transformer:{rule}:type")
        conv_calls = [c for c in mv.calls() if isinstance(c.func, ast.Name) and c.func.id.startswith("lark_to_")]
        for cc in conv_calls:
            f = conv.funcs.get(cc.func.id)
            if f is None:
                ck.ob(f"converter {cc.func.id} exists", False, m, cc, construct=f"converter:{cc.func.id}:exists")
                continue
            fv = FuncView(f)
            ex = fv.maybe_call("_extract_node_info")
            if ex is None:
                continue
            n_tables += 1
            accepted, keys = set(), set()
            for kw, val in kwargs(ex).items():
                if kw == "types_to_value" and isinstance(val, ast.List):
                    vs = {e.value for e in val.elts if isinstance(e, ast.Constant)}
                    accepted |= vs
                    keys |= vs
                elif kw == "types_to_list" and isinstance(val, ast.Dict):
                    accepted |= {k.value for k in val.keys if isinstance(k, ast.Constant)}
                    keys |= {v.value for v in val.values if isinstance(v, ast.Constant)}
                elif kw == "types_to_ignore" and isinstance(val, ast.List):
                    accepted |= {e.value for e in val.elts if isinstance(e, ast.Constant)}
            produced = _child_kinds(rules, rule)
            missing = produced - accepted
            ck.ob(f"converter {f.name}: accepts every child kind the grammar rule `{rule}` can produce", not missing, f, ex, construct=f"converter:{f.name}:accepts",
                  detail=f"grammar produces {sorted(produced)}; converter accepts {sorted(accepted)}; not accepted: {sorted(missing)} (UnexpectedASTNode for valid SDL)")
            used = {n.slice.value for n in walk_no_nested(f.node) if isinstance(n, ast.Subscript) and unparse(n.value) == "node_info" and isinstance(n.slice, ast.Constant)}
            used |= {c.args[0].value for c in fv.calls("get") if unparse(c.func.value) == "node_info" and c.args and isinstance(c.args[0], ast.Constant)}
            unused = {k for k in keys if k in produced or k in keys} - used
            ck.ob(f"converter {f.name}: every extracted key reaches the AST node constructor", not unused, f, ex, construct=f"converter:{f.name}:keys-used",
                  detail=f"extracted but dropped: {sorted(unused)}")
    ck.count("converter_tables", n_tables, 23)


def _ast_to_schema(ck, repo):
    st = repo.mod(STF)
    defs = [c for c in repo.subclasses("tartiflette.language.ast.base.TypeSystemDefinitionNode") + repo.subclasses("tartiflette.language.ast.base.TypeSystemExtensionNode")
            if c.name not in ("TypeDefinitionNode", "TypeExtensionNode")]
    ck.count("type_system_ast_classes", len(defs), 15)
    tbl = st.assigns.get("_DEFINITION_PARSER_MAPPING")
    mapping = {k.value: unparse(v) for k, v in zip(tbl.keys, tbl.values)} if isinstance(tbl, ast.Dict) else {}
    for c in defs:
        ck.ob(f"schema builder table has an entry for {c.name}", c.name in mapping, where=STF, construct=f"definition-table:{c.name}",
              detail="parse_definition silently skips a definition kind without an entry: the declared type would be missing from the schema")
        fn = st.funcs.get(mapping.get(c.name, ""))
        if fn is None:
            continue
        slots = [s for s in (c.slots or ()) if s != "location"]
        p = fn.positional_params[0]
        read = {n.attr for n in walk_no_nested(fn.node) if isinstance(n, ast.Attribute) and unparse(n.value) in (p, "x")}
        missing = [s for s in slots if s not in read]
        ck.ob(f"{fn.name} reads every part of {c.name} ({', '.join(slots)})", not missing, fn, fn.node, construct=f"builder:{fn.name}:reads-all", detail=f"not read: {missing}")
    vals = [c for c in repo.subclasses("tartiflette.language.ast.base.ValueNode") if c.name != "VariableNode"]
    vt = st.assigns.get("_VALUE_PARSER_MAPPING")
    vmap = {k.value for k in vt.keys} if isinstance(vt, ast.Dict) else set()
    ck.count("const_value_ast_classes", len(vals), 8)
    for c in vals:
        ck.ob(f"SDL value table has an entry for {c.name}", c.name in vmap, where=STF, construct=f"value-table:{c.name}")
    d = st.func("schema_from_document")
    dv = FuncView(d)
    lp = [l for l in dv.loops() if isinstance(l, ast.For) and unparse(l.iter).endswith(".definitions")]
    ok = len(lp) == 1 and len(dv.calls("parse_definition")) == 1 and not any(isinstance(x, (ast.Break, ast.Continue, ast.Return, ast.Try)) for x in walk_no_nested(lp[0]))
    ck.ob("schema_from_document builds every definition of the document", ok, d, lp[0] if lp else d.node, construct="builder:all-definitions")
    # constructors keep what they are given, under the names the introspection SDL uses or a baked alias
    for fn_name, ctor, want in (("parse_object_type_definition", "GraphQLObjectType", {"name", "description", "interfaces", "fields", "directives"}),
                                ("parse_interface_type_definition", "GraphQLInterfaceType", {"name", "description", "fields", "directives"}),
                                ("parse_union_type_definition", "GraphQLUnionType", {"name", "description", "types", "directives"}),
                                ("parse_enum_type_definition", "GraphQLEnumType", {"name", "description", "values", "directives"}),
                                ("parse_input_object_type_definition", "GraphQLInputObjectType", {"name", "description", "fields", "directives"}),
                                ("parse_scalar_type_definition", "GraphQLScalarType", {"name", "description", "directives"}),
                                ("parse_field_definition", "GraphQLField", {"name", "description", "gql_type", "arguments", "directives"}),
                                ("parse_enum_value_definition", "GraphQLEnumValue", {"value", "description", "directives"}),
                                ("parse_directive_definition", "GraphQLDirective", {"name", "description", "locations", "arguments"})):
        fn = st.func(fn_name)
        c = FuncView(fn).maybe_call(ctor)
        ck.ob(f"{fn_name} forwards {sorted(want)} to {ctor}", c is not None and set(kwargs(c)) == want, fn, c or fn.node, construct=f"builder:{fn_name}:forwards",
              detail=str(sorted(kwargs(c))) if c is not None else "no constructor call")
    # every top-level builder registers what it built with the schema it was given, on every path that built something
    REG = {"parse_scalar_type_definition": "add_scalar_definition", "parse_object_type_definition": "add_type_definition", "parse_interface_type_definition": "add_type_definition",
           "parse_union_type_definition": "add_type_definition", "parse_enum_type_definition": "add_enum_definition", "parse_input_object_type_definition": "add_type_definition",
           "parse_directive_definition": "add_directive_definition"}
    REG.update({v: "add_extension" for k, v in mapping.items() if k.endswith("ExtensionNode")})
    for fn_name, adder in sorted(REG.items()):
        fn = st.funcs.get(fn_name)
        if fn is None:
            ck.ob(f"{fn_name} exists", False, where=STF, construct=f"builder:{fn_name}:registers")
            continue
        fv_ = FuncView(fn)
        p0, p1 = fn.positional_params[:2]
        adds = [c for c in fv_.calls(adder) if unparse(c.func.value) == p1]
        built = None
        if len(adds) == 1 and adds[0].args:
            built = unparse(adds[0].args[0])
        src = [n for n in walk_no_nested(fn.node) if isinstance(n, ast.Assign) and built is not None and unparse(n.targets[0]) == built and isinstance(n.value, ast.Call)]
        ok = len(adds) == 1 and len(src) == 1 and set(fv_.conditions(adds[0])) <= {(p0, "T")} and not fv_.enclosing_loops(adds[0]) and fv_.dominated_by(adds[0], src[0])
        ck.ob(f"{fn_name}: what it builds is registered with the schema ({adder}) whenever a node was given", ok, fn, adds[0] if adds else fn.node, construct=f"builder:{fn_name}:registers",
              detail=str(sorted(fv_.conditions(adds[0]))) if adds else None)
        nones = [r_ for r_ in fv_.returns() if unparse(r_.value) == "None"]
        ck.ob(f"{fn_name}: nothing is built only for an absent node", all(set(fv_.conditions(r_)) == {(p0, "F")} for r_ in nones), fn, nones[0] if nones else fn.node,
              construct=f"builder:{fn_name}:absent")
    pd = st.func("parse_definition")
    pdv = FuncView(pd)
    disp = [c for c in pdv.calls() if isinstance(c.func, ast.Name) and c.func.id == "definition_parser"]
    look = [n for n in walk_no_nested(pd.node) if isinstance(n, ast.Assign) and unparse(n.targets[0]) == "definition_parser"]
    ok = len(disp) == 1 and [unparse(a) for a in disp[0].args] == pd.positional_params[:2] and set(pdv.conditions(disp[0])) == {("definition_parser is None", "F")} and \
        len(look) == 1 and unparse(look[0].value) == f"_DEFINITION_PARSER_MAPPING.get({pd.positional_params[0]}.__class__.__name__)"
    ck.ob("parse_definition dispatches every definition whose class has a table entry to that entry, with the schema under construction", ok, pd, disp[0] if disp else pd.node,
          construct="builder:dispatch")
    sr = dv.returns()
    mk = [n for n in walk_no_nested(d.node) if isinstance(n, ast.Assign) and unparse(n.value) == f"GraphQLSchema(name={d.positional_params[1]})"]
    pc = dv.calls("parse_definition")
    ok = len(sr) == 1 and len(mk) == 1 and unparse(sr[0].value) == unparse(mk[0].targets[0]) and len(pc) == 1 and [unparse(a) for a in pc[0].args] == [unparse(lp[0].target) if lp else "?", unparse(mk[0].targets[0])]
    ck.ob("schema_from_document: one fresh schema of the given name receives every definition and is returned", ok, d, sr[0] if sr else d.node, construct="builder:schema-object")
    iv = st.func("parse_input_value_definition")
    dct = [n for n in walk_no_nested(iv.node) if isinstance(n, ast.Dict)]
    keys = {k.value for k in dct[0].keys} if dct else set()
    ck.ob("parse_input_value_definition forwards name, description, type, default value and directives", keys == {"name", "description", "gql_type", "default_value", "directives"}, iv,
          dct[0] if dct else iv.node, construct="builder:input-value:forwards")
    extension_rules(ck, repo)
    schema_extension_merges(ck, repo)
    from .c12 import bake_pipeline
    bake_pipeline(ck, repo)
    sb = repo.func("tartiflette/schema/schema.py", "GraphQLSchema._bake_extensions")
    sv = FuncView(sb)
    lp = [l for l in sv.loops() if isinstance(l, ast.For) and unparse(l.iter) == "self.extensions"]
    ck.ob("every registered extension is applied", len(lp) == 1 and len(sv.calls("bake")) == 1 and not any(isinstance(x, (ast.Break, ast.Continue, ast.Return, ast.Try)) for x in walk_no_nested(lp[0])),
          sb, lp[0] if lp else sb.node, construct="extension:all-applied")


def _sdl_fields(repo):
    text = repo.read_text("tartiflette/schema/builtins/introspection.sdl")
    text = re.sub(r'"""(?:.|\n)*?"""', "", text)
    text = re.sub(r"#[^\n]*", "", text)
    types = {}
    for m in re.finditer(r"\b(type|enum)\s+(\w+)\s*\{([^}]*)\}", text):
        kind, name, body = m.groups()
        if kind == "enum":
            types[name] = ("enum", re.findall(r"\b([A-Z_]+)\b", body))
        else:
            fields = {}
            for fm in re.finditer(r"(\w+)\s*(?:\([^)]*\))?\s*:\s*([\[\]!\w]+)", body):
                fields[fm.group(1)] = fm.group(2)
            types[name] = ("type", fields)
    return types


def _exposed(repo, cls: Class) -> set:
    out = set()
    for c in repo.mro(cls):
        out |= set(c.class_attrs) | set(c.properties()) | set(c.self_attrs())
        for m in c.methods.values():
            for n in walk_no_nested(m.node):
                tg = []
                if isinstance(n, ast.Assign):
                    tg = n.targets
                elif isinstance(n, ast.AnnAssign):
                    tg = [n.target]
                for t in tg:
                    if isinstance(t, ast.Attribute) and isinstance(t.value, ast.Name) and t.value.id == "self":
                        out.add(t.attr)
    return out


def _introspection_tables(ck, repo):
    sdl = _sdl_fields(repo)
    ck.count("introspection_sdl_types", len(sdl), 8)
    kinds = sdl.get("__TypeKind", ("enum", []))[1]
    resolvers = set()
    ib = repo.func("tartiflette/schema/builtins/introspection.py", "bake")
    for c in FuncView(ib).calls("Resolver"):
        if c.args and isinstance(c.args[0], ast.Constant):
            resolvers.add(c.args[0].value)
    n_classes = 0
    for tname, classes in INHABITANTS.items():
        kind, fields = sdl.get(tname, (None, {}))
        if kind != "type":
            raise AnalysisError(f"introspection.sdl: type {tname} not found")
        for rel, cname in classes:
            cls = repo.cls(rel, cname)
            n_classes += 1
            exposed = _exposed(repo, cls)
            k = None
            if tname == "__Type":
                kv = repo.find_class_attr(cls, "kind")
                k = kv.value if isinstance(kv, ast.Constant) else None
                ck.ob(f"{cname}.kind is the __TypeKind member {KIND[cname]}", k == KIND[cname] and k in kinds, where=rel, construct=f"kind:{cname}", detail=f"kind={k}")
            for fname, ftype in sorted(fields.items()):
                required = ftype.endswith("!") or (tname == "__Type" and fname in REQUIRED_BY_KIND.get(KIND.get(cname, ""), set()))
                if not required:
                    continue
                ok = fname in exposed or f"{tname}.{fname}" in resolvers
                ck.ob(f"{cname} exposes `{fname}` (required for {tname}{' of kind ' + KIND[cname] if tname == '__Type' else ''})", ok, where=rel,
                      construct=f"exposes:{cname}.{fname}", detail="the default resolver would answer null for a non-null introspection field")
    ck.count("introspection_inhabitant_classes", n_classes, 14)
    ck.ob("kind constants of the eight type classes are distinct", len({KIND[c] for c in KIND}) == 8, where="tartiflette/types", construct="kind:distinct")
    # the aliases are fed from the declared data at bake time
    sc = repo.func("tartiflette/schema/schema.py", "GraphQLSchema.bake")
    st = {unparse(n.targets[0]): unparse(n.value) for n in walk_no_nested(sc.node) if isinstance(n, ast.Assign)}
    ck.ob("GraphQLSchema.bake: queryType/mutationType/subscriptionType are the root types of the three operation kinds",
          st.get("self.queryType") == "self._operation_types['query']" and st.get("self.mutationType") == "self._operation_types['mutation']" and
          st.get("self.subscriptionType") == "self._operation_types['subscription']", sc, sc.node, construct="alias:roots")
    ck.ob("GraphQLSchema.bake: `directives` lists every directive definition", st.get("self.directives") == "list(self._directive_definitions.values())", sc, sc.node, construct="alias:directives")
    sv = FuncView(sc)
    ap = [c for c in sv.calls("append") if unparse(c.func.value) == "self.types"]
    ok = len(ap) == 1 and set(sv.conditions(ap[0])) == {("type_name.startswith('__')", "F")}
    lp = sv.enclosing(ap[0], (ast.For,)) if ap else None
    ok = ok and lp is not None and unparse(lp.iter) == "self.type_definitions.items()"
    ck.ob("GraphQLSchema.bake: `types` lists every declared type and hides exactly the `__` meta-types", ok, sc, ap[0] if ap else sc.node, construct="alias:types")
    for rel, cname, alias, src in (("tartiflette/types/object.py", "GraphQLObjectType", "fields", "implemented_fields"), ("tartiflette/types/interface.py", "GraphQLInterfaceType", "fields", "implemented_fields")):
        b = repo.func(rel, f"{cname}.bake_fields")
        bv = FuncView(b)
        ap = [c for c in bv.calls("append") if unparse(c.func.value) == f"self.{alias}"]
        lp = bv.enclosing(ap[0], (ast.For,)) if ap else None
        ok = len(ap) == 1 and lp is not None and unparse(lp.iter) == f"self.{src}.values()" and set(bv.conditions(ap[0])) - {(f"self.{src}", "T")} == {("field.name.startswith('__')", "F")}
        ck.ob(f"{cname}.bake_fields: `{alias}` lists every declared field and hides exactly the `__` meta-fields", ok, b, ap[0] if ap else b.node, construct=f"alias:{cname}.{alias}")
    for rel, cname, alias, src in (("tartiflette/types/field.py", "GraphQLField.bake", "args", "arguments"), ("tartiflette/types/directive.py", "GraphQLDirective.bake", "args", "arguments"),
                                   ("tartiflette/types/input_object.py", "GraphQLInputObjectType.bake_input_fields", "inputFields", "input_fields")):
        b = repo.func(rel, cname)
        bv = FuncView(b)
        ap = [c for c in bv.calls("append") if unparse(c.func.value) == f"self.{alias}"]
        lp = bv.enclosing(ap[0], (ast.For,)) if ap else None
        ck.ob(f"{cname}: `{alias}` lists every declared {src[:-1]}", len(ap) == 1 and lp is not None and unparse(lp.iter) == f"self.{src}.values()", b, ap[0] if ap else b.node,
              construct=f"alias:{cname}.{alias}")
    ob = repo.func("tartiflette/types/object.py", "GraphQLObjectType.bake")
    ov = FuncView(ob)
    ap = [c for c in ov.calls("append") if unparse(c.func.value) == "self.interfaces"]
    ad = ov.maybe_call("add_possible_type")
    lp = ov.enclosing(ap[0], (ast.For,)) if ap else None
    ok = len(ap) == 1 and lp is not None and unparse(lp.iter) == "self.interfaces_names" and ad is not None and [unparse(a) for a in ad.args] == ["self"] and contains(lp, ad)
    ck.ob("GraphQLObjectType.bake: `interfaces` lists the declared interfaces and registers the object as a possible type of each", ok, ob, ap[0] if ap else ob.node, construct="alias:interfaces")
    ub = repo.func("tartiflette/types/union.py", "GraphQLUnionType.bake")
    uv = FuncView(ub)
    ap = [c for c in uv.calls("append") if unparse(c.func.value) == "self._possible_types"]
    lp = uv.enclosing(ap[0], (ast.For,)) if ap else None
    ck.ob("GraphQLUnionType.bake: possible types are exactly the declared members", len(ap) == 1 and lp is not None and unparse(lp.iter) == "self.types", ub, ap[0] if ap else ub.node,
          construct="alias:union-members")
    for rel, cname in (("tartiflette/types/argument.py", "GraphQLArgument"), ("tartiflette/types/input_field.py", "GraphQLInputField")):
        b = repo.func(rel, f"{cname}.bake")
        st = {unparse(n.targets[0]): unparse(n.value) for n in walk_no_nested(b.node) if isinstance(n, ast.Assign)}
        ck.ob(f"{cname}.bake: defaultValue is the declared default's text, null when none", st.get("self.defaultValue") == "str(self.default_value) if self.default_value is not None else None", b,
              b.node, construct=f"alias:{cname}.defaultValue")
    hooks = set(repo.mod("tartiflette/schema/schema.py").constants().get("_IMPLEMENTABLE_DIRECTIVE_FUNCTION_HOOKS", ()))
    ck.ob("`on_introspection` and `on_post_bake` are implementable hooks", {"on_introspection", "on_post_bake"} <= hooks, where="tartiflette/schema/schema.py", construct="hooks:implementable")
    tn = repo.func("tartiflette/schema/introspection.py", "__typename_resolver")
    r = FuncView(tn).returns()
    ck.ob("__typename is the name of the concrete parent object type", len(r) == 1 and unparse(r[0].value) == f"{tn.positional_params[3]}.parent_type.name", tn, tn.node, construct="typename")
    inj = repo.func("tartiflette/schema/schema.py", "GraphQLSchema._inject_introspection_fields")
    iv = FuncView(inj)
    adds = iv.calls("add_field")
    names = sorted(unparse(c.args[0])[:32] for c in adds)
    ck.ob("__schema and __type are added to the query root, __typename to every type that has fields", len(adds) == 3 and sum("query_type" == unparse(c.func.value) for c in adds) == 2, inj,
          inj.node, construct="meta-fields:injected", detail=str(names))


def _deprecation_and_hiding(ck, repo):
    d = repo.func("tartiflette/directive/builtins/deprecated.py", "DeprecatedDirective.on_post_bake")
    sets = {unparse(c.args[1]): unparse(c.args[2]) for c in FuncView(d).calls("setattr") if len(c.args) == 3}
    ck.ob("@deprecated sets isDeprecated and deprecationReason (from its `reason` argument) on the element", sets == {"'isDeprecated'": "True", "'deprecationReason'": f"{d.positional_params[1]}['reason']"},
          d, d.node, construct="deprecated:sets", detail=str(sets))
    r = FuncView(d).returns()
    ck.ob("@deprecated returns the element it marked", len(r) == 1 and unparse(r[0].value) == "element", d, d.node, construct="deprecated:returns")
    for rel, cname, where in (("tartiflette/types/field.py", "GraphQLField", "bake"), ("tartiflette/types/enum.py", "GraphQLEnumValue", "bake")):
        cls = repo.cls(rel, cname)
        a = cls.self_attrs()
        ck.ob(f"{cname}: isDeprecated defaults to False", unparse(a.get("isDeprecated")) == "False", where=rel, construct=f"deprecated:default:{cname}")
    for rel, meth, call in (("tartiflette/types/object.py", "GraphQLObjectType.bake_fields", "on_post_bake"), ("tartiflette/types/interface.py", "GraphQLInterfaceType.bake_fields", "on_post_bake"),
                            ("tartiflette/types/enum.py", "GraphQLEnumType.bake_enum_values", "on_post_bake")):
        m = repo.func(rel, meth)
        c = FuncView(m).maybe_call(call)
        ck.ob(f"{meth}: the post-bake hooks (where @deprecated lives) run for every element", c is not None and FuncView(m).is_awaited(c) and bool(FuncView(m).enclosing_loops(c)), m, c or m.node,
              construct=f"deprecated:post-bake:{meth}")
    for fn, ptype, coll in (("resolve_type_fields", "(GraphQLObjectType, GraphQLInterfaceType)", "fields"), ("resolve_type_enum_values", "GraphQLEnumType", "enumValues")):
        f = repo.func("tartiflette/schema/builtins/introspection.py", fn)
        fv = FuncView(f)
        par, args = f.positional_params[0], f.positional_params[1]
        atoms = Atoms({f"isinstance({par}, {ptype})": "applicable", f"{args}.get('includeDeprecated') is False": "exclude"})
        for app, exc in itertools.product([False, True], repeat=2):
            val = {"applicable": app, "exclude": exc}
            got = set()
            for tr in fv.cfg.simulate(lambda n, env: evaluate(n.ast, env, val, atoms)):
                rv = _ret_class(tr)
                t = rv if isinstance(rv, str) else unparse(rv)
                got.add("filtered" if "isDeprecated" in t and t.startswith("[") else t)
            want = "None" if not app else ("filtered" if exc else f"{par}.{coll}")
            ck.ob(f"{fn} table {val}", got == {want}, f, f.node, construct=f"{fn}:{int(app)}{int(exc)}", detail=f"got {sorted(got)}, want {want}" + atoms.note())
        comp = [n for n in walk_no_nested(f.node) if isinstance(n, ast.ListComp)]
        ok = len(comp) == 1 and unparse(comp[0].generators[0].iter) == f"{par}.{coll}" and [unparse(i) for i in comp[0].generators[0].ifs] == [f"not {unparse(comp[0].generators[0].target)}.isDeprecated"] \
            and unparse(comp[0].elt) == unparse(comp[0].generators[0].target)
        ck.ob(f"{fn}: the filter keeps exactly the elements that are not deprecated", ok, f, comp[0] if comp else f.node, construct=f"{fn}:filter")
    _introspection_roots(ck, repo, "refuses")
    ni = repo.cls("tartiflette/directive/builtins/non_introspectable.py", "NonIntrospectableDirective")
    oi = ni.methods.get("on_introspection")
    r = FuncView(oi).returns() if oi else []
    ck.ob("@nonIntrospectable answers None for the element (hidden)", oi is not None and len(r) == 1 and unparse(r[0].value) == "None", oi, oi.node if oi else ni.node, construct="hidden:hook")
    hidden_element_terms(ck, repo)
    _introspection_roots(ck, repo, "answers")
    f = repo.func("tartiflette/resolver/factory.py", "resolve_field_value_or_error")
    fv = FuncView(f)
    c = fv.maybe_call("introspection_directives_executor")
    ok = c is not None and fv.guarded(c, lambda t: t == f"{f.positional_params[5]}.is_introspection", "T") and unparse(c.args[0]) == "result"
    ck.ob("resolved introspection elements pass through the hiding executor", ok, f, c or f.node, construct="hidden:applied")


def hidden_element_terms(ck, repo):
    """E13: introspection_directives_executor interpreted on abstract resolved values - single elements and lists of up to three
    items, each item being a value without hooks (no `introspection_directives` attribute at all, or the attribute None), an
    element whose on_introspection chain answers a replacement, or an element whose chain answers None (hidden, what
    @nonIntrospectable does).  A hidden single element becomes null, a hidden item is dropped from its list, the others
    keep their order and are what their own chain answered; every chain is awaited once with (element, ctx, info) positional
    and the request's context_coercer by keyword - however the two helpers are written."""
    from .. import absint
    from ..absint import RecV, Sym
    import itertools as _it
    x = repo.func("tartiflette/utils/directives.py", "introspection_directives_executor")
    ctx, info, cc = Sym("ctx"), Sym("info"), Sym("context_coercer")
    n, bad = 0, []
    kinds = ("plain", "nohooks", "shown", "hidden")

    def run(value_of):
        calls = []

        def hook(tag, answer):
            def stub(args, kwargs):
                calls.append((tag, list(args), dict(kwargs)))
                return answer
            return stub
        stubs = {"asyncio.gather": lambda args, kwargs: list(args)}
        made = []

        def mk(kind, i):
            if kind == "plain":
                v = RecV("dict", _label=f"plain{i}", _strict=True)
            elif kind == "nohooks":
                v = RecV("GraphQLField", introspection_directives=None, _label=f"nohooks{i}", _strict=True)
            else:
                v = RecV("GraphQLField", introspection_directives=Sym(f"chain:{kind}{i}"), _label=f"{kind}{i}", _strict=True)
                stubs[f"chain:{kind}{i}"] = hook(f"{kind}{i}", Sym(f"answer{i}") if kind == "shown" else None)
            made.append((kind, i, v))
            return v
        value = value_of(mk)
        it = absint.Interp(repo, x.module, interpret={"tartiflette.utils.values.is_invalid_value", "tartiflette.utils.directives.execute_introspection_directive"}, stubs=stubs, fuel=4000)
        try:
            got = it.run(x, [value, ctx, info], {"context_coercer": cc})
            why = None
        except absint.Unsupported as ex:
            raise AnalysisError(f"{x.short}: cannot be interpreted on abstract introspection elements: {ex}")
        except absint.PyRaise as ex:
            got, why = None, f"raises {ex.name} ({ex.text})"
        return got, why, made, calls

    def out(kind, i, v):
        return v if kind in ("plain", "nohooks") else (Sym(f"answer{i}") if kind == "shown" else None)

    def check(tag, got, why, made, calls, want):
        nonlocal n
        n += 1
        if why is not None:
            bad.append((tag, why))
            return
        if absint.norm(got) != absint.norm(want) or type(got) is not type(want):
            bad.append((tag, f"answers {got!r}, expected {want!r}"))
            return
        exp_calls = [(f"{k}{i}", [v, ctx, info], {"context_coercer": cc}) for k, i, v in made if k in ("shown", "hidden")]
        if absint.norm([list(c) for c in calls]) != absint.norm([list(c) for c in exp_calls]):
            bad.append((tag, f"chains called {calls!r}, expected {exp_calls!r}"))

    for k in kinds:
        got, why, made, calls = run(lambda mk, k=k: mk(k, 0))
        check(f"single {k}", got, why, made, calls, out(*made[0]))
    for size in range(0, 4):
        for combo in _it.product(kinds, repeat=size):
            got, why, made, calls = run(lambda mk, combo=combo: [mk(k, i) for i, k in enumerate(combo)])
            want = [out(k, i, v) for k, i, v in made if k != "hidden"]
            check("list of " + ",".join(combo), got, why, made, calls, want)
    for tag, why in bad[:6]:
        ck.ob(f"hiding executor on {tag}", False, x, x.node, construct=f"hidden:terms:{tag}"[:100], detail=why)
    ck.ob("introspection_directives_executor: a hidden single element is null, hidden items are dropped from their list, every other element is what its own chain answered, in order; "
          "each chain is awaited once with (element, ctx, info) and context_coercer", not bad, x, x.node, construct="hidden:terms", evals=n)
    ck.count("hidden_element_terms", n, 60)


def schema_extension_merges(ck, repo):
    """`extend schema` reaches the schema object unconditionally, so that introspection shows it and the root-type
    existence check (C12) sees the names it introduces."""
    se = repo.func("tartiflette/types/schema_extension.py", "GraphQLSchemaExtension.bake")
    sev = FuncView(se)
    sd = sev.maybe_call("add_schema_directives")
    sa_ = [c for c in sev.calls("setattr")]
    lp = sev.enclosing(sa_[0], (ast.For,)) if sa_ else None
    ok = sd is not None and [unparse(a) for a in sd.args] == ["self.directives"] and len(sa_) == 1 and lp is not None and unparse(lp.iter) == "self.operations.items()" and \
        [unparse(a) for a in sa_[0].args] == [se.positional_params[1], "f'{okind}_operation_name'", "otype"] and not sev.conditions(sa_[0]) and not sev.conditions(sd) and \
        not sev.enclosing_loops(sd) and not any(isinstance(n, (ast.Break, ast.Continue, ast.Return)) for n in walk_no_nested(lp))
    ck.ob("GraphQLSchemaExtension.bake adds the extension's directives and sets every extended root operation name, unconditionally", ok, se, se.node, construct="extension:schema:merges")
    ad = repo.func("tartiflette/schema/schema.py", "GraphQLSchema.add_schema_directives")
    av = FuncView(ad)
    ext = [c for c in av.calls("extend") if unparse(c.func.value) == "self._schema_directives"]
    writes = [n for n in walk_no_nested(ad.node) if isinstance(n, (ast.Assign, ast.AugAssign)) and any(unparse(t) == "self._schema_directives" for t in (n.targets if isinstance(n, ast.Assign) else [n.target]))]
    aug = [n for n in writes if isinstance(n, ast.AugAssign) and isinstance(n.op, ast.Add)]
    ok = ((len(ext) == 1 and [unparse(a) for a in ext[0].args] == [ad.positional_params[1]] and not av.conditions(ext[0]) and not writes) or
          (not ext and len(writes) == 1 and len(aug) == 1 and not av.conditions(aug[0])))
    ck.ob("GraphQLSchema.add_schema_directives accumulates (schema definition first, then each `extend schema`): earlier directives are kept", ok, ad, ad.node,
          construct="extension:schema:directives-accumulate")
    init = repo.cls("tartiflette/schema/schema.py", "GraphQLSchema").self_attrs()
    ck.ob("GraphQLSchema starts with an empty list of schema directives of its own", unparse(init.get("_schema_directives")) in ("[]", "list()"), ad, ad.node,
          construct="extension:schema:directives-init")
    users = sorted(f.qualname for f in repo.all_funcs() if any(isinstance(n, ast.Attribute) and n.attr == "_schema_directives" for n in walk_no_nested(f.node)))
    ck.ob("the schema directives are written through add_schema_directives only", users == ["GraphQLSchema.__init__", "GraphQLSchema._validate_directive_implementation", "GraphQLSchema.add_schema_directives",
                                                                                              "GraphQLSchema.bake_execute"] or
          all(not any(isinstance(n, (ast.Assign, ast.AugAssign)) and "_schema_directives" in unparse(n.targets[0] if isinstance(n, ast.Assign) else n.target) for n in walk_no_nested(f.node))
              for f in repo.all_funcs() if f.qualname not in ("GraphQLSchema.__init__", "GraphQLSchema.add_schema_directives")), ad, ad.node, construct="extension:schema:directives-writers",
          detail=str(users))


def _sdl_assembly(ck, repo):
    sdl_assembly_terms(ck, repo)
    pieces = []
    for fn_ in ("_import_builtins", "_import_modules"):
        g_ = repo.func("tartiflette/engine.py", fn_)
        for n in walk_no_nested(g_.node):
            if isinstance(n, ast.Assign) and unparse(n.targets[0]) == "sdl" and isinstance(n.value, ast.Call) and isinstance(n.value.func, ast.Attribute) and n.value.func.attr == "format":
                fmt = n.value.func.value
                pieces.append((g_, n, isinstance(fmt, ast.Constant) and isinstance(fmt.value, str) and fmt.value.startswith("{sdl}\n") and fmt.value.endswith("{msdl}")))
    ck.ob("every module's SDL starts on a new line of the modules SDL (so the modules SDL itself starts with a line break)", len(pieces) == 2 and all(p_[2] for p_ in pieces),
          pieces[0][0] if pieces else None, pieces[0][1] if pieces else None, construct="sdl:separator:modules", where=None if pieces else "tartiflette/engine.py")
    im = repo.func("tartiflette/engine.py", "_import_modules")
    init_ = [n for n in walk_no_nested(im.node) if isinstance(n, ast.Assign) and unparse(n.targets[0]) == "sdl" and isinstance(n.value, ast.Constant)]
    ck.ob("the modules SDL starts empty", len(init_) == 1 and init_[0].value.value == "", im, init_[0] if init_ else im.node, construct="sdl:separator:modules-init")
    e = repo.func("tartiflette/engine.py", "_import_builtins")
    ev = FuncView(e)
    ok = any(isinstance(n, ast.Assign) and unparse(n.targets[0]) == "sdl" and "msdl=await _bake_module(module, schema_name)" in unparse(n.value) for n in walk_no_nested(e.node))
    ck.ob("the SDL of every built-in module (scalars, directives, introspection types) is appended", ok, e, e.node, construct="sdl:builtins")
    h = [hh for hh in ev.handlers()]
    ck.ob("a built-in is skipped only when the user already registered an implementation of the same name", len(h) == 1 and unparse(h[0].type) == "ImproperlyConfigured", e,
          h[0] if h else e.node, construct="sdl:builtins-skip")


def _introspection_roots(ck, repo, part):
    """Path-outcome tables of the two introspection root resolvers (helpers inlined, failures of the lookup followed):
    refuses  - every path on which the schema is not introspectable leaves by raising a TartifletteError built there, having touched nothing;
    answers  - every other path opens the introspection context and answers this request's schema / the named type of it, null for an unknown name."""
    from ..pathtab import outcome_rows, truth
    from ..q import inlined_view
    for fn, retv in (("__schema_resolver", "{info}.schema"), ("__type_resolver", "{info}.schema.find_type({args}['name'])")):
        f = repo.func("tartiflette/schema/introspection.py", fn)
        fv = inlined_view(repo, f)
        info_, args_ = f.positional_params[3], f.positional_params[1]
        want = retv.format(info=info_, args=args_)
        lookups = [fv.stmt_of(c) for c in fv.calls("find_type")]
        rows = outcome_rows(fv, raising_stmts=lookups)
        if len(rows) < 2:
            raise AnalysisError(f"{fn}: expected at least a refusing and an answering path")
        flag = f"@{info_}.is_introspection"
        seen = {"refuse": 0, "answer": 0, "unknown": 0}
        for r in rows:
            open_ = truth(r, f"{info_}.schema.is_introspectable")
            where = r["last"] or f.node
            stores = {k: (unparse(v) if isinstance(v, ast.AST) else v) for k, v in r["sym"].items() if isinstance(k, str) and k.startswith("@")}
            if open_ == "F":
                seen["refuse"] += 1
                if part == "refuses":
                    last = r["last"]
                    built = isinstance(last, ast.Raise) and isinstance(last.exc, ast.Call) and callee_last(last.exc) == "TartifletteError"
                    ck.ob(f"{fn}: a non-introspectable schema refuses introspection", r["exit"] == "raise_exit" and built and not stores, f, where, construct=f"{fn}:refuses",
                          detail=f"exit={r['exit']} stores={stores}")
                continue
            if open_ != "T":
                ck.ob(f"{fn}: every path asks whether the schema may be introspected", False, f, where, construct=f"{fn}:refuses", detail=str(r["conds"]))
                continue
            if r["exit"] == "raise_exit":
                # the lookup failed with something its handlers do not name: a KeyError must be among those they do
                around = [unparse(hh.type) if hh.type else "" for c in fv.calls("find_type") for _, hh in fv.try_handlers_around(c)]
                if part == "answers":
                    ck.ob("__type(name:) answers null for an unknown name", fn == "__schema_resolver" or any("KeyError" in a or a in ("", "Exception") for a in around), f, where,
                          construct="__type:lookup", detail="a KeyError of find_type leaves the resolver: `__type(name: ...)` of an unknown name becomes an error instead of null")
                continue
            caught = [unparse(h.type) if h.type else "" for h in r["handlers"]]
            if caught:
                seen["unknown"] += 1
                if part != "answers":
                    continue
                ck.ob("__type(name:) answers null for an unknown name (and only a failed lookup does)", all("KeyError" in c for c in caught) and isinstance(r["ret"], ast.Constant) and r["ret"].value is None,
                      f, where, construct="__type:lookup", detail=f"handlers {caught}, returns {unparse(r['ret']) if r['ret'] is not None else None}")
                continue
            seen["answer"] += 1
            if part != "answers":
                continue
            ok = r["ret"] is not None and unparse(r["ret"]) == want and stores.get(flag) == "True"
            ck.ob(f"{fn}: answers from this request's schema and opens the introspection context first (so that hiding applies below it)", ok, f, where, construct=f"{fn}:answers",
                  detail=f"returns {unparse(r['ret']) if r['ret'] is not None else None}, stores {stores}")
        ck.ob(f"{fn}: has a refusing and an answering path", seen["refuse"] >= 1 and seen["answer"] >= 1 and (fn == "__schema_resolver" or seen["unknown"] >= 1), f, f.node,
              construct=f"{fn}:paths", detail=str(seen))


def _extension_merge_terms(ck, repo, b, cls, parts):
    """E13: `<Extension>.bake` interpreted on an abstract extension and an abstract extended type: afterwards every member list
    of the extended type is what it was followed by the extension's members, in order (mappings: with the extension's
    entries added), and nothing else of it changed - however the merge is written (extend/update, loops, bound methods)."""
    from .. import absint
    from ..absint import RecV, Sym, LambdaV, Env
    dict_targets = {"implemented_fields", "input_fields"}
    ext_attrs, old, want = {}, {}, {}
    for src, tgt in parts.items():
        if tgt in dict_targets:
            ext_attrs[src] = {f"{src}_k1": Sym(f"{src}_v1"), f"{src}_k2": Sym(f"{src}_v2")}
            old[tgt] = {f"{tgt}_old": Sym(f"{tgt}_old_v")}
            want[tgt] = {**old[tgt], **ext_attrs[src]}
        else:
            ext_attrs[src] = [Sym(f"{src}_1"), Sym(f"{src}_2")]
            old[tgt] = [Sym(f"{tgt}_old")]
            want[tgt] = old[tgt] + ext_attrs[src]
    for empty in (False, True):
        ea = {k: (type(v)() if empty else (dict(v) if isinstance(v, dict) else list(v))) for k, v in ext_attrs.items()}
        ext = RecV(cls, name="X", _strict=True, **ea)
        extended = RecV("Extended", _strict=True, **{k: (dict(v) if isinstance(v, dict) else list(v)) for k, v in old.items()})
        other = RecV("Other", _strict=True, **{k: (dict(v) if isinstance(v, dict) else list(v)) for k, v in old.items()})
        env = Env()
        env.vars["_types"] = {"X": extended, "Y": other}
        lookup = LambdaV(ast.parse("lambda name: _types[name]", mode="eval").body, env)
        schema = RecV("GraphQLSchema", find_type=lookup, _strict=True)
        it = absint.Interp(repo, b.module, classes={cls: repo.cls(b.module.relpath, cls)})
        try:
            it.run(b, [ext, schema])
            why = None
        except absint.Unsupported as ex:
            raise AnalysisError(f"{b.short}: cannot be interpreted on an abstract extension: {ex}")
        except absint.PyRaise as ex:
            why = f"raises {ex.name} ({ex.text})"
        exp = old if empty else want
        got = {k: extended.attrs.get(k) for k in exp}
        ok = why is None and all(absint.norm(got[k]) == absint.norm(exp[k]) and (not isinstance(exp[k], dict) or list(got[k]) == list(exp[k])) for k in exp) and \
            all(absint.norm(other.attrs[k]) == absint.norm(old[k]) for k in old) and set(extended.attrs) - {"_strict"} == set(old)
        ck.ob(f"{cls}.bake merges {sorted(parts)} into the extended type" + (" (an empty extension changes nothing)" if empty else ""), ok, b, b.node,
              construct=f"extension:{cls}:merges" + (":empty" if empty else ""), detail=why or f"extended type afterwards: {got}")
    # an extension as its constructor leaves it when the SDL gives only directives (`extend interface I @d`): bake must work on the
    # constructor's own defaults (`fields or []` merged with `.items()` raises; GraphQLSchema.bake swallows it and drops every
    # later extension)
    c_ = repo.cls(b.module.relpath, cls)
    init = c_.methods.get("__init__")
    if init is not None:
        ext = RecV(cls, _strict=True)
        it = absint.Interp(repo, b.module, classes={cls: c_})
        params = init.positional_params[1:]
        args = ["X"] + [([Sym("d1")] if p_ == "directives" else None) for p_ in params[1:]]
        extended = RecV("Extended", _strict=True, **{k: (dict(v) if isinstance(v, dict) else list(v)) for k, v in old.items()})
        env = Env()
        env.vars["_types"] = {"X": extended}
        schema = RecV("GraphQLSchema", find_type=LambdaV(ast.parse("lambda name: _types[name]", mode="eval").body, env), _strict=True)
        try:
            it.run(init, [ext] + args)
            it.run(b, [ext, schema])
            why = None
        except absint.Unsupported as ex:
            raise AnalysisError(f"{b.short}: cannot be interpreted on a directive-only extension: {ex}")
        except absint.PyRaise as ex:
            why = f"raises {ex.name} ({ex.text})"
        exp = {k: (old[k] + [Sym("d1")] if k == "directives" else old[k]) for k in old}
        ok = why is None and all(absint.norm(extended.attrs.get(k)) == absint.norm(v) for k, v in exp.items())
        ck.ob(f"{cls}: a directive-only extension (members as the constructor defaults them) bakes, adding its directives and nothing else", ok, b, b.node,
              construct=f"extension:{cls}:directive-only", detail=why or f"extended type afterwards: { {k: extended.attrs.get(k) for k in exp} }")


def string_token_rows(ck, repo):
    """SDL string literals (descriptions, default values, directive arguments): an ordinary string has its escape sequences
    decoded, a block string is taken literally (spec 2.9.4: no escape sequence in a block string but `\\\"\"\"`) - decided on the
    paths of TokenTransformer.string_value, whatever the statements look like."""
    from ..pathtab import outcome_rows, truth
    m = repo.func("tartiflette/language/parsers/lark/transformers/token_transformer.py", "TokenTransformer.string_value")
    from ..q import inlined_view
    rows = [r for r in outcome_rows(inlined_view(repo, m)) if r["exit"] == "return_exit" and r["ret"] is not None]   # unquoting helpers are part of it
    if not rows:
        raise AnalysisError("TokenTransformer.string_value: no returning path")
    seen = set()
    for r in rows:
        # the token built on this path: in the returned expression, or stored into the tree by an (inlined) helper
        pool = [r["ret"]] + [v_ for k_, v_ in r["sym"].items() if isinstance(k_, str) and not k_.startswith("__") and isinstance(v_, ast.AST)]
        toks = [c for e_ in pool for c in ast.walk(e_) if isinstance(c, ast.Call) and callee_last(c) == "Token"]
        val = unparse(toks[0].args[1]) if toks and len(toks[0].args) > 1 else unparse(r["ret"])
        block = None
        for t, o in r["conds"]:
            tt = t.replace(" ", "").replace('"', "'")
            if "=='LONG_STRING'" in tt:
                block = o == "T"
            elif "!='LONG_STRING'" in tt:
                block = o == "F"
        decoded = "_ESCAPED_CHARACTER_REGEX.sub(" in val or "_ESCAPED_UNICODE_REGEX.sub(" in val
        if block is not None and toks and len(toks[0].args) > 1:
            _string_delimiters(ck, m, r, toks[0].args[1], block)
        if block is None:
            ck.ob("string_value: every path knows whether the token is a block string", False, m, r["last"] or m.node, construct="string-token:kind", detail=str(r["conds"]))
            continue
        seen.add(block)
        if block:
            ck.ob("string_value: a block string is taken literally (backslashes are ordinary characters: `\"\"\"C:\\new\"\"\"` holds a backslash and an n)", not decoded, m, r["last"] or m.node,
                  construct="string-token:block-literal", detail=val[:200])
        else:
            ck.ob("string_value: an ordinary string has its escaped characters and \\\\uXXXX sequences decoded", "_ESCAPED_CHARACTER_REGEX.sub(" in val and "_ESCAPED_UNICODE_REGEX.sub(" in val, m,
                  r["last"] or m.node, construct="string-token:decoded", detail=val[:200])
    ck.ob("string_value: has a block-string path and an ordinary-string path", seen == {True, False}, m, m.node, construct="string-token:paths", detail=str(seen))


def _string_delimiters(ck, m, r, expr, block):
    """The content of a string token is what stands between its delimiters: they are removed by *position* (one character at
    each end, three for a block string), never by content - `"say \\"hi\\""` ends with a quote that belongs to the string."""
    k = 3 if block else 1
    raw = expr
    while isinstance(raw, ast.Call) and isinstance(raw.func, ast.Attribute) and raw.func.attr == "sub" and "_REGEX" in unparse(raw.func.value) and len(raw.args) == 2:
        raw = raw.args[1]   # the decoding passes
    how, ok = None, None
    if isinstance(raw, ast.Subscript) and isinstance(raw.slice, ast.Slice) and raw.slice.step is None:
        lo, hi = raw.slice.lower, raw.slice.upper
        txt = (unparse(lo) if lo is not None else "", unparse(hi) if hi is not None else "")
        if isinstance(raw.value, ast.Attribute) and raw.value.attr == "value":
            how, ok = f"[{txt[0]}:{txt[1]}]", txt in ((str(k), f"-{k}"), (str(k), f"len({unparse(raw.value)}) - {k}"))
    if how is None:
        chain, cur = [], raw
        while isinstance(cur, ast.Call) and isinstance(cur.func, ast.Attribute):
            chain.append((cur.func.attr, [unparse(a) for a in cur.args]))
            cur = cur.func.value
        meths = [c[0] for c in chain]
        if isinstance(cur, ast.Attribute) and cur.attr == "value" and chain:
            if sorted(meths) == ["removeprefix", "removesuffix"] and all(a in ([repr('"' * k)], ["'" + '"' * k + "'"]) for _, a in chain):
                how, ok = ".removeprefix().removesuffix()", True
            elif any(x in ("strip", "lstrip", "rstrip", "replace", "split", "partition", "rpartition", "translate") for x in meths):
                how, ok = "." + "().".join(reversed(meths)) + "()", False
    if how is None:
        raise AnalysisError(f"TokenTransformer.string_value: cannot tell how the {'block ' if block else ''}string's delimiters are removed from `{unparse(raw)[:120]}`")
    ck.ob(f"string_value: the {'three quotes' if block else 'quote'} at each end of {'a block' if block else 'an ordinary'} string token {'are' if block else 'is'} removed by position (the content may itself begin or end with a quote)",
          ok, m, r["last"] or m.node, construct=f"string-token:delimiters:{'block' if block else 'quoted'}", detail=f"{unparse(raw)[:160]} ({how})")


def schema_marked_non_introspectable(ck, repo):
    """`schema @nonIntrospectable` refuses introspection: the schema-level hook turns the schema's flag off before anything of
    the request runs, and never turns it back on - the flag is read by the root resolvers of *every* request on that engine, so
    a request that restores it (after its own await) re-opens introspection for the requests still in flight."""
    f = repo.func("tartiflette/directive/builtins/non_introspectable.py", "NonIntrospectableDirective.on_schema_execution")
    fv = FuncView(f)
    stores = [n for n in ast.walk(f.node) if isinstance(n, (ast.Assign, ast.AugAssign, ast.AnnAssign)) and
              any(isinstance(t, ast.Attribute) and t.attr == "is_introspectable" for t in (n.targets if isinstance(n, ast.Assign) else [n.target]))]
    sets = [n for n in ast.walk(f.node) if isinstance(n, ast.Call) and callee_last(n) == "setattr" and len(n.args) == 3 and unparse(n.args[1]).strip("'\"") == "is_introspectable"]
    nxt = [c for c in fv.calls() if isinstance(c.func, ast.Name) and c.func.id in f.positional_params and fv.is_awaited(c)]   # the rest of the request
    off = [n for n in stores if isinstance(n, ast.Assign) and isinstance(n.value, ast.Constant) and n.value.value is False]
    ok = len(nxt) == 1 and len(off) >= 1 and any(fv.dominated_by(nxt[0], n) and not fv.conditions(n) for n in off)
    ck.ob("@nonIntrospectable on the schema: the flag is turned off, unconditionally, before the request proceeds", ok, f, off[0] if off else f.node, construct="hidden:schema:off")
    other = [n for n in stores if n not in off] + sets
    ck.ob("@nonIntrospectable on the schema: the flag is never turned back on (nor restored) by a request", not other, f, other[0] if other else f.node, construct="hidden:schema:never-on",
          detail="the flag belongs to the engine, not to the request: restoring it after the await re-enables introspection for concurrent requests")
    wr = [fn.short for fn in repo.all_funcs() if fn is not f and not fn.module.relpath.endswith("schema/schema.py") for n in ast.walk(fn.node)
          if isinstance(n, ast.Attribute) and n.attr == "is_introspectable" and isinstance(n.ctx, ast.Store)]
    ck.ob("nothing else in the package writes the schema's introspection flag", not wr, where="tartiflette/", construct="hidden:schema:writers", detail=str(wr))


def sdl_assembly_terms(ck, repo):
    """E13: SchemaRegistry.register_sdl interpreted on the four ways of supplying the SDL (text, one file, a list of files, a
    directory) with and without module SDL, on a modelled file system: what is stored under the schema's own name is, line
    for line, the text itself / the content of every file in order - each starting on a line of its own (a file ending in a
    `# comment` must not swallow the first line of the next) - followed by the module SDL."""
    from .. import absint
    from ..absint import Env, LambdaV, RecV, Sym
    f = repo.func("tartiflette/schema/registry.py", "SchemaRegistry.register_sdl")
    files = {"/d/a.sdl": "type A { a: Int } # end of a", "/d/sub/b.sdl": "type B { b: Int } # end of b", "/d/c.graphql": "type C { c: Int } # end of c", "/x.sdl": "type X { x: Int } # end of x"}
    globs = {("/d/**/*.sdl", True): ["/d/a.sdl", "/d/sub/b.sdl"], ("/d/**/*.graphql", True): ["/d/c.graphql"]}
    opened = []

    def s_open(args, kwargs):
        path = args[0] if args else kwargs.get("file")
        opened.append((path, kwargs.get("encoding", args[2] if len(args) > 2 else None)))
        if path not in files:
            raise absint.PyRaise("FileNotFoundError", str(path))
        env = Env()
        env.vars["_c"] = files[path]
        return RecV("File", read=LambdaV(ast.parse("lambda *a: _c", mode="eval").body, env), _strict=True)

    stubs = {"os.path.isfile": lambda a, k: isinstance(a[0], str) and a[0] in files, "os.path.isdir": lambda a, k: a[0] == "/d",
             "os.path.join": lambda a, k: "/".join(a), "glob.glob": lambda a, k: list(globs.get((a[0], k.get("recursive", a[1] if len(a) > 1 else False)), [])),
             "open": s_open}
    cases = [("text", "type Q { q: Int }", None), ("file", "/x.sdl", ["/x.sdl"]), ("list", ["/d/a.sdl", "/x.sdl"], ["/d/a.sdl", "/x.sdl"]),
             ("directory", "/d", ["/d/a.sdl", "/d/sub/b.sdl", "/d/c.graphql"])]
    n = 0
    for kind, sdl, paths in cases:
        for mod in (None, "\nscalar M # module sdl"):
            opened.clear()
            registry = {}
            it = absint.Interp(repo, f.module, stubs=stubs)
            it.genv.vars["SchemaRegistry"] = RecV("SchemaRegistryClass", _schemas=registry, _strict=True)
            arg_sdl = list(sdl) if isinstance(sdl, list) else sdl
            try:
                it.run(f, ["S", arg_sdl, "utf-8", mod])
                why = None
            except absint.Unsupported as ex:
                raise AnalysisError(f"{f.short}: cannot be interpreted on a modelled file system: {ex}")
            except absint.PyRaise as ex:
                why = f"raises {ex.name} ({ex.text})"
            want = sdl if paths is None else "".join("\n" + files[p_] for p_ in paths)
            if mod:
                want = f"{want} {mod}"
            got = registry.get("S", {}).get("sdl") if isinstance(registry.get("S"), dict) else None
            lines = lambda t: [x.strip() for x in t.split("\n") if x.strip()] if isinstance(t, str) else None   # noqa: E731
            n += 1
            ok = why is None and lines(got) == lines(want) and set(registry) == {"S"} and (paths is None or [o[0] for o in opened] == paths) and all(o[1] == "utf-8" for o in opened)
            ck.ob(f"register_sdl: SDL given as {kind}{' plus module SDL' if mod else ''} is stored under the schema's own name, every piece on lines of its own", ok, f, f.node,
                  construct=f"sdl:{kind}:{int(bool(mod))}", detail=why or f"stored {got!r}; files opened {opened}")
    ck.count("sdl_assembly_cases", n, 8)


def extension_rules(ck, repo):
    """Type extensions (shared with C06.R6: an extension that fails inside bake is swallowed by GraphQLSchema.bake together with every
    extension after it - valid documents using what those contribute are then refused)."""
    # extensions merge every constructor parameter except the name
    for rel, cls, parts in (("tartiflette/types/enum.py", "GraphQLEnumTypeExtension", {"directives": "directives", "values": "values"}),
                            ("tartiflette/types/input_object.py", "GraphQLInputObjectTypeExtension", {"input_fields": "input_fields", "directives": "directives"}),
                            ("tartiflette/types/object.py", "GraphQLObjectTypeExtension", {"directives": "directives", "fields": "implemented_fields", "interfaces": "interfaces_names"}),
                            ("tartiflette/types/interface.py", "GraphQLInterfaceTypeExtension", {"directives": "directives", "fields": "implemented_fields"}),
                            ("tartiflette/types/scalar.py", "GraphQLScalarTypeExtension", {"directives": "directives"}),
                            ("tartiflette/types/union.py", "GraphQLUnionTypeExtension", {"directives": "directives", "types": "types"})):
        b = repo.func(rel, f"{cls}.bake")
        bv = FuncView(b)
        _extension_merge_terms(ck, repo, b, cls, parts)
        ft = bv.maybe_call("find_type")
        ck.ob(f"{cls}.bake extends the type of the same name", ft is not None and [unparse(a) for a in ft.args] == ["self.name"], b, ft or b.node, construct=f"extension:{cls}:target")
    # contradiction rule: an attribute defaulted to a list cannot be merged with dict methods (and vice versa)
    DICT_ONLY, LIST_ONLY = {"items", "keys", "values", "get", "setdefault", "popitem"}, {"append", "extend", "insert", "sort", "reverse"}
    ext_classes = [c for c in repo.all_classes() if c.name.endswith("Extension") and c.module.relpath.startswith("tartiflette/types/") and "bake" in c.methods and "__init__" in c.methods]
    ck.count("extension_classes", len(ext_classes), 7)
    for c in sorted(ext_classes, key=lambda c: c.name):
        for attr, v in c.self_attrs().items():
            lit = v.values[-1] if isinstance(v, ast.BoolOp) and isinstance(v.op, ast.Or) else None
            if not isinstance(lit, (ast.List, ast.Dict)):
                continue
            used = set()
            for m in c.methods.values():
                for n in walk_no_nested(m.node):
                    if isinstance(n, ast.Attribute) and isinstance(n.value, ast.Attribute) and unparse(n.value) == f"self.{attr}":
                        used.add(n.attr)
            bad = (used & DICT_ONLY) if isinstance(lit, ast.List) else (used & LIST_ONLY)
            ck.ob(f"{c.name}: the default of `{attr}` ({'list' if isinstance(lit, ast.List) else 'dict'}) agrees with how bake merges it", not bad, c.methods["__init__"],
                  c.methods["__init__"].node, construct=f"extension:{c.name}:default:{attr}",
                  detail=f"methods used: {sorted(used)}; a mismatch raises inside bake, GraphQLSchema.bake swallows it and every later extension is silently dropped")
