"""C06 - valid documents are never refused by validation (structural part)."""
from __future__ import annotations

import ast
import itertools

from ..model import AnalysisError, dotted, unparse, walk_no_nested
from ..pathtab import Atoms, canon, evaluate
from ..q import FuncView, arg, arg_text, callee_last, contains, kwargs, positive_form
from ..validation import RULES_PKG, TRANS, Wiring, signature
from .c04 import _ret_class

EXPLANATION = (
    "Conditions without which valid documents are refused: every validate() site names a registered rule and its call "
    "cannot raise (signature satisfiable, no duplicate keyword with the context); the cycle rule's container holds the "
    "current spread path only (push matched by pop); the scoped context key parent_type_name is saved/restored and not "
    "read by the transformer that overwrote it; shared rule objects are stateless; whole-document rules run after all "
    "definitions are parsed; and the decision tables of the table-shaped rules equal the specification's. Not decided: "
    "absence of false rejections over the whole language of valid documents; predicates of graph-shaped rules."
)
CYCLES = RULES_PKG + "fragment_spreads_must_not_form_cycles.py"
UNIQ = [
    ("argument_uniqueness.py", "ArgumentUniqueness", "arguments"),
    ("directives_are_unique_per_location.py", "DirectivesAreUniquePerLocation", "directives"),
    ("fragment_name_uniqueness.py", "FragmentNameUniqueness", "fragments"),
    ("input_object_field_uniqueness.py", "InputObjectFieldUniqueness", "input_fields"),
    ("operation_name_uniqueness.py", "OperationNameUniqueness", "operations"),
    ("variable_uniqueness.py", "VariableUniqueness", "variables"),
]


def check(ck):
    repo = ck.repo
    w = Wiring(repo)
    ck.count("validate_sites", len(w.sites), 35)
    ck.count("rule_classes", len(w.rule_classes), 26)
    with ck.rule("R1"):
        _wiring(ck, repo, w)
        _no_implicit_none(ck, repo, w)
    with ck.rule("R2"):
        _dfs_discipline(ck, repo)
    with ck.rule("R3"):
        _scoped_context(ck, repo, w)
    with ck.rule("R4"):
        _stateless_rules(ck, repo, w)
    with ck.rule("R5"):
        _document_level(ck, repo, w)
        usage_walk_terms(ck, repo)
    with ck.rule("R6"):
        rule_tables(ck, repo, w)
        values_of_correct_type_table(ck, repo)
        # what the rules judge a document against is the schema with *every* extension applied
        from .c11 import extension_rules
        extension_rules(ck, repo)
        # 5.5.2.3 intersects possible-type sets: they must hold every (extension-added) member
        from .c03 import possible_type_sets
        possible_type_sets(ck, repo)


# ---------------------------------------------------------------------------


def _wiring(ck, repo, w):
    v = repo.func("tartiflette/language/validators/__init__.py", "Validators.validate")
    vv = FuncView(v)
    c = vv.maybe_call("validate")
    ok = c is not None and arg_text(c, None, "path") == "path" and arg_text(c, None, "schema") == "self.schema" and \
        sorted(unparse(k.value) for k in c.keywords if k.arg is None) == ["kwargs", "self.ctx"]
    ck.ob("Validators.validate calls rule.validate(path=, schema=, **kwargs, **ctx)", ok, v, c or v.node, construct="dispatch:call")
    ctx_keys = set(w.ctx_writes)
    defs = {"_parse_operation_definition", "_parse_fragment_definition"}
    for s in w.sites:
        where = s.func
        ck.ob(f"{where.name}: validate site names a registered rule ({s.rule})", s.rule in w.rule_set and s.rule in w.rule_classes, where, s.call,
              construct=f"site:{where.name}:{s.rule}:registered")
        if s.rule not in w.rule_classes:
            continue
        m = w.validate_method(s.rule)
        required, optional, has_kwarg = signature(m)
        passed = set(s.kw) | {"path", "schema"}
        dup = (set(s.kw) - {"path"}) & (ctx_keys | {"schema"})
        ck.ob(f"{where.name}: no keyword of the {s.rule} site collides with a context key (a duplicate keyword raises for every document)", not dup,
              where, s.call, construct=f"site:{where.name}:{s.rule}:no-duplicate", detail=str(sorted(dup)))
        missing = [r for r in required if r not in passed]
        from_ctx = [r for r in missing if r in ctx_keys]
        hard = [r for r in missing if r not in ctx_keys]
        ck.ob(f"{where.name}: every required parameter of {s.rule}.validate is passed or is a context key", not hard, where, s.call,
              construct=f"site:{where.name}:{s.rule}:satisfiable", detail=f"unsatisfied: {hard}")
        for r in from_ctx:
            # definitely assigned: both definition parsers assign it before parsing their selections
            ok = True
            for d in defs:
                df = w.trans.func(d)
                dv = FuncView(df)
                writes = [n for f2, n in w.ctx_writes.get(r, []) if f2 is df and isinstance(n, ast.Assign)]
                sel = dv.maybe_call("_parse_selection_set")
                ok = ok and sel is not None and any(dv.dominated_by(sel, wr) for wr in writes)
            ck.ob(f"{where.name}: context key `{r}` needed by {s.rule} is assigned by both definition parsers before any selection is parsed", ok, where,
                  s.call, construct=f"site:{where.name}:{s.rule}:ctx:{r}")
        extra = set(s.kw) - set(required) - set(optional) - {"path"}
        ck.ob(f"{where.name}: keywords of the {s.rule} site are parameters of the rule (or swallowed by **)", not extra or has_kwarg, where, s.call,
              construct=f"site:{where.name}:{s.rule}:accepted")
        ck.ob(f"{s.rule}.validate tolerates the other context keys (**catch-all)", has_kwarg, m, m.node, construct=f"rule:{s.rule}:catch-all")


# parsers that answer None by design, with the guard of that answer
OPTIONAL_PARSERS = {"_parse_value": "value_ast", "_parse_selection_set": "selection_set_ast"}


def _must_answer(f, w) -> bool:
    """The callers use what this function answers: annotated with a type, the `validate` of a rule (its result is
    extended into the error list), or a helper whose call is used as a value somewhere in its class."""
    a = f.node.returns
    if a is not None and unparse(a) != "None":
        return True
    if f.cls is not None and f.cls.name in {c.name for c in w.rule_classes.values()}:
        if f.name == "validate":
            return True
        for m in f.cls.methods.values():
            mv = FuncView(m)
            for c in mv.calls(f.name):
                if isinstance(c.func, ast.Attribute) and unparse(c.func.value) == "self" and not isinstance(mv.parent(c), ast.Expr):
                    return True
    return False


def _callers_expect_none(f) -> bool:
    """Every call of the helper `f` (from its own class or module) binds the answer to a name that the caller tests against
    None / for truth: an explicit `return None` is then an answer, not an accident.  The helper's own recursive calls that
    hand the answer on (`return self.f(...)`) are transparent."""
    scope = list(f.cls.methods.values()) if f.cls is not None else list(f.module.funcs.values())
    sites = 0
    for m in scope:
        mv = FuncView(m)
        for c in mv.calls(f.name):
            par = mv.parent(c)
            if m is f and isinstance(par, ast.Return):
                continue
            sites += 1
            if not (isinstance(par, ast.Assign) and len(par.targets) == 1 and isinstance(par.targets[0], ast.Name)):
                return False
            v = par.targets[0].id
            tests = {n.text() for n in mv.cfg.nodes if n.kind == "test"}
            if not tests & {f"{v} is None", f"{v} is not None", f"not {v}", v}:
                return False
    return sites > 0


def _no_implicit_none(ck, repo, w):
    """A transformer or a rule that answers a value on one path answers one on every path: a path that falls off the
    end (or `return None`) hands None to the caller - `errors.extend(None)`, a None selection - and the document is
    refused by a crash instead of a verdict."""
    fs = list(w.trans.funcs.values())
    for c in w.rule_classes.values():
        fs += list(c.methods.values())
    n = 0
    for f in sorted(fs, key=lambda f: f.short):
        fv = FuncView(f)
        cfg = fv.cfg
        kinds = []
        for nid, succ in cfg.succ.items():
            for m, lab in succ:
                if m != cfg.return_exit.id:
                    continue
                nd = cfg.nodes[nid]
                if nd.kind == "stmt" and isinstance(nd.ast, ast.Return):
                    v = nd.ast.value
                    kinds.append(("none" if v is None or (isinstance(v, ast.Constant) and v.value is None) else "value", nd.ast))
                else:
                    kinds.append(("fallthrough", nd.ast))
        if not (_must_answer(f, w) or any(k == "value" for k, _ in kinds)):
            continue
        n += 1
        bad = [(k, a) for k, a in kinds if k != "value"]
        if f.name in OPTIONAL_PARSERS:
            g = OPTIONAL_PARSERS[f.name]
            ok = len(bad) == 1 and bad[0][0] == "none" and set(fv.conditions(bad[0][1])) == {(g, "F")}
            ck.ob(f"{f.name}: None exactly for an absent `{g}`", ok, f, bad[0][1] if bad else f.node, construct=f"returns-value:{f.qualname}:optional")
            continue
        if bad and all(k == "none" for k, _ in bad) and _callers_expect_none(f):
            continue  # an optional answer every caller asks about before using it
        ck.ob(f"{f.qualname}: every exit returns a value", not bad, f, bad[0][1] if bad and bad[0][1] is not None else f.node, construct=f"returns-value:{f.qualname}",
              detail=str([k for k, _ in bad]))
    ck.count("value_returning_parsers_and_rule_methods", n, 70)


def _dfs_discipline(ck, repo):
    """The container whose membership triggers the cycle error must hold the current path only (decided by E13, see cycle_rule_terms)."""
    cycle_rule_terms(ck, repo)


def _scoped_context(ck, repo, w):
    key = "parent_type_name"
    n = 0
    for f in sorted(w.trans.funcs.values(), key=lambda f: f.name):
        writes = [nd for f2, nd in w.ctx_writes.get(key, []) if f2 is f and isinstance(nd, ast.Assign)]
        if not writes:
            continue
        fv = FuncView(f)
        if f.name == "_parse_operation_definition":
            # root of a scope: nothing to restore, nobody above reads it afterwards within the definition
            continue
        n += 1
        saves = [nd for nd in walk_no_nested(f.node) if isinstance(nd, ast.Assign) and isinstance(nd.targets[0], ast.Name)
                 and unparse(nd.value) in (f"validators.ctx['{key}']", f"validators.ctx.get('{key}')")]
        ok_save = len(saves) == 1 and all(fv.dominated_by(wr, saves[0]) for wr in writes if unparse(wr.value) != unparse(saves[0].targets[0]))
        ck.ob(f"{f.name}: saves `{key}` before overwriting it", ok_save, f, saves[0] if saves else writes[0], construct=f"scope:{f.name}:save")
        if not saves:
            continue
        saved = unparse(saves[0].targets[0])
        restores = [wr for wr in writes if unparse(wr.value) == saved]
        ok = len(restores) == 1 and fv.all_paths_to_return_pass([restores[0]], start=saves[0])
        ck.ob(f"{f.name}: restores `{key}` on every exit", ok, f, restores[0] if restores else f.node, construct=f"scope:{f.name}:restore")
        overwrites = [wr for wr in writes if wr not in restores]
        # direct reads of the context key between the overwrite and the restore are forbidden
        reads = [nd for nd in walk_no_nested(f.node) if isinstance(nd, ast.Subscript) and isinstance(nd.ctx, ast.Load)
                 and unparse(nd) == f"validators.ctx['{key}']" and not any(contains(s, nd) for s in saves)]
        bad = []
        for rd in reads:
            rn = fv.cfg_node(rd)
            for ov in overwrites:
                on = fv.cfg_node(ov)
                if fv.cfg.can_reach(on.id, rn.id, skip_exc=True) and (not restores or not fv.cfg.all_paths_pass(on.id, rn.id, [fv.cfg_node(restores[0]).id], skip_exc=True)):
                    bad.append(rd)
        ck.ob(f"{f.name}: does not read `{key}` itself after overwriting it (it would see the child scope's value)", not bad, f,
              fv.stmt_of(bad[0]) if bad else f.node, construct=f"scope:{f.name}:no-self-read",
              detail="bookkeeping keyed by the overwritten value compares a fragment with itself instead of with its parent type")
    ck.count("scoped_context_transformers", n, 3)
    # the value each scope installs: the type the selections below it are selections *of*
    SCOPE = {
        "_parse_operation_definition": ("_get_operation_type_name(operation_type, validators.schema)", set()),
        "_parse_fragment_definition": ("type_cond.name.value", set()),
        "_parse_inline_fragment": ("type_cond.name.value", {("type_cond", "T")}),
        "_parse_field": ("get_schema_field_type_name(parent_type_name, name.value, validators.schema)", set()),
    }
    for fname, (want, conds) in SCOPE.items():
        f = w.trans.funcs[fname]
        fv = FuncView(f)
        wr = [nd for f2, nd in w.ctx_writes.get(key, []) if f2 is f and isinstance(nd, ast.Assign) and unparse(nd.value) not in ("parent_type_name",)]
        ok = len(wr) == 1 and unparse(wr[0].value) == want and set(fv.conditions(wr[0])) == conds
        ck.ob(f"{fname}: the scope it opens is `{want}`" + (" exactly when a type condition is given" if conds else ""), ok, f, wr[0] if wr else f.node,
              construct=f"scope:{fname}:value", detail=str(sorted(fv.conditions(wr[0]))) if wr else None)
    st = {unparse(nd.targets[0]): nd.value for nd in walk_no_nested(w.trans.funcs["_parse_inline_fragment"].node) if isinstance(nd, ast.Assign) and isinstance(nd.targets[0], ast.Name)}
    from ..q import ifexp_parts
    ck.ob("_parse_inline_fragment: the type condition is the parsed one when the fragment has one, else None",
          ifexp_parts(st.get("type_cond")) == ("inline_fragment_ast['typeCondition']", "_parse_named_type(inline_fragment_ast['typeCondition'])", "None"),
          w.trans.funcs["_parse_inline_fragment"], st.get("type_cond"), construct="scope:_parse_inline_fragment:type-cond")
    st = {unparse(nd.targets[0]): nd.value for nd in walk_no_nested(w.trans.funcs["_parse_fragment_definition"].node) if isinstance(nd, ast.Assign) and isinstance(nd.targets[0], ast.Name)}
    ck.ob("_parse_fragment_definition: the type condition is the parsed one", unparse(st.get("type_cond")) == "_parse_named_type(fragment_definition_ast['typeCondition'])",
          w.trans.funcs["_parse_fragment_definition"], st.get("type_cond"), construct="scope:_parse_fragment_definition:type-cond")
    g = w.trans.funcs["_get_operation_type_name"]
    r = FuncView(g).returns()
    ck.ob("_get_operation_type_name reads the schema's root type name of that operation kind", len(r) == 1 and
          unparse(r[0].value) == f"getattr({g.positional_params[1]}, f'{{{g.positional_params[0]}.lower()}}_operation_name')", g, g.node, construct="scope:operation-root")
    h = repo.func(RULES_PKG + "utils.py", "get_schema_field_type_name")
    hv = FuncView(h)
    hp = h.positional_params
    rr = hv.returns()
    main = [x for x in rr if not any(contains(hh, x) for hh in hv.handlers())]
    inh = [x for x in rr if any(contains(hh, x) for hh in hv.handlers())]
    ok = len(main) == 1 and unparse(main[0].value) == f"reduce_type(find_field({hp[0]}, {hp[1]}, {hp[2]}).gql_type)" and len(inh) == 1 and unparse(inh[0].value) == "None"
    ck.ob("get_schema_field_type_name: the named type of the field of that parent (None for an unknown field)", ok, h, h.node, construct="scope:field-type")


def _stateless_rules(ck, repo, w):
    n = 0
    for name, c in sorted(w.rule_classes.items()):
        for mname, m in c.methods.items():
            if mname == "__init__":
                continue
            n += 1
            bad = []
            for nd in walk_no_nested(m.node):
                tgts = []
                if isinstance(nd, ast.Assign):
                    tgts = nd.targets
                elif isinstance(nd, (ast.AugAssign, ast.AnnAssign)):
                    tgts = [nd.target]
                elif isinstance(nd, (ast.Global, ast.Nonlocal)):
                    bad.append(nd)
                for t in tgts:
                    base = t
                    while isinstance(base, (ast.Attribute, ast.Subscript)):
                        base = base.value
                    if isinstance(t, (ast.Attribute, ast.Subscript)) and isinstance(base, ast.Name) and base.id in ("self", "cls", c.name):
                        bad.append(nd)
                if isinstance(nd, ast.Call) and isinstance(nd.func, ast.Attribute) and nd.func.attr in (
                        "append", "extend", "add", "update", "setdefault", "pop", "clear", "remove", "insert"):
                    base = nd.func.value
                    while isinstance(base, (ast.Attribute, ast.Subscript)):
                        base = base.value
                    if isinstance(base, ast.Name) and base.id in ("self", "cls", c.name):
                        bad.append(nd)
            ck.ob(f"{c.name}.{mname} keeps no state on the shared rule object", not bad, m, bad[0] if bad else m.node,
                  construct=f"stateless:{c.name}.{mname}")
    ck.count("rule_methods_checked", n, 40)
    # module-level mutable state in rule modules
    for rel, mod in sorted(repo.by_relpath.items()):
        if not rel.startswith(RULES_PKG) or rel.endswith("__init__.py"):
            continue
        for nm, v in mod.assigns.items():
            if isinstance(v, (ast.List, ast.Set)) or (isinstance(v, ast.Call) and dotted(v.func) in ("list", "set", "dict", "defaultdict")):
                ck.ob(f"{rel}: no module-level mutable container ({nm})", False, where=rel, construct=f"module-state:{nm}")


def _document_level(ck, repo, w):
    f = w.trans.func("_parse_definitions")
    fv = FuncView(f)
    loops = [l for l in fv.loops() if isinstance(l, ast.For) and unparse(l.iter) == f.positional_params[0]]
    if len(loops) != 1:
        raise AnalysisError("_parse_definitions: loop over the definitions not found")
    lp = loops[0]
    sites = [s for s in w.sites if s.func is f]
    ck.count("document_level_sites", len(sites), 11)
    for s in sites:
        ok = not contains(lp, s.call) and fv.cfg.can_reach(fv.cfg.node_of(lp).id, fv.cfg_node(s.call).id, skip_exc=True) and \
            not fv.cfg.can_reach(fv.cfg_node(s.call).id, fv.cfg.node_of(lp).id, skip_exc=True)
        ck.ob(f"_parse_definitions: {s.rule} runs after every definition has been parsed (fragments may be defined after their use)", ok, f, s.call,
              construct=f"doc-level:{s.rule}")
    ap = [c for c in fv.calls("append") if contains(lp, c)]
    ck.ob("_parse_definitions: every definition is parsed and kept", len(ap) == 1 and "_parse_definition(" in unparse(ap[0].args[0]), f, ap[0] if ap else lp,
          construct="doc-level:all-parsed")
    # the introspection meta-field is exempt from the field-existence rule
    fr = w.validate_method("field-selections-on-objects-interfaces-and-unions-types")
    rv = FuncView(fr)
    ex = [r for r in rv.returns() if unparse(r.value) == "[]" and any(("__typename" in t or "startswith('__')" in t) and o == "T" for t, o in rv.conditions(r))]
    ck.ob("field-existence rule: `__typename` is accepted on every composite type", bool(ex), fr, ex[0] if ex else fr.node, construct="meta-field:exempt")
    # variable / argument usage through fragment spreads: decided on abstract documents by usage_walk_terms (E13) - the walk may be
    # written with a threaded accumulator, a visited set or per-fragment results, in one helper or two


# ---------------------------------------------------------------------------
# R6 / C07.R8: predicate tables of the table-shaped rules
# ---------------------------------------------------------------------------


def _errors_class(trace, rv):
    """'error' if the returned list can be non-empty because an error was built on this path."""
    built = any(any(isinstance(c, ast.Call) and callee_last(c) == "graphql_error_from_nodes" for c in ast.walk(n.ast)) for n in trace.stmts())
    return "error" if built else "ok"


def lone_anonymous_table(ck, repo, w):
    """Shared with C18.R4: operations are indexed by name at request time, so several anonymous operations would collapse into one."""
    from ..q import collected_into
    m = w.validate_method("lone-anonymous-operation")
    mv = FuncView(m)
    ops = m.positional_params[2]
    # the error construction and the list it reports (whatever the list is called, however it is filled)
    errs = [c for c in mv.calls("graphql_error_from_nodes")]
    lst = arg_text(errs[0], None, "nodes") if len(errs) == 1 else None
    got = collected_into(mv, lst) if lst else []
    ok = len(got) == 1 and got[0][1] == ops and got[0][2] == frozenset({(f"len({ops}) > 1", "T"), (f"{got[0][0]}.name is None", "T")})
    ck.ob("lone-anonymous-operation: an operation is reported iff it is anonymous and the document has more than one operation", ok, m, errs[0] if errs else m.node,
          construct="table:lone-anonymous", detail=str([(e, i, sorted(c)) for e, i, c in got]))
    ok = len(errs) == 1 and set(mv.conditions(errs[0])) == {(lst, "T")}
    ck.ob("lone-anonymous-operation: an error is produced exactly when such an operation exists", ok, m, errs[0] if errs else m.node, construct="table:lone-anonymous:guard",
          detail=str(sorted(mv.conditions(errs[0]))) if errs else None)


def rule_tables(ck, repo, w):
    # ---- uniqueness family
    shapes = []
    for rel, cls, what in UNIQ:
        m = repo.func(RULES_PKG + rel, f"{cls}.validate")
        mv = FuncView(m)
        fn = mv.maybe_call("find_nodes_by_name")
        apps = [c for c in mv.calls("append") if unparse(c.func.value) == "errors"]
        ok = fn is not None and len(apps) == 1
        thr = None
        if ok:
            conds = mv.conditions_ast(apps[0])
            for t, o in conds:
                if isinstance(t, ast.Compare) and isinstance(t.left, ast.Call) and dotted(t.left.func) == "len" and len(t.ops) == 1 and isinstance(t.comparators[0], ast.Constant):
                    op, c = type(t.ops[0]), t.comparators[0].value
                    if o == "T":
                        thr = c + 1 if op is ast.Gt else (c if op is ast.GtE else None)
                    else:
                        thr = c + 1 if op is ast.LtE else (c if op is ast.Lt else None)
                    grp = unparse(t.left.args[0])
            st = mv.stmt_of(fn)
            same_list = isinstance(st, ast.Assign) and unparse(st.targets[0]) == grp if thr is not None else False
            lp = mv.enclosing(fn, (ast.For,))
            coll = unparse(lp.iter) if lp is not None else None
            ok = thr == 2 and same_list and coll is not None and arg_text(fn, 0) == coll and arg_text(fn, 1) == f"{unparse(lp.target)}.name.value"
        shapes.append(ok)
        ck.ob(f"{cls}: reports a name iff at least two nodes of the checked list carry it (threshold evaluated: {thr})", ok, m, apps[0] if apps else m.node,
              construct=f"uniq:{cls}", detail="a uniqueness rule firing at one occurrence refuses every document")
        rets = mv.returns()
        ck.ob(f"{cls}: returns the accumulated errors only", len(rets) == 1 and unparse(rets[0].value) == "errors", m, rets[0] if rets else m.node, construct=f"uniq:{cls}:return")
    fnb = repo.func(RULES_PKG + "utils.py", "find_nodes_by_name")
    r = FuncView(fnb).returns()
    a, b = fnb.positional_params
    ck.ob("find_nodes_by_name selects the nodes whose name equals the given one", len(r) == 1 and unparse(r[0].value) == f"[x for x in {a} if x.name and x.name.value == {b}]",
          fnb, fnb.node, construct="uniq:find_nodes_by_name")

    lone_anonymous_table(ck, repo, w)

    # ---- LeafFieldSelections
    m = w.validate_method("leaf-field-selections")
    mv = FuncView(m)
    fld = "field"
    atoms = Atoms({"rtype": "found", f"find_field_reduced_type(parent_type_name, {fld}.name.value, schema)": "found",
                   "isinstance(rtype, GraphQLCompositeType)": "composite",
                   f"isinstance(find_field_reduced_type(parent_type_name, {fld}.name.value, schema), GraphQLCompositeType)": "composite",
                   f"{fld}.selection_set": "has_selection"})
    for found, comp, sel in itertools.product([False, True], repeat=3):
        if comp and not found:
            continue
        val = {"found": found, "composite": comp, "has_selection": sel}
        want = "error" if found and (comp != sel) else "ok"
        got = set()
        for tr in mv.cfg.simulate(lambda n, env: evaluate(n.ast, env, val, atoms)):
            rv = _ret_class(tr)
            got.add("ok" if (not isinstance(rv, str) and unparse(rv) == "[]") else ("error" if not isinstance(rv, str) and "graphql_error_from_nodes" in unparse(rv) else str(rv)))
        ck.ob(f"leaf-field-selections table {val}", got == {want}, m, m.node, construct="table:leaf:" + "".join(str(int(v)) for v in val.values()),
              detail=f"got {sorted(got)}, specification {want}" + atoms.note())

    # ---- field existence
    m = w.validate_method("field-selections-on-objects-interfaces-and-unions-types")
    mv = FuncView(m)
    atoms = Atoms({"field.name.value == '__typename'": "is_typename", "field.name.value.startswith('__')": "dunder",
                   "graphql_type is None": "!found", "find_field_reduced_type(parent_type_name, field.name.value, schema) is None": "!found"})
    for tn, dunder, found in itertools.product([False, True], repeat=3):
        if tn and not dunder:
            continue
        val = {"is_typename": tn, "found": found, "dunder": dunder}
        want = "ok" if (tn or found) else "error"
        got = set()
        for tr in mv.cfg.simulate(lambda n, env: evaluate(n.ast, env, val, atoms)):
            rv = _ret_class(tr)
            got.add("ok" if (not isinstance(rv, str) and unparse(rv) == "[]") else ("error" if not isinstance(rv, str) and "graphql_error_from_nodes" in unparse(rv) else str(rv)))
        ck.ob(f"field-existence table {{typename: {tn}, other __name: {dunder and not tn}, defined: {found}}}", got == {want}, m, m.node,
              construct=f"table:field-exists:{int(tn)}{int(dunder)}{int(found)}",
              detail=f"got {sorted(got)}, specification {want}" + atoms.note())

    # ---- fragments on composite types / type existence
    m = w.validate_method("fragments-on-composite-types")
    mv = FuncView(m)
    apps = [c for c in mv.calls("append") if unparse(c.func.value) == "errors"]
    conds = set(mv.conditions(apps[0])) if len(apps) == 1 else set()
    tc = "fragment.type_condition"
    want = {(tc, "T"), (f"schema.has_type({tc}.name.value)", "T"), (f"isinstance(schema.find_type({tc}.name.value), GraphQLCompositeType)", "F")}
    ck.ob("fragments-on-composite-types: error iff the condition names an existing, non-composite type", want <= conds and len(conds) == 3, m, apps[0] if apps else m.node,
          construct="table:composite", detail=str(sorted(conds)))
    m = w.validate_method("fragment-spread-type-existence")
    mv = FuncView(m)
    apps = [c for c in mv.calls("append") if unparse(c.func.value) == "errors"]
    conds = set(mv.conditions(apps[0])) if len(apps) == 1 else set()
    want = {(tc, "T"), (f"schema.has_type({tc}.name.value)", "F")}
    ck.ob("fragment-spread-type-existence: error iff the condition names an unknown type", conds == want, m, apps[0] if apps else m.node, construct="table:type-exists",
          detail=str(sorted(conds)))
    for rule in ("fragments-on-composite-types", "fragment-spread-type-existence"):
        m = w.validate_method(rule)
        r = FuncView(m).returns()
        ck.ob(f"{rule}: returns the accumulated errors only", len(r) == 1 and unparse(r[0].value) == "errors", m, m.node, construct=f"table:{rule}:return")

    # ---- directives are defined
    m = w.validate_method("directives-are-defined")
    mv = FuncView(m)
    bad = [r for r in mv.returns() if "graphql_error_from_nodes" in unparse(r.value)]
    ok = len(bad) == 1 and set(mv.conditions(bad[0])) == {("schema.has_directive(directive.name.value)", "F")}
    good = [r for r in mv.returns() if unparse(r.value) == "[]"]
    ck.ob("directives-are-defined: error iff the schema has no directive of that name", ok and len(good) == 1, m, bad[0] if bad else m.node, construct="table:directive-defined")

    # ---- variables are input types
    m = w.validate_method("variables-are-input-types")
    mv = FuncView(m)
    bad = [r for r in mv.returns() if "graphql_error_from_nodes" in unparse(r.value)]
    conds = set(mv.conditions(bad[0])) if len(bad) == 1 else set()
    want = {("schema.has_type(var_type.name.value)", "T"), ("isinstance(schema.find_type(var_type.name.value), GraphQLInputType)", "F")}
    ck.ob("variables-are-input-types: error iff the named type exists and is not an input type", conds == want, m, bad[0] if bad else m.node, construct="table:input-type",
          detail=str(sorted(conds)))
    src = [n for n in walk_no_nested(m.node) if isinstance(n, ast.Assign) and unparse(n.targets[0]) == "var_type"]
    ck.ob("variables-are-input-types: the named type is the unwrapped declared type", len(src) == 1 and unparse(src[0].value) == "get_wrapped_named_type(variable.type)", m,
          src[0] if src else m.node, construct="table:input-type:unwrapped")
    for cname, rel in (("GraphQLScalarType", "scalar.py"), ("GraphQLEnumType", "enum.py"), ("GraphQLInputObjectType", "input_object.py")):
        c = repo.cls("tartiflette/types/" + rel, cname)
        ck.ob(f"{cname} is an input type", repo.is_subclass(c, "tartiflette.types.type.GraphQLInputType"), where=c.module.relpath, construct=f"input-type:{cname}")
    for cname, rel in (("GraphQLObjectType", "object.py"), ("GraphQLInterfaceType", "interface.py"), ("GraphQLUnionType", "union.py")):
        c = repo.cls("tartiflette/types/" + rel, cname)
        ck.ob(f"{cname} is a composite type and not an input type", repo.is_subclass(c, "tartiflette.types.type.GraphQLCompositeType")
              and not repo.is_subclass(c, "tartiflette.types.type.GraphQLInputType"), where=c.module.relpath, construct=f"composite-type:{cname}")

    # ---- required arguments
    m = repo.func(RULES_PKG + "required_arguments.py", "RequiredArguments._validate_arguments")
    comp = [n for n in walk_no_nested(m.node) if isinstance(n, ast.ListComp)]
    ok = False
    if len(comp) == 1 and len(comp[0].generators) == 1 and len(comp[0].generators[0].ifs) == 1:
        cond = comp[0].generators[0].ifs[0]
        parts = sorted(unparse(v) for v in cond.values) if isinstance(cond, ast.BoolOp) and isinstance(cond.op, ast.And) else []
        ok = parts == sorted(["isinstance(schema_arg.graphql_type, GraphQLNonNull)", "schema_arg.default_value is None",
                              "not find_nodes_by_name(parent_node.arguments, schema_arg.name)"]) and unparse(comp[0].generators[0].iter) == "schema_definition.arguments.values()"
    ck.ob("required-arguments: error iff a declared argument is non-null, has no default and is not provided", ok, m, comp[0] if comp else m.node, construct="table:required-args")

    # ---- argument names
    for meth, coll, decl in (("_validate_directive_arguments", "query_node.arguments", "schema_directive.arguments"),
                             ("_validate_field_arguments", "query_field.arguments", "schema_field.arguments")):
        m = repo.func(RULES_PKG + "argument_names.py", f"ArgumentNames.{meth}")
        mv = FuncView(m)
        apps = [c for c in mv.calls("append") if unparse(c.func.value) == "errors"]
        ok = False
        if len(apps) == 1:
            lp = mv.enclosing(apps[0], (ast.For,))
            ok = lp is not None and unparse(lp.iter) == coll and (f"{unparse(lp.target)}.name.value in {decl}", "F") in mv.conditions(apps[0])
        ck.ob(f"argument-names ({meth}): error iff a provided argument is not declared", ok, m, apps[0] if apps else m.node, construct=f"table:arg-names:{meth}")

    # ---- executable definitions
    m = w.validate_method("executable-definitions")
    comp = [n for n in walk_no_nested(m.node) if isinstance(n, ast.ListComp)]
    ok = len(comp) == 1 and [unparse(i) for i in comp[0].generators[0].ifs] == ["not isinstance(x, ExecutableDefinitionNode)"]
    ck.ob("executable-definitions: a definition is reported iff it is not executable", ok, m, comp[0] if comp else m.node, construct="table:executable")
    for cname in ("OperationDefinitionNode", "FragmentDefinitionNode"):
        c = repo.lookup(repo.resolve_dotted(f"tartiflette.language.ast.{cname}"))
        ck.ob(f"{cname} is an executable definition", c is not None and repo.is_subclass(c, "tartiflette.language.ast.base.ExecutableDefinitionNode"),
              where="tartiflette/language/ast", construct=f"executable:{cname}")

    # ---- directive locations
    mod = repo.mod(RULES_PKG + "directives_are_in_valid_locations.py")
    tbl = mod.assigns.get("_NODE_TO_DIRECTIVE_LOCATION_MAP")
    got = {unparse(k).strip("'"): v.value for k, v in zip(tbl.keys, tbl.values)} if isinstance(tbl, ast.Dict) else {}
    want = {"FieldNode": "FIELD", "FragmentSpreadNode": "FRAGMENT_SPREAD", "InlineFragmentNode": "INLINE_FRAGMENT", "FragmentDefinitionNode": "FRAGMENT_DEFINITION",
            "query": "QUERY", "mutation": "MUTATION", "subscription": "SUBSCRIPTION"}
    ck.ob("directives-are-in-valid-locations: node kind -> location table equals the seven executable locations of the specification", got == want, where=mod.relpath,
          construct="table:locations", detail=str(got))
    m = w.validate_method("directives-are-in-valid-locations")
    mv = FuncView(m)
    apps = [c for c in mv.calls("append") if unparse(c.func.value) == "errors"]
    ok = len(apps) == 1 and ("_NODE_TO_DIRECTIVE_LOCATION_MAP[node_type] in schema_directive.locations", "F") in mv.conditions(apps[0])
    ck.ob("directives-are-in-valid-locations: error iff the location is not among the directive's declared locations", ok, m, apps[0] if apps else m.node,
          construct="table:locations:test")

    ok = len(apps) == 1 and set(mv.conditions(apps[0])) == {("schema.has_directive(directive.name.value)", "T"), ("_NODE_TO_DIRECTIVE_LOCATION_MAP[node_type] in schema_directive.locations", "F")}
    ck.ob("directives-are-in-valid-locations: judged for every known directive of the node (unknown ones are 5.7.1's)", ok and
          len([l for l in mv.loops() if isinstance(l, ast.For) and unparse(l.iter) == "node.directives"]) == 1, m, apps[0] if apps else m.node, construct="table:locations:known-only")
    nt = [n for n in walk_no_nested(m.node) if isinstance(n, ast.Assign) and unparse(n.targets[0]) == "node_type"]
    by = {unparse(n.value): set(mv.conditions(n)) for n in nt}
    ck.ob("directives-are-in-valid-locations: the key is the node's class, or the operation kind for an operation definition",
          by == {"type(node)": set(), "node.operation_type.lower()": {("isinstance(node, OperationDefinitionNode)", "T")}}, m, nt[0] if nt else m.node,
          construct="table:locations:key", detail=str(by))
    sd = [n for n in walk_no_nested(m.node) if isinstance(n, ast.Assign) and unparse(n.targets[0]) == "schema_directive"]
    ck.ob("directives-are-in-valid-locations: the declared locations are those of the directive of that name", len(sd) == 1 and
          unparse(sd[0].value) == "schema.find_directive(directive.name.value)", m, sd[0] if sd else m.node, construct="table:locations:definition")

    # ---- fragments must be used / spread targets defined
    m = w.validate_method("fragment-must-be-used")
    r = FuncView(m).returns()
    comp = r[0].value if len(r) == 1 and isinstance(r[0].value, ast.ListComp) else None
    ok = comp is not None and len(comp.generators) == 1 and unparse(comp.generators[0].iter) == "fragments" and \
        [unparse(i) for i in comp.generators[0].ifs] == [f"not find_nodes_by_name(fragment_spreads, {unparse(comp.generators[0].target)}.name.value)"]
    ck.ob("fragment-must-be-used: a fragment is reported iff no spread of the document carries its name", ok, m, r[0] if r else m.node, construct="table:fragment-used")
    m2 = w.validate_method("fragment-spread-target-defined")
    m2v = FuncView(m2)
    sets = [c for c in m2v.calls("append") if "erronous_speads" in unparse(c.func.value)]
    lp = [l for l in m2v.loops() if isinstance(l, ast.For) and unparse(l.iter) == "fragment_spreads"]
    ok = len(sets) == 1 and len(lp) == 1 and contains(lp[0], sets[0]) and set(m2v.conditions(sets[0])) == {(f"find_nodes_by_name(fragments, {unparse(lp[0].target)}.name.value)", "F")} and \
        not any(isinstance(n, (ast.Break, ast.Continue, ast.Return)) for n in walk_no_nested(lp[0]))
    r2 = m2v.returns()
    ok = ok and len(r2) == 1 and unparse(r2[0].value) == "self._to_errors(erronous_speads, path)"
    ck.ob("fragment-spread-target-defined: a spread is reported iff no fragment of the document carries its name; every spread is looked at", ok, m2, sets[0] if sets else m2.node,
          construct="table:spread-target")
    te = repo.func(RULES_PKG + "fragment_spread_target_defined.py", "FragmentSpreadTargetDefined._to_errors")
    r3 = FuncView(te).returns()
    ok = len(r3) == 1 and isinstance(r3[0].value, ast.ListComp) and unparse(r3[0].value.generators[0].iter) == f"{te.positional_params[1]}.items()" and not r3[0].value.generators[0].ifs
    ck.ob("fragment-spread-target-defined: one error per unknown name", ok, te, te.node, construct="table:spread-target:errors")
    for mm in (m, m2):
        mmv = FuncView(mm)
        d = [n for n in walk_no_nested(mm.node) if isinstance(n, ast.Assign) and unparse(n.targets[0]) == "fragment_spreads" and unparse(n.value) == "[]"]
        ck.ob(f"{mm.cls.name}: a document without spreads means the empty list of spreads, nothing else", len(d) == 1 and set(mmv.conditions(d[0])) == {("fragment_spreads", "F")}, mm,
              d[0] if d else mm.node, construct=f"table:{mm.cls.name}:default")

    # ---- all variable usages are allowed
    _variable_usage_tables(ck, repo)


def _variable_usage_tables(ck, repo):
    rel = RULES_PKG + "all_variable_usages_are_allowed.py"
    u = repo.func(rel, "_validate_usage")
    uv = FuncView(u)
    a, v = u.positional_params[:2]   # (a rule written with more parameters is judged on these two: the usage record and the variable definition)
    atoms = Atoms({
        f"isinstance({a}.gql_type, GraphQLNonNull)": "loc_non_null",
        f"isinstance({v}.type, NonNullTypeNode)": "var_non_null",
        f"isinstance({v}.default_value, (NullValueNode, type(None)))": "!var_default",
        f"{a}.default_value is None": "!loc_default",
    })
    strict = f"_validate_type_compatibility({v}.type, {a}.gql_type)"
    unwrapped = f"_validate_type_compatibility({v}.type, {a}.gql_type.gql_type)"
    for ln, vn, vd, ld in itertools.product([False, True], repeat=4):
        val = {"loc_non_null": ln, "var_non_null": vn, "var_default": vd, "loc_default": ld}
        if ln and not vn:
            want = unwrapped if (vd or ld) else "False"
        else:
            want = strict
        got = set()
        from ..pathtab import eager_env
        for tr in uv.cfg.simulate(lambda n, env: evaluate(n.ast, env, val, atoms)):
            rv = _ret_class(tr)
            # resolved with what each name held when it was read (`t = t.gql_type` is the unwrapped type afterwards)
            got.add(rv if isinstance(rv, str) else unparse(eager_env(tr)["__sub__"](rv)))
        ck.ob(f"IsVariableUsageAllowed table {val}", got == {want}, u, u.node, construct="table:usage:" + "".join(str(int(x)) for x in val.values()),
              detail=f"got {sorted(got)}, specification {want}" + atoms.note())
    t = repo.func(rel, "_validate_type_compatibility")
    tv = FuncView(t)
    vt, st = t.positional_params
    atoms = Atoms({f"isinstance({st}, GraphQLNonNull)": "loc_nn", f"isinstance({vt}, NonNullTypeNode)": "var_nn", f"isinstance({st}, GraphQLList)": "loc_list",
                   f"isinstance({vt}, ListTypeNode)": "var_list"})
    rec = lambda x, y: f"_validate_type_compatibility({x}, {y})"
    for lnn, vnn, ll, vl in itertools.product([False, True], repeat=4):
        if lnn and ll:
            continue
        if vnn and vl:
            continue
        val = {"loc_nn": lnn, "var_nn": vnn, "loc_list": ll, "var_list": vl}
        if lnn:
            want = rec(f"{vt}.type", f"{st}.gql_type") if vnn else "False"
        elif vnn:
            want = rec(f"{vt}.type", st)
        elif ll:
            want = rec(f"{vt}.type", f"{st}.gql_type") if vl else "False"
        elif vl:
            want = "False"
        else:
            want = f"{vt}.name.value == str({st})"
        got = set()
        for tr in tv.cfg.simulate(lambda n, env: evaluate(n.ast, env, val, atoms)):
            rv = _ret_class(tr)
            got.add(rv if isinstance(rv, str) else canon(rv, tr.env))
        ck.ob(f"AreTypesCompatible (one unfolding) {val}", got == {want}, t, t.node, construct="table:compat:" + "".join(str(int(x)) for x in val.values()),
              detail=f"got {sorted(got)}, specification {want}" + atoms.note())
    o = repo.func(rel, "AllVariableUsagesAreAllowed._validate_operation")
    ov = FuncView(o)
    apps = [c for c in ov.calls("append") if unparse(c.func.value) == "errors"]
    ok = len(apps) == 1 and ("_validate_usage(schema_argument, variable_used)", "F") in ov.conditions(apps[0])
    ck.ob("all-variable-usages-are-allowed: an error is produced iff the usage is not allowed", ok, o, apps[0] if apps else o.node, construct="table:usage:report")


def values_of_correct_type_table(ck, repo):
    """5.6.1 as a path-outcome table of ValuesOfCorrectType._validate(reduced type, current type, arg, ..., value_node, input_field):
    which kinds of value reach which verdict, whatever the statements look like.  Shared by C06 (accept side) and C07 (refuse side)."""
    from ..pathtab import outcome_rows, truth, instance_fact
    f = repo.func(RULES_PKG + "values_of_correct_type.py", "ValuesOfCorrectType._validate")
    fv = FuncView(f)
    a = f.node.args
    names = [x.arg for x in a.args]
    if len(names) < 9:
        raise AnalysisError(f"{f.qualname}: expected (self, reduced, current, arg, path, errors, schema, value_node, input_field)")
    _, red, cur, argn, _, errs, _, vn, _ = names[:9]
    subjects = (vn, f"{argn}.value")
    loops = [lp for lp in fv.loops() if isinstance(lp, ast.For) and any(callee_last(c) == f.name for c in ast.walk(lp) if isinstance(c, ast.Call))]
    item = unparse(loops[0].target) if len(loops) == 1 and isinstance(loops[0].target, ast.Name) else None
    if item is None:
        raise AnalysisError(f"{f.qualname}: expected one loop over the items of a list value that validates each item")
    loop = loops[0]
    body_ids = {id(x) for s in loop.body for x in ast.walk(s)}
    rows = outcome_rows(fv)
    n = 0

    def fact(r, cls):
        for s in subjects:
            v = instance_fact(r, s, cls)
            if v is not None:
                return v
        return None

    for r in rows:
        if r["exit"] != "return_exit":
            continue
        n += 1
        stmts = [nd.ast for nd in r["trace"].nodes if nd.kind == "stmt" and nd.ast is not None]
        reported = any(callee_last(c) == "graphql_error_from_nodes" for s in stmts for c in ast.walk(s) if isinstance(c, ast.Call))
        rec = [c for s in stmts for c in ast.walk(s) if isinstance(c, ast.Call) and callee_last(c) == f.name]
        in_loop = any(id(s) in body_ids for s in stmts) or any(nd.kind == "test" and nd.ast is not None and id(nd.ast) in body_ids for nd in r["trace"].nodes)
        rec_item = [c for c in rec if id(c) in body_ids]
        is_var, is_null = fact(r, "VariableNode"), fact(r, "NullValueNode")
        c_nn, c_list = instance_fact(r, cur, "GraphQLNonNull"), instance_fact(r, cur, "GraphQLList")
        where = r["last"] or f.node
        tag = ",".join(f"{k}={v}" for k, v in (("var", is_var), ("null", is_null), ("nonnull", c_nn), ("list", c_list)) if v)
        if is_var == "T":
            ck.ob("values-of-correct-type: a variable is left to the variable rules (no verdict here)", not reported and not rec, f, where, construct="value-table:variable")
            continue
        if is_var != "F":
            ck.ob("values-of-correct-type: the value's kind is examined before anything else", False, f, where, construct="value-table:kind-first", detail=tag)
            continue
        if c_nn == "T":
            if is_null == "T":
                ck.ob("values-of-correct-type: null for a non-null type is reported", reported, f, where, construct="value-table:nonnull:null")
            elif is_null == "F":
                ok = len(rec) == 1 and arg_text(rec[0], 1) == f"{cur}.gql_type" and arg_text(rec[0], None, "value_node") in subjects
                ck.ob("values-of-correct-type: a non-null type hands the same value on to the type it wraps", ok and not reported, f, where, construct="value-table:nonnull:unwrap")
            else:
                ck.ob("values-of-correct-type: a non-null type asks whether the value is null", False, f, where, construct="value-table:nonnull:asks-null", detail=tag)
            continue
        if c_list == "T":
            if is_null == "T":
                ck.ob("values-of-correct-type: null for a (nullable) list type is accepted as it is", not reported and not rec, f, where, construct="value-table:list:null")
                continue
            if is_null != "F":
                ck.ob("values-of-correct-type: a list type asks whether the whole value is null before looking at items (null is not a list of one null)", False, f, where,
                      construct="value-table:list:asks-null", detail=tag)
            if not in_loop:
                continue  # no items
            iv = instance_fact(r, item, "VariableNode")
            if rec_item:
                c = rec_item[0]
                ok = arg_text(c, 1) == f"{cur}.gql_type" and arg_text(c, None, "value_node") == item and arg_text(c, 0) == red
                ck.ob("values-of-correct-type: each item of a list value is validated against the item type", ok, f, c, construct="value-table:list:item")
                ck.ob("values-of-correct-type: an item is validated only once it is known not to be a variable", iv == "F", f, c, construct="value-table:list:item-kind", detail=str(iv))
            else:
                ck.ob("values-of-correct-type: the only item of a list value left unvalidated is a variable (a null item is judged by the item type: [Int!] refuses [1, null])",
                      iv == "T", f, where, construct="value-table:list:skip-only-variable",
                      detail=f"tests on the skipped item: {[(c, o) for c, o in r['conds'] if item in c]}")
            continue
        if c_nn != "F" or c_list != "F":
            ck.ob("values-of-correct-type: the wrappers of the current type are peeled before the leaf is judged", False, f, where, construct="value-table:wrappers-first", detail=tag)
            continue
        # leaf
        if is_null == "T":
            ck.ob("values-of-correct-type: null for a nullable leaf is accepted", not reported and not rec, f, where, construct="value-table:leaf:null")
            continue
        if is_null != "F":
            ck.ob("values-of-correct-type: a leaf asks whether the value is null before parsing it", False, f, where, construct="value-table:leaf:asks-null", detail=tag)
            continue
        sc = instance_fact(r, red, "GraphQLScalarType")
        io = instance_fact(r, red, "GraphQLInputObjectType")
        en = instance_fact(r, red, "GraphQLEnumType")
        bad_literal = any(truth(r, f"{red}.parse_literal({s}) is UNDEFINED_VALUE") == "T" for s in subjects)
        good_literal = any(truth(r, f"{red}.parse_literal({s}) is UNDEFINED_VALUE") == "F" for s in subjects)
        if [sc, io, en].count("T") > 1:
            continue  # the three leaf kinds are disjoint classes: not a feasible path
        if sc == "T":
            if bad_literal:
                ck.ob("values-of-correct-type: a literal the scalar cannot parse is reported", reported, f, where, construct="value-table:leaf:scalar:bad")
            elif good_literal:
                ck.ob("values-of-correct-type: a literal the scalar parses is accepted", not reported, f, where, construct="value-table:leaf:scalar:good")
            else:
                ck.ob("values-of-correct-type: a scalar leaf is judged by the scalar's parse_literal", False, f, where, construct="value-table:leaf:scalar:parses", detail=str(r["conds"][-3:]))
            continue
        if io == "T":
            calls = [c for s in stmts for c in ast.walk(s) if isinstance(c, ast.Call) and callee_last(c) == "_validate_input_object"]
            ok = len(calls) == 1 and arg_text(calls[0], None, "object_node") in subjects and arg_text(calls[0], None, "schema_argument_definition") == red
            ck.ob("values-of-correct-type: an input-object leaf is judged field by field on the same value", ok, f, calls[0] if calls else where, construct="value-table:leaf:object")
            continue
        if en == "T":
            member = [(c, o) for c, o in r["conds"] if f"{red}.values" in c]
            if member:
                c, o = member[-1]
                outside = (" not in " in c and o == "T") or (" not in " not in c and " in " in c and o == "F")
                ck.ob("values-of-correct-type: an enum literal is reported iff it names no value of the enum", reported == outside, f, where, construct="value-table:leaf:enum")
            else:
                ck.ob("values-of-correct-type: an enum leaf is judged by membership in the enum's values", False, f, where, construct="value-table:leaf:enum:asks", detail=str(r["conds"][-3:]))
            continue
        ck.ob("values-of-correct-type: no verdict on a leaf that is neither scalar, input object nor enum", not reported, f, where, construct="value-table:leaf:other")
    ck.count("values_of_correct_type_paths", n, 20)


def cycle_rule_terms(ck, repo):
    """E13: the fragment-cycle rule interpreted on every spread graph over three fragments (each fragment spreading any subset of
    {A, B, C, an undefined name}, once or twice, directly or inside a field's or an inline fragment's sub-selection; the quick tier keeps the twice/nested
    forms for graphs with at most one spread per fragment): it reports exactly the graphs in
    which a fragment reaches itself - a fragment spread twice, a sub-fragment shared by two fragments (a DAG) and undefined
    targets are not cycles - however the current path is kept (a list pushed and popped, an immutable tuple handed down)."""
    from .. import absint
    from ..absint import App, RecV, Sym
    import itertools as _it
    mod = repo.mod(CYCLES)
    cls = mod.cls("FragmentSpreadsMustNotFormCycles")
    f = cls.methods["validate"]
    names = ("A", "B", "C")
    targets = names + ("Nope",)
    subsets = [c for k in range(0, 3) for c in _it.combinations(targets, k)]   # up to two distinct targets per fragment
    n, bad = 0, []

    def cyclic(graph):
        def dfs(x, path):
            for y in graph.get(x, ()):
                if y in path:
                    return True
                if y in graph and dfs(y, path + (y,)):
                    return True
            return False
        # the rule starts from every fragment with an empty path: a fragment reaches itself iff some start revisits a name on its path
        return any(dfs(x, ()) for x in names)

    variants = ("plain", "twice", "nested", "inline")
    for combo in _it.product(subsets, repeat=3):
        graph = dict(zip(names, combo))
        want = cyclic(graph)
        small = all(len(c) <= 1 for c in combo)
        for variant in (variants if any(combo) and (small or ck.tier == "thorough") else ("plain",)):
            frags = []
            for nm in names:
                sels = []
                for t in graph[nm]:
                    sp = RecV("FragmentSpreadNode", name=RecV("NameNode", value=t, _strict=True), selection_set=None, _label="..." + t, _strict=True)
                    if variant == "nested":
                        sels.append(RecV("FieldNode", name=RecV("NameNode", value="f", _strict=True),
                                         selection_set=RecV("SelectionSetNode", selections=[sp], _strict=True), _label="f{...}", _strict=True))
                    elif variant == "inline":
                        sels.append(RecV("InlineFragmentNode", type_condition=None, selection_set=RecV("SelectionSetNode", selections=[sp], _strict=True), _label="...{...}", _strict=True))
                    else:
                        sels.append(sp)
                        if variant == "twice":
                            sels.append(RecV("FragmentSpreadNode", name=RecV("NameNode", value=t, _strict=True), selection_set=None, _label="..." + t, _strict=True))
                sels.append(RecV("FieldNode", name=RecV("NameNode", value="leaf", _strict=True), selection_set=None, _label="leaf", _strict=True))
                frags.append(RecV("FragmentDefinitionNode", name=RecV("NameNode", value=nm, _strict=True), selection_set=RecV("SelectionSetNode", selections=sels, _strict=True),
                                  _label="fragment " + nm, _strict=True))
            it = absint.Interp(repo, mod, classes={"FragmentSpreadsMustNotFormCycles": cls}, interpret={"tartiflette.language.validators.query.utils.find_nodes_by_name"}, fuel=20000)
            me = RecV("FragmentSpreadsMustNotFormCycles", _extensions=Sym("extensions"))
            try:
                got = it.run(f, [me], {"fragments": frags})
                kind = "ok" if got == [] else ("cycle" if isinstance(got, list) and len(got) == 1 and isinstance(got[0], App) else f"other: {got!r}")
            except absint.Unsupported as ex:
                raise AnalysisError(f"{f.short}: cannot be interpreted on abstract fragment graphs: {ex}")
            except absint.PyRaise as ex:
                kind = f"raises {ex.name}"
            n += 1
            if kind != ("cycle" if want else "ok"):
                bad.append((graph, variant, kind))
    for graph, variant, kind in bad[:5]:
        ck.ob(f"cycle rule on {graph} ({variant}): {'a cycle' if cyclic(graph) else 'no cycle'}", False, f, f.node, construct=f"cycle:graph:{variant}:{sorted(graph.items())}"[:110],
              detail=f"answered {kind}")
    ck.ob("cycle rule: reports exactly the spread graphs in which a fragment reaches itself (a fragment spread twice or shared by two fragments is not a cycle)", not bad, f, f.node,
          construct="cycle:graphs", evals=n)
    ck.count("cycle_rule_graphs", n, 500)


# ---------------------------------------------------------------------------
# E13: the collectors behind 5.8.3 / 5.8.4 / 5.8.5 on abstract documents
# ---------------------------------------------------------------------------


def _usage_collectors(repo):
    """(label, function, entry key) of the two collectors: what an operation uses, directly and through the fragments it spreads."""
    out = [("get_used_vars", repo.func(RULES_PKG + "utils.py", "get_used_vars"), "used_vars")]
    mod = repo.mod(RULES_PKG + "all_variable_usages_are_allowed.py")
    vo = mod.cls("AllVariableUsagesAreAllowed").methods.get("_validate_operation")
    cand = None
    if vo is not None:
        for c in ast.walk(vo.node):
            if isinstance(c, ast.Call) and isinstance(c.func, ast.Name) and len(c.args) == 3 and [unparse(a) for a in c.args] == ["operation", "per_operation", "per_fragment"]:
                cand = mod.funcs.get(c.func.id)
    if cand is None:
        raise AnalysisError("AllVariableUsagesAreAllowed._validate_operation: the collector of argument usages (a call with operation, per_operation, per_fragment) not found")
    out.append((cand.name, cand, "args_using_var"))
    return out


def usage_walk_terms(ck, repo):
    """E13: `get_used_vars` and the argument-usage collector of 5.8.5 interpreted on abstract documents - two named operations
    (or one anonymous) spreading any ordered selection of the fragments A, B, C, which spread each other along every acyclic
    graph (the thorough tier adds undefined targets, spreads listed in the other order and a repeated spread); the operations are
    asked in document order and the first one again, on the *same* per-operation / per-fragment tables, as the rules do.  Each
    answer must hold, as a set, exactly the operation's own entries plus those of every fragment it reaches - however the walk is
    written (an accumulator threaded through, a visited set, per-fragment results kept) - and nothing may raise."""
    from .. import absint
    from ..absint import RecV, Sym
    import itertools as _it
    names = ("A", "B", "C")
    thorough = ck.tier == "thorough"
    edge_sets = [[e for e, on in zip((("A", "B"), ("A", "C"), ("B", "C")), bits) if on] for bits in _it.product((0, 1), repeat=3)]
    ordered = [list(p) for k in range(0, 4) for c in _it.combinations(names, k) for p in _it.permutations(c)]          # 16 ordered selections
    subsets = [list(c) for k in range(0, 4) for c in _it.combinations(names, k)]                                       # 8
    extras = [[]] + ([["Nope"], ["twice"], ["rev"]] if thorough else [["Nope"]])

    def spread(t):
        return RecV("FragmentSpreadNode", name=RecV("NameNode", value=t, _strict=True), _label="..." + t, _strict=True)

    def opnode(nm):
        return RecV("OperationDefinitionNode", name=RecV("NameNode", value=nm, _strict=True) if nm else None, _label=f"operation {nm}", _strict=True)

    if not thorough:
        ordered = [o for o in ordered if len(o) <= 2] + [list(names)]
        subsets = [[], ["A"], ["B"], ["C"], list(names)]
    for label, f, key in _usage_collectors(repo):
        n, bad = 0, []
        for edges, q1, q2, extra in _it.product(edge_sets, ordered, subsets if not thorough else ordered, extras):
            if extra and not (edges and q1):
                continue
            graph = {x: [b for a, b in edges if a == x] for x in names}
            if extra == ["Nope"]:
                graph["A"] = ["Nope"] + graph["A"]
            if extra == ["twice"]:
                graph = {x: ts + ts[:1] for x, ts in graph.items()}
            if extra == ["rev"]:
                graph = {x: list(reversed(ts)) for x, ts in graph.items()}
            docs = [(("Q1", q1), ("Q2", q2))]
            if not q2 and not extra:
                docs.append(((None, q1),))
            for ops in docs:
                def reach(ts, seen=None):
                    seen = set() if seen is None else seen
                    for t in ts:
                        if t in graph and t not in seen:
                            seen.add(t)
                            reach(graph[t], seen)
                    return seen
                per_fragment = {x: {key: [Sym(f"{key}:{x}")], "spreads": [spread(t) for t in graph[x]]} for x in names}
                per_operation = {(nm or "None"): {key: [Sym(f"{key}:{nm}")], "spreads": [spread(t) for t in sp]} for nm, sp in ops}
                # the other collector's tables live in the same dictionaries
                other = "args_using_var" if key == "used_vars" else "used_vars"
                for d_ in list(per_fragment.values()) + list(per_operation.values()):
                    d_[other] = [Sym("other")]
                asked = [ops[0]] + list(ops[1:]) + [ops[0]]
                for nm, sp in asked:
                    want = {("sym", f"{key}:{nm}")} | {("sym", f"{key}:{x}") for x in reach(sp)}
                    it = absint.Interp(repo, f.module, interpret={"tartiflette.language.validators.query.*"}, fuel=20000)
                    try:
                        got = it.run(f, [opnode(nm), per_operation, per_fragment])
                        if not isinstance(got, (list, tuple)):
                            kind = f"answers {got!r}"
                        else:
                            have = {absint.norm(x) for x in got}
                            kind = None if have == want else f"misses {sorted(t[1] for t in want - have)}" if want - have else f"adds {sorted(str(t) for t in have - want)}"
                    except absint.Unsupported as ex:
                        raise AnalysisError(f"{f.short}: cannot be interpreted on abstract documents: {ex}")
                    except absint.PyRaise as ex:
                        kind = f"raises {ex.name} ({ex.text})"
                    n += 1
                    if kind:
                        bad.append((graph, [(a, b) for a, b in ops], nm, kind))
                        break
        for graph, ops, nm, kind in bad[:4]:
            shown = {k_: v_ for k_, v_ in graph.items() if v_}
            ck.ob(f"{label}: operations {ops} over fragments spreading {shown}: operation {nm} uses its own entries and those of every fragment it reaches", False, f, f.node,
                  construct=f"usage-walk:{label}:{ops}:{shown}"[:120], detail=kind)
        ck.ob(f"{label}: for every operation, exactly its own {key} plus those of every fragment it reaches through spreads (asked in document order, on shared tables)", not bad, f, f.node,
              construct=f"usage-walk:{label}", evals=n)
        ck.count(f"usage_walk_documents_{key}", n, 900)
