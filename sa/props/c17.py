"""C17 - engines registered under different schema names are independent (effects)."""
from __future__ import annotations

import ast

from ..effects import MUTATORS, write_sites, _root_name
from ..model import AnalysisError, dotted, unparse, walk_no_nested
from ..q import FuncView, arg, arg_text, callee_last, contains, kwargs

EXPLANATION = (
    "The registry is the only process-global mutable state: every access to SchemaRegistry._schemas is first subscripted "
    "by a schema-name expression, nothing iterates over all schemas, decorator bake(schema) methods write only into "
    "objects obtained from their schema parameter, built-in modules create a new implementation instance per baked "
    "schema name and forward that name, and a census of module-level and class-level mutable containers shows that no "
    "function writes any of them after import (except the registry itself). Not decided: interference through user modules."
)
REG = "tartiflette/schema/registry.py"
DECORATORS = [("tartiflette/resolver/resolver.py", "Resolver"), ("tartiflette/resolver/type_resolver.py", "TypeResolver"), ("tartiflette/scalar/scalar.py", "Scalar"),
              ("tartiflette/directive/directive.py", "Directive"), ("tartiflette/subscription/subscription.py", "Subscription")]


def check(ck):
    repo = ck.repo
    with ck.rule("R1"):
        _registry_access(ck, repo)
    with ck.rule("R2"):
        _bake_locality(ck, repo)
    with ck.rule("R3"):
        _global_state_census(ck, repo)
        from .c16 import no_other_cache
        no_other_cache(ck, repo)
        # what user code of one engine (error coercers, schema directives) is handed must be its own: the error record is a fresh
        # dict and its `extensions` a copy - validation rule instances, and the extensions dict they put on every error, are
        # shared by all engines of the process
        from .c18 import error_record_shape
        error_record_shape(ck, repo)


def _registry_access(ck, repo):
    cls = repo.cls(REG, "SchemaRegistry")
    n = 0
    for f in repo.all_funcs():
        for x in walk_no_nested(f.node):
            if isinstance(x, ast.Attribute) and x.attr == "_schemas" and dotted(x.value) in ("SchemaRegistry", "cls", "self"):
                if dotted(x.value) in ("cls", "self") and f.cls is not cls:
                    continue
                n += 1
                fv = FuncView(f)
                par = fv.parent(x)
                key = None
                if isinstance(par, ast.Subscript) and par.value is x:
                    key = unparse(par.slice)
                elif isinstance(par, ast.Attribute) and par.attr in ("setdefault", "get") and isinstance(fv.parent(par), ast.Call):
                    key = unparse(fv.parent(par).args[0]) if fv.parent(par).args else None
                elif isinstance(par, ast.Assign) and x in par.targets and f.name == "clean":
                    ck.ob("SchemaRegistry.clean is the only wholesale write of the registry", unparse(par.value) in ("{}", "dict()"), f, par, construct="registry:clean")
                    continue
                ok = key in ("schema_name", "schema.name")
                ck.ob(f"{f.qualname}: the registry is accessed under a schema-name key (`{key}`)", ok, f, fv.stmt_of(x), construct=f"registry:{f.qualname}:{key}",
                      detail="an access not keyed by the schema name (iteration, a literal name) couples engines of different names")
    ck.count("registry_access_sites", n, 3)  # a vacuity guard only: a local alias of a sub-dictionary legitimately removes sites
    outside = [f.short for f in repo.all_funcs() if f.cls is not cls for x in walk_no_nested(f.node) if isinstance(x, ast.Attribute) and x.attr == "_schemas"]
    ck.ob("only SchemaRegistry touches the registry dict", not outside, where=REG, construct="registry:encapsulated", detail=str(outside))
    # who passes the key: each decorator registers under its own _schema_name, the engine under its own schema_name
    for rel, cname in DECORATORS:
        c = repo.cls(rel, cname)
        call = c.methods.get("__call__")
        cv = FuncView(call)
        regs = [x for x in cv.calls() if callee_last(x) and callee_last(x).startswith("register_")]
        ok = len(regs) == 1 and [unparse(a) for a in regs[0].args] == ["self._schema_name", "self"]
        ck.ob(f"{cname}.__call__ registers itself under its own schema name", ok, call, regs[0] if regs else call.node, construct=f"register:{cname}")
        a = c.self_attrs()
        init = c.methods["__init__"]
        ck.ob(f"{cname}.__init__ keeps the schema name it was given", unparse(a.get("_schema_name")) == "schema_name" and "schema_name" in init.params, init, init.node,
              construct=f"register:{cname}:name")
    for m in ("register_directive", "register_resolver", "register_type_resolver", "register_scalar", "register_subscription"):
        f = repo.func(REG, f"SchemaRegistry.{m}")
        c = FuncView(f).maybe_call("_register")
        # bind the call to _register's own signature, whatever the order of its parameters
        reg = repo.func(REG, "SchemaRegistry._register")
        rp = reg.positional_params
        key_p = next((q for q in rp if any(isinstance(x, ast.Call) and isinstance(x.func, ast.Attribute) and x.func.attr == "setdefault" and unparse(x.func.value).endswith("._schemas")
                                           and x.args and unparse(x.args[0]) == q for x in ast.walk(reg.node))
                      or any(isinstance(x, ast.Subscript) and unparse(x.value).endswith("._schemas") and unparse(x.slice) == q for x in ast.walk(reg.node))), None)
        obj_p = next((q for q in rp if any(isinstance(x, ast.Attribute) and x.attr == "name" and unparse(x.value) == q for x in ast.walk(reg.node))), None)
        bound = {}
        if c is not None:
            for i_, a_ in enumerate(c.args):
                if i_ < len(rp):
                    bound[rp[i_]] = unparse(a_)
            for k_ in c.keywords:
                if k_.arg:
                    bound[k_.arg] = unparse(k_.value)
        ok = c is not None and key_p is not None and obj_p is not None and bound.get(key_p) == f.positional_params[0] and bound.get(obj_p) == f.positional_params[1]
        ck.ob(f"SchemaRegistry.{m} forwards its schema name and object to _register", ok, f, c or f.node, construct=f"register:{m}")
    b = repo.func(REG, "SchemaRegistry.bake_registered_objects")
    bv = FuncView(b)
    calls = bv.calls("bake")
    ok = len(calls) == 1 and [unparse(a) for a in calls[0].args] == [b.positional_params[0]]
    src = [n for n in walk_no_nested(b.node) if isinstance(n, ast.Assign) and unparse(n.targets[0]) == "schema_info"]
    ok = ok and len(src) == 1 and unparse(src[0].value) == f"SchemaRegistry._schemas[{b.positional_params[0]}.name]"
    ck.ob("bake_registered_objects bakes only the objects registered under the cooked schema's own name, into that schema", ok, b, calls[0] if calls else b.node,
          construct="registry:bake-own-name")
    e = repo.func("tartiflette/engine.py", "Engine.cook")
    ev = FuncView(e)
    for callee in ("register_sdl", "bake", "_import_modules"):
        cs = [c for c in ev.calls(callee) if unparse(c.func).split(".")[0] in ("SchemaRegistry", "SchemaBakery", "_import_modules")]
        ok = bool(cs) and all("schema_name" in [unparse(a) for a in c.args] for c in cs)
        ck.ob(f"Engine.cook passes its own schema name to {callee}", ok, e, cs[0] if cs else e.node, construct=f"cook:{callee}")
    bk = repo.func("tartiflette/schema/bakery.py", "SchemaBakery._preheat")
    bv = FuncView(bk)
    c = bv.maybe_call("schema_from_sdl")
    ok = c is not None and arg_text(c, None, "schema_name") == bk.positional_params[0] and bv.maybe_call("find_schema_info") is not None and \
        arg_text(bv.maybe_call("find_schema_info"), 0) == bk.positional_params[0]
    ck.ob("SchemaBakery._preheat builds the schema from the SDL registered under the same name", ok, bk, c or bk.node, construct="bakery:own-name")


def _bake_locality(ck, repo):
    for rel, cname in DECORATORS:
        b = repo.func(rel, f"{cname}.bake")
        sp = b.positional_params[1]
        from ..effects import local_bindings
        for s in write_sites(b):
            root = s.root
            ok = False
            if root == sp:
                ok = True
            elif root and root not in ("self",):
                binds = local_bindings(b, root)
                ok = bool(binds) and all(_root_name(x) in (sp,) or any(_root_name(y) == sp for y in ast.walk(x) if isinstance(y, (ast.Attribute, ast.Call))) or
                                         all(_derived_from(b, z, sp) for z in [x]) for x in binds)
            ck.ob(f"{cname}.bake: `{s.text[:50]}` writes an object obtained from its schema parameter", ok, b, s.node, construct=f"bake:{cname}:{s.receiver_text()}:{s.detail}",
                  detail="a write elsewhere (self, a module global) would leak into engines cooked for other names")
        reads = [x for x in walk_no_nested(b.node) if isinstance(x, ast.Attribute) and x.attr == "_schemas"]
        ck.ob(f"{cname}.bake does not consult the registry", not reads, b, b.node, construct=f"bake:{cname}:no-registry")
    # built-in modules
    eng = repo.mod("tartiflette/engine.py")
    mods = eng.constants().get("_BUILTINS_MODULES")
    if not mods:
        raise AnalysisError("_BUILTINS_MODULES not found")
    ck.count("builtin_modules", len(mods), 13)
    for m in mods:
        mod = repo.mod(m)
        b = mod.func("bake")
        bv = FuncView(b)
        sn = b.positional_params[0]
        regs = [c for c in bv.calls() if isinstance(c.func, ast.Call) and dotted(c.func.func) in ("Scalar", "Directive", "Resolver", "TypeResolver", "Subscription")]
        if m.endswith("introspection"):
            rs = [c for c in bv.calls("Resolver")]
            ok = bool(rs) and all(arg_text(c, None, "schema_name") == sn for c in rs)
            ck.ob(f"{m}.bake registers its resolvers under the schema name it is given", ok, b, rs[0] if rs else b.node, construct=f"builtin:{m}:schema-name")
            continue
        ok = len(regs) == 1 and arg_text(regs[0].func, None, "schema_name") == sn
        ck.ob(f"{m}.bake registers under the schema name it is given (no literal name)", ok, b, regs[0] if regs else b.node, construct=f"builtin:{m}:schema-name")
        ok = len(regs) == 1 and isinstance(regs[0].args[0], ast.Call) and isinstance(regs[0].args[0].func, ast.Name) and regs[0].args[0].func.id in mod.classes
        ck.ob(f"{m}.bake creates a new implementation instance per baked schema name", ok, b, regs[0] if regs else b.node, construct=f"builtin:{m}:new-instance",
              detail="a module-level singleton would be shared by every schema name")
    bm = eng.func("_bake_module")
    c = FuncView(bm).maybe_call("bake")
    ck.ob("_bake_module bakes a module for the schema name it is given", c is not None and [unparse(a) for a in c.args][:1] == [bm.positional_params[1]], bm, c or bm.node,
          construct="builtin:bake-module")
    for fn in ("_import_builtins", "_import_modules"):
        f = eng.func(fn)
        cs = FuncView(f).calls("_bake_module")
        ok = bool(cs) and all(unparse(c.args[1]) == "schema_name" for c in cs)
        ck.ob(f"{fn} bakes every module with the engine's schema name", ok, f, cs[0] if cs else f.node, construct=f"builtin:{fn}")


def _derived_from(func, expr, name) -> bool:
    return any(isinstance(n, ast.Name) and n.id == name for n in ast.walk(expr)) or any(
        isinstance(n, ast.Name) and any(_derived_from(func, b, name) for b in __import__("sa.effects", fromlist=["local_bindings"]).local_bindings(func, n.id))
        for n in ast.walk(expr) if isinstance(n, ast.Name) and n.id not in (name,) and n.id in _locals(func))


def _locals(func):
    return {t.id for n in walk_no_nested(func.node) if isinstance(n, ast.Assign) for t in n.targets if isinstance(t, ast.Name)}


def _global_state_census(ck, repo):
    """Module-level and class-level mutable containers, and who writes them after import."""
    containers = []  # (module, owner text, name)
    for mod in repo.modules.values():
        for k, v in mod.assigns.items():
            if _is_mutable(v):
                containers.append((mod, None, k))
        for c in mod.classes.values():
            for k, v in c.class_attrs.items():
                if k != "__slots__" and _is_mutable(v):
                    containers.append((mod, c.name, k))
    ck.count("global_mutable_containers", len(containers), 10)
    # index write sites by root
    writers = {}
    for f in repo.all_funcs():
        for s in write_sites(f):
            if s.kind == "global":
                for nm in s.detail.split(","):
                    writers.setdefault((f.module.name, None, nm), []).append((f, s))
                continue
            r = s.receiver
            d = dotted(r) if r is not None else None
            # receiver chains rooted at Name / Class.attr
            base = r
            while isinstance(base, (ast.Subscript, ast.Call)) or (isinstance(base, ast.Attribute) and not isinstance(base.value, ast.Name)):
                base = base.value if not isinstance(base, ast.Call) else base.func
            bd = dotted(base) if base is not None else None
            if bd is None:
                continue
            parts = bd.split(".")
            if len(parts) == 1:
                if parts[0] in f.module.assigns and not _is_local(f, parts[0]):
                    writers.setdefault((f.module.name, None, parts[0]), []).append((f, s))
                elif parts[0] in f.module.imports:
                    tgt = repo.resolve_name(f.module, parts[0])
                    if tgt and "." in tgt:
                        writers.setdefault((tgt.rsplit(".", 1)[0], None, tgt.rsplit(".", 1)[1]), []).append((f, s))
            elif len(parts) == 2:
                owner, attr = parts
                if owner in ("cls",) and f.cls is not None:
                    writers.setdefault((f.module.name, f.cls.name, attr), []).append((f, s))
                elif owner == "self" and f.cls is not None and s.kind in ("mutator", "store-item"):
                    # a class-level container reached through an instance is still the one shared object,
                    # unless __init__ rebinds the name on the instance
                    for c in repo.mro(f.cls):
                        if attr in c.class_attrs and _is_mutable(c.class_attrs[attr]) and attr not in f.cls.self_attrs():
                            writers.setdefault((c.module.name, c.name, attr), []).append((f, s))
                            break
                else:
                    tgt = repo.lookup(repo.resolve_name(f.module, owner))
                    from ..model import Class
                    if isinstance(tgt, Class):
                        writers.setdefault((tgt.module.name, tgt.name, attr), []).append((f, s))
    for mod, owner, name in sorted(containers, key=lambda c: (c[0].name, c[1] or "", c[2])):
        ws = writers.get((mod.name, owner, name), [])
        label = f"{mod.relpath}::{owner + '.' if owner else ''}{name}"
        if owner == "SchemaRegistry" and name == "_schemas":
            ck.ob("the registry is the one process-global container written after import (R1 constrains how)", bool(ws), where=mod.relpath, construct="global:_schemas")
            continue
        ck.ob(f"{label}: no function writes this process-global container after import", not ws, where=mod.relpath, construct=f"global:{label}",
              detail=str([(f.short, s.text[:40]) for f, s in ws[:3]]))
    # class attributes assigned through the class from functions (ClassName.attr = ...) that are not containers
    extra = [(k, v) for k, v in writers.items() if k[1] is not None and not any(c[0].name == k[0] and c[1] == k[1] and c[2] == k[2] for c in containers)]
    for (m, owner, name), ws in sorted(extra):
        ck.ob(f"{m}.{owner}.{name}: class-level attribute is not rebound by a function", False, ws[0][0], ws[0][1].node, construct=f"global:class-attr:{owner}.{name}")


def _is_mutable(v) -> bool:
    if isinstance(v, (ast.Dict, ast.List, ast.Set, ast.ListComp, ast.DictComp, ast.SetComp)):
        return True
    if isinstance(v, ast.Call):
        d = dotted(v.func) or ""
        return d.split(".")[-1] in ("dict", "list", "set", "defaultdict", "OrderedDict", "deque", "FFI", "Lark")
    return False


def _is_local(f, name) -> bool:
    g = f
    while g is not None:
        if name in [p.lstrip("*") for p in g.params]:
            return True
        g = g.parent
    for n in walk_no_nested(f.node):
        if isinstance(n, ast.Assign) and any(isinstance(t, ast.Name) and t.id == name for t in n.targets):
            return not any(isinstance(x, (ast.Global,)) and name in x.names for x in walk_no_nested(f.node))
        if isinstance(n, (ast.For, ast.AsyncFor)) and any(isinstance(x, ast.Name) and x.id == name for x in ast.walk(n.target)):
            return True
    return False
