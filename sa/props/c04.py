"""C04 - variable values are coerced exactly as the specification prescribes."""
from __future__ import annotations

import ast
import itertools

from ..model import AnalysisError, dotted, unparse, walk_no_nested
from ..pathtab import Atoms, evaluate
from ..q import FuncView, arg, arg_text, callee_last, contains, decorator_names, kwargs, strip_await
from .c01 import _wrapper_fold

EXPLANATION = (
    "CoerceVariableValues decided as a finite decision table over {provided, null, has default, non-null, default "
    "invalid, coercion errors} simulated on variable_coercer's CFG; zip/skip/accumulate structure of "
    "coerce_variables; abort-before-execution guards; wrapper composition of get_input_coercer and the leaf table; "
    "decision tables of the input non-null / list / null wrappers and of input-object field coercion; every read "
    "of the raw variables is keyed by a declared variable. Not decided: leaf coercion values (C10 covers built-ins)."
)
VARS = "tartiflette/coercers/variables.py"
INP = "tartiflette/coercers/inputs/"


def _ret_class(trace):
    last = trace.last_stmt()
    if trace.exit_kind == "raise_exit":
        return "raises"
    if last is None or not isinstance(last.ast, ast.Return) or last.ast.value is None:
        return "return None"
    return last.ast.value


def check(ck):
    repo = ck.repo
    with ck.rule("R1"):
        _variable_table(ck, repo)
    with ck.rule("R2"):
        _coerce_variables(ck, repo)
    with ck.rule("R3"):
        _abort(ck, repo)
    with ck.rule("R4"):
        g = repo.func(INP + "compute.py", "get_input_coercer")
        _wrapper_fold(ck, repo, g, side="inputs")
        _leaf_table(ck, repo, "input_coercer", "inputs")
        # who builds the variable coercer
        v = repo.func("tartiflette/execution/nodes/variable_definition.py", "variable_definition_node_to_executable")
        vv = FuncView(v)
        c = vv.maybe_call("ExecutableVariableDefinition")
        ok = False
        if c is not None:
            kw = kwargs(c)
            co = kw.get("coercer")
            ok = (unparse(kw.get("name")) == f"{v.positional_params[1]}.variable.name.value"
                  and unparse(kw.get("default_value")) == f"{v.positional_params[1]}.default_value or UNDEFINED_VALUE"
                  and isinstance(co, ast.Call) and unparse(co.args[0]) == "variable_coercer"
                  and arg_text(co, None, "input_coercer") == f"partial(get_input_coercer(graphql_type), {v.positional_params[1]})"
                  and arg_text(co, None, "literal_coercer") == "get_literal_coercer(graphql_type)"
                  and unparse(kw.get("graphql_type")) == "graphql_type")
        ck.ob("each variable definition gets a coercer composed for its declared type (input side and default-literal side)", ok, v, c or v.node,
              construct="vardef:compose")
        st = [n for n in walk_no_nested(v.node) if isinstance(n, ast.Assign) and unparse(n.targets[0]) == "graphql_type"]
        ck.ob("the declared type is resolved from the definition's type node in the request's schema",
              len(st) == 1 and unparse(st[0].value) == f"schema_type_from_ast({v.positional_params[0]}, {v.positional_params[1]}.type)", v, st[0] if st else v.node,
              construct="vardef:type")
        e = repo.cls("tartiflette/execution/nodes/variable_definition.py", "ExecutableVariableDefinition")
        a = e.self_attrs()
        ck.ob("ExecutableVariableDefinition binds itself as the coercer's first operand", unparse(a.get("coercer")) == "partial(coercer, self)", e.methods["__init__"],
              e.methods["__init__"].node, construct="vardef:bind-self")
    with ck.rule("R5"):
        _input_wrappers(ck, repo)
    with ck.rule("R6"):
        _input_object(ck, repo)
    # the leaves: what a built-in scalar accepts from a variable (Int refuses booleans, fractions and out-of-range numbers ...)
    with ck.rule("R8"):
        from .. import scalars
        scalars.check_wire_types(ck, repo, directions=("coerce_input",))
        scalars.check_guards(ck, repo, directions=("coerce_input",))
        scalars.check_failure_exits(ck, repo, directions=("coerce_input",))
    with ck.rule("R7"):
        f = repo.func(VARS, "variable_coercer")
        p = f.positional_params
        uses = [n for n in walk_no_nested(f.node) if isinstance(n, ast.Name) and n.id == p[1] and isinstance(n.ctx, ast.Load)]
        fv = FuncView(f)
        ok_all = bool(uses)
        for u in uses:
            par = fv.parent(u)
            ok = False
            if isinstance(par, ast.Compare) and len(par.ops) == 1 and isinstance(par.ops[0], (ast.In, ast.NotIn)) and par.comparators[0] is u:
                ok = unparse(par.left) == "var_name"
            elif isinstance(par, ast.Attribute) and par.attr == "get":
                call = fv.parent(par)
                ok = isinstance(call, ast.Call) and unparse(call.args[0]) == "var_name"
            elif isinstance(par, ast.Subscript) and par.value is u:
                ok = unparse(par.slice) == "var_name"
            ok_all = ok_all and ok
            ck.ob("variable_coercer reads the raw variables only under the declared variable's name", ok, f, fv.stmt_of(u), construct=f"raw-read:{unparse(par)[:50]}")
        nm = [n for n in walk_no_nested(f.node) if isinstance(n, ast.Assign) and unparse(n.targets[0]) == "var_name"]
        ck.ob("var_name is the declared variable's name", len(nm) == 1 and unparse(nm[0].value) == f"{p[0]}.name", f, nm[0] if nm else f.node, construct="raw-read:name")
        cvs = repo.func(VARS, "coerce_variables")
        cp = cvs.positional_params
        uses = [n for n in walk_no_nested(cvs.node) if isinstance(n, ast.Name) and n.id == cp[1] and isinstance(n.ctx, ast.Load)]
        cvv = FuncView(cvs)
        ok = bool(uses) and all(isinstance(cvv.parent(u), ast.Call) and callee_last(cvv.parent(u)) == "coercer" for u in uses)
        ck.ob("coerce_variables hands the raw variables only to the per-definition coercers (no iteration over provided names)", ok, cvs, cvs.node,
              construct="raw-read:coerce_variables")


def _variable_table(ck, repo):
    f = repo.func(VARS, "variable_coercer")
    from ..q import inlined_view as _iv
    fv = _iv(repo, f, max_stmts=20)   # a helper holding the default-value arm is part of the table
    p = f.positional_params  # executable_variable_definition, raw_variable_values, ctx, input_coercer, literal_coercer
    d, raw, ctx, inc, lit = p
    get = f"{raw}.get({d}.name, UNDEFINED_VALUE)"
    litcall = f"await {lit}({d}.definition, {d}.default_value, {ctx})"
    incall = f"await {inc}({d}.definition, {get}, {ctx})"
    atoms = Atoms({
        f"{d}.name in {raw}": "has_value",
        f"is_invalid_value({d}.default_value)": "!has_default",
        f"{get} is None": "is_null",
        f"{d}.graphql_type.is_non_null_type": "non_null",
        f"is_invalid_value(({litcall})[0])": "default_invalid",
        f"({incall})[1]": "coerce_errors",
        "isinstance(coerce_error, CoercionError)": "is_coercion_error",
    })
    preds = ["has_value", "is_null", "has_default", "non_null", "default_invalid", "coerce_errors"]
    n_val = 0
    for bits in itertools.product([False, True], repeat=len(preds)):
        val = dict(zip(preds, bits))
        if val["is_null"] and not val["has_value"]:
            continue
        use_default = (not val["has_value"]) and val["has_default"]
        if val["default_invalid"] and not use_default:
            continue
        if val["coerce_errors"] and not val["has_value"]:
            continue
        if use_default:
            want = "error" if val["default_invalid"] else "default-literal"
        elif ((not val["has_value"]) or val["is_null"]) and val["non_null"]:
            want = "error"
        elif val["has_value"]:
            want = "errors-propagated" if val["coerce_errors"] else "input-coerced"
        else:
            want = "absent"
        got = set()
        for tr in fv.cfg.simulate(lambda n, env: evaluate(n.ast, env, val, atoms)):
            rv = _ret_class(tr)
            if isinstance(rv, str):
                got.add(rv)
                continue
            from ..pathtab import canon
            txt = canon(rv, tr.env)
            if txt == "UNDEFINED_VALUE":
                got.add("absent")
            elif txt == litcall:
                got.add("default-literal")
            elif txt == f"CoercionResult(value=({incall})[0])":
                got.add("input-coerced")
            elif txt == f"CoercionResult(errors=({incall})[1])":
                got.add("errors-propagated")
            elif txt.startswith("CoercionResult(errors=[graphql_error_from_nodes("):
                got.add("error")
            else:
                got.add("other:" + txt[:80])
        n_val += 1
        ck.ob("variable_coercer table " + ",".join(f"{k}={int(v)}" for k, v in val.items()), got == {want}, f, f.node,
              construct="table:" + "".join(str(int(v)) for v in val.values()), detail=f"got {sorted(got)}, CoerceVariableValues prescribes {want}" + atoms.note())
    ck.count("variable_coercer_valuations", n_val, 14)


def _coerce_variables(ck, repo):
    f = repo.func(VARS, "coerce_variables")
    fv = FuncView(f)
    p = f.positional_params
    g = fv.maybe_call("gather")
    ok = False
    if g is not None and g.args and isinstance(g.args[0], ast.Starred) and isinstance(g.args[0].value, ast.ListComp):
        lc = g.args[0].value
        gen = lc.generators[0]
        ok = unparse(gen.iter) == p[0] and unparse(lc.elt) == f"{unparse(gen.target)}.coercer({p[1]}, {p[2]})" and not gen.ifs
    ck.ob("coerce_variables coerces every declared variable once with (raw variables, ctx)", ok, f, g or f.node, construct="vars:gather")
    st = fv.stmt_of(g) if g is not None else None
    res = unparse(st.targets[0]) if isinstance(st, ast.Assign) else None
    loops = [l for l in fv.loops() if isinstance(l, ast.For) and isinstance(l.iter, ast.Call) and dotted(l.iter.func) == "zip"]
    ok = len(loops) == 1 and [unparse(a) for a in loops[0].iter.args] == [p[0], res]
    ck.ob("coerce_variables pairs definitions and results by zipping the same list", ok, f, loops[0] if loops else f.node, construct="vars:zip")
    if not loops:
        return
    lp = loops[0]
    dvar, rvar = [unparse(e) for e in lp.target.elts]
    stores = [n for n in walk_no_nested(lp) if isinstance(n, ast.Assign) and isinstance(n.targets[0], ast.Subscript)]
    ok = len(stores) == 1 and unparse(stores[0].targets[0].slice) == f"{dvar}.name"
    ck.ob("coerce_variables stores each value under its own variable's name", ok, f, stores[0] if stores else lp, construct="vars:store-key")
    if stores:
        s = stores[0]
        conds = fv.conditions(s)
        ck.ob("coerce_variables does not store an absent result", (f"is_invalid_value({rvar})", "F") in conds, f, s, construct="vars:skip-absent", detail=str(conds))
        ck.ob("coerce_variables does not store a value when its coercion reported errors", any(o == "F" and t == "errors" for t, o in conds), f, s,
              construct="vars:no-store-on-error", detail=str(conds))
        un = [n for n in walk_no_nested(lp) if isinstance(n, ast.Assign) and isinstance(n.targets[0], ast.Tuple) and unparse(n.value) == rvar]
        ok = len(un) == 1 and unparse(s.value) == unparse(un[0].targets[0].elts[0])
        ck.ob("coerce_variables stores the coerced value (first component of the result)", ok, f, s, construct="vars:store-value")
    ext = [c for c in fv.calls("extend") if contains(lp, c)]
    ok = len(ext) == 1 and fv.guarded(ext[0], lambda t: t == "errors", "T")
    ck.ob("coerce_variables accumulates every variable's errors", ok, f, ext[0] if ext else lp, construct="vars:errors")
    rets = fv.returns()
    ok = len(rets) == 1 and isinstance(rets[0].value, ast.Tuple) and stores and ext and \
        [unparse(e) for e in rets[0].value.elts] == [unparse(stores[0].targets[0].value), unparse(ext[0].func.value)]
    ck.ob("coerce_variables returns (values, errors)", bool(ok), f, rets[0] if rets else f.node, construct="vars:return")
    ck.ob("coerce_variables: no early exit from the loop", not any(isinstance(n, (ast.Break, ast.Return)) for n in walk_no_nested(lp)), f, lp, construct="vars:no-early-exit")


def _abort(ck, repo):
    b = repo.func("tartiflette/execution/context.py", "build_execution_context")
    bv = FuncView(b)
    # when the answer is an errors-only pair and when a context is built: path-outcome table (any shape of the function)
    from .c18 import context_table
    context_table(ck, repo, tag="abort")
    ctor = bv.maybe_call("ExecutionContext")
    cv = bv.maybe_call("coerce_variables")
    ok = cv is not None and bv.is_awaited(cv) and [unparse(a) for a in cv.args][1:] == [f"{b.positional_params[4]} or {{}}", b.positional_params[3]] and \
        (unparse(cv.args[0]) == "executable_variable_definitions" or unparse(cv.args[0]).startswith("collect_executable_variable_definitions("))
    ck.ob("coerce_variables receives the operation's definitions, the provided variables and the context", ok, b, cv or b.node, construct="abort:coerce-operands")
    kw = kwargs(ctor) if ctor is not None else {}
    pp = b.positional_params
    want = {"schema": pp[0], "fragments": "fragments", "operation": "operation", "context": pp[3], "root_value": pp[2], "variable_values": "variable_values"}
    ck.ob("the execution context carries this request's schema, fragments, selected operation, context, root value and the coerced variable values",
          {k: unparse(v) for k, v in kw.items()} == want, b, ctor or b.node, construct="abort:context-operands", detail=str({k: unparse(v) for k, v in kw.items()}))
    st = bv.stmt_of(cv) if cv is not None else None
    ok = isinstance(st, ast.Assign) and isinstance(st.targets[0], ast.Tuple) and len(st.targets[0].elts) == 2 and unparse(st.targets[0].elts[0]) == "variable_values"
    ck.ob("the coerced values (first component of coerce_variables' answer) are the ones handed to the context", ok, b, st or b.node, construct="abort:coerced-values")
    for fn, callee in (("execute", "execute_operation"), ("create_source_event_stream", "subscribe")):
        f = repo.func("tartiflette/execution/execute.py", fn)
        fv = FuncView(f)
        bc = fv.maybe_call("build_execution_context")
        st = fv.stmt_of(bc) if bc is not None else None
        ok = isinstance(st, ast.Assign) and unparse(st.targets[0]) == "(execution_context, errors)" and fv.is_awaited(bc)
        ck.ob(f"{fn}: takes (context, errors) from build_execution_context", ok, f, bc or f.node, construct=f"abort:{fn}:unpack")
        c = fv.maybe_call(callee)
        ok = c is not None and fv.guarded(c, lambda t: t == "errors", "F")
        if c is None:
            # called through a local alias (`start = field.subscribe; return start(...)`): judge the paths that end in that call
            from ..pathtab import outcome_rows as _rows
            from ..q import inlined_view as _iv
            iv_ = _iv(repo, f, max_stmts=25)
            hits = [r_ for r_ in _rows(iv_) if r_["exit"] == "return_exit" and r_["ret"] is not None and isinstance(strip_await(r_["ret"]), ast.Call) and callee_last(strip_await(r_["ret"])) == callee]
            ok = bool(hits) and all(any(t_.strip().endswith("[1]") and "build_execution_context(" in t_ and o_ == "F" for t_, o_ in r_["conds"]) for r_ in hits)
        ck.ob(f"{fn}: {callee} runs only when no error was reported", ok, f, c or f.node, construct=f"abort:{fn}:guard")
        rb = [r for r in fv.returns() if fv.guarded(r, lambda t: t == "errors", "T")]
        ok = len(rb) == 1 and unparse(strip_await(rb[0].value)) == "response_builder(errors=errors)"
        ck.ob(f"{fn}: with errors it answers an errors-only response", ok, f, rb[0] if rb else f.node, construct=f"abort:{fn}:response")


def _leaf_table(ck, repo, slot, side):
    table = {
        "inputs": [("tartiflette/types/scalar.py", "GraphQLScalarType", "tartiflette.coercers.inputs.scalar_coercer.scalar_coercer", "scalar_type"),
                   ("tartiflette/types/enum.py", "GraphQLEnumType", "tartiflette.coercers.inputs.enum_coercer.enum_coercer", "enum_type"),
                   ("tartiflette/types/input_object.py", "GraphQLInputObjectType", "tartiflette.coercers.inputs.input_object_coercer.input_object_coercer", "input_object_type")],
        "literals": [("tartiflette/types/scalar.py", "GraphQLScalarType", "tartiflette.coercers.literals.scalar_coercer.scalar_coercer", "scalar_type"),
                     ("tartiflette/types/enum.py", "GraphQLEnumType", "tartiflette.coercers.literals.enum_coercer.enum_coercer", "enum_type"),
                     ("tartiflette/types/input_object.py", "GraphQLInputObjectType", "tartiflette.coercers.literals.input_object_coercer.input_object_coercer", "input_object_type")],
    }[side]
    wrapper = {"inputs": "tartiflette.coercers.inputs.directives_coercer.input_directives_coercer",
               "literals": "tartiflette.coercers.literals.directives_coercer.literal_directives_coercer"}[side]
    for rel, cls, want_fq, kwname in table:
        b = repo.func(rel, f"{cls}.bake")
        st = [n for n in walk_no_nested(b.node) if isinstance(n, ast.Assign) and unparse(n.targets[0]) == f"self.{slot}"]
        ok, got = False, None
        if len(st) == 1 and isinstance(st[0].value, ast.Call) and dotted(st[0].value.func) == "partial":
            outer = st[0].value
            inner = kwargs(outer).get("coercer")
            if isinstance(inner, ast.Call) and dotted(inner.func) == "partial" and inner.args:
                got = repo.resolve_name(b.module, unparse(inner.args[0]))
                ok = got == want_fq and arg_text(inner, None, kwname) == "self" and repo.resolve_name(b.module, unparse(outer.args[0])) == wrapper
        ck.ob(f"{cls}.bake binds {slot} to {side}.{want_fq.split('.')[-1]} with {kwname}=self", ok, b, st[0] if st else b.node, construct=f"leaf:{slot}:{cls}",
              detail=f"resolved {got}")


def _input_wrappers(ck, repo):
    f = repo.func(INP + "non_null_coercer.py", "non_null_coercer")
    fv = FuncView(f)
    p = f.positional_params  # parent_node, node, value, ctx, graphql_type, inner_coercer, path
    atoms = Atoms({f"{p[2]} is None": "is_null"})
    inner_txt = f"await {p[5]}({p[0]}, {p[1]}, {p[2]}, {p[3]}, path={p[6]})"
    for isnull in (True, False):
        got = set()
        for tr in fv.cfg.simulate(lambda n, env: evaluate(n.ast, env, {"is_null": isnull}, atoms)):
            rv = _ret_class(tr)
            t = rv if isinstance(rv, str) else unparse(rv)
            got.add("error" if t.startswith("CoercionResult(errors=[coercion_error(") else ("inner" if t == inner_txt else t[:60]))
        want = {"error"} if isnull else {"inner"}
        ck.ob(f"inputs.non_null_coercer table: value is None = {isnull}", got == want, f, f.node, construct=f"nonnull:is_null={isnull}", detail=f"got {sorted(got)}" + atoms.note())
    input_null_wrapper_table(ck, repo)
    wo = repo.func(INP + "null_coercer.py", "null_coercer_wrapper")
    r = FuncView(wo).returns()
    ck.ob("inputs.null_coercer_wrapper returns the wrapper", len(r) == 1 and unparse(r[0].value) == "wrapper", wo, wo.node, construct="nullwrap:return")
    sc = repo.func(INP + "scalar_coercer.py", "scalar_coercer")
    from ..q import inlined_view as _iv
    sv = _iv(repo, sc)   # conditional expressions become paths
    c = sv.maybe_call("coerce_input")
    ok = c is not None and [unparse(a) for a in c.args] == [sc.positional_params[2]] and unparse(c.func.value) == sc.positional_params[4]
    ck.ob("inputs.scalar_coercer delegates to the scalar's coerce_input(value)", ok, sc, c or sc.node, construct="scalar:delegate")
    # path rows (the scalar's own failure followed into the handler), operands resolved: whatever the exits look like
    from ..pathtab import outcome_rows as _rows
    call_txt = unparse(c) if c is not None else "?"
    rows_ = _rows(sv, raising_stmts=[sv.stmt_of(c)] if c is not None else [])
    kinds = set()
    ok = bool(rows_)
    for r_ in rows_:
        ret_t = unparse(r_["ret"]) if r_["ret"] is not None else None
        invalid = None
        for t_, o_ in r_["conds"]:
            tt = t_.replace(" ", "")
            if tt in (f"is_invalid_value({call_txt})".replace(" ", ""), f"{call_txt}isUNDEFINED_VALUE".replace(" ", "")):
                invalid = o_
            if tt == f"{call_txt}isnotUNDEFINED_VALUE".replace(" ", ""):
                invalid = "F" if o_ == "T" else "T"
        if r_["exit"] != "return_exit" or ret_t is None:
            ok = False
        elif r_["handlers"]:
            kinds.add("raised")
            ok = ok and ret_t.startswith("CoercionResult(errors=[coercion_error(")
        elif invalid == "T":
            kinds.add("invalid")
            ok = ok and ret_t.startswith("CoercionResult(errors=[coercion_error(")
        elif invalid == "F":
            kinds.add("valid")
            ok = ok and ret_t == f"CoercionResult(value={call_txt})"
        else:
            ok = False
    ck.ob("inputs.scalar_coercer: valid -> the coerced value; invalid marker or exception -> an error result (never None)", ok and kinds == {"raised", "invalid", "valid"}, sc, sc.node,
          construct="scalar:returns", detail=str(sorted(kinds)))
    ec = repo.func(INP + "enum_coercer.py", "enum_coercer")
    ev = FuncView(ec)
    gvv = ev.maybe_call("get_value")
    ic = ev.maybe_call("input_coercer")
    rets = ev.returns()
    ok = gvv is not None and [unparse(a) for a in gvv.args] == [ec.positional_params[2]] and ic is not None and [unparse(a) for a in ic.args] == [ec.positional_params[0], ec.positional_params[2], ec.positional_params[3]] \
        and len(rets) == 2 and any(unparse(x.value).startswith("CoercionResult(value=await enum_value.input_coercer(") for x in rets) and \
        any(unparse(x.value).startswith("CoercionResult(errors=[coercion_error(") and ev.enclosing(x, (ast.ExceptHandler,)) is not None for x in rets)
    ck.ob("inputs.enum_coercer: looks the value up in the enum, runs the value's own coercer, a miss is an error result", ok, ec, ec.node, construct="enum:returns")
    n_dec = 0
    for rel, name in (("scalar_coercer.py", "scalar_coercer"), ("enum_coercer.py", "enum_coercer"), ("list_coercer.py", "list_coercer"),
                      ("input_object_coercer.py", "input_object_coercer")):
        g = repo.func(INP + rel, name)
        ok = "tartiflette.coercers.inputs.null_coercer.null_coercer_wrapper" in [repo.resolve_name(g.module, d) for d in decorator_names(g)]
        n_dec += ok
        ck.ob(f"inputs.{name} is null-wrapped (explicit null stays null)", ok, g, g.node, construct=f"nullwrap:{name}")
    ck.count("input_coercers_null_wrapped", n_dec, 4)
    # list coercer
    f = repo.func(INP + "list_coercer.py", "list_coercer")
    fv = FuncView(f)
    p = f.positional_params  # parent_node, node, value, ctx, inner_coercer, path
    calls = [c for c in fv.calls() if isinstance(c.func, ast.Name) and c.func.id == p[4]]
    ck.ob("inputs.list_coercer has an item arm and a single-value arm", len(calls) == 2, f, f.node, construct="list:two-arms")
    item_call = [c for c in calls if fv.in_comprehension(c) is not None or fv.enclosing_loops(c)]
    single = [c for c in calls if c not in item_call]
    if len(item_call) == 1 and len(single) == 1:
        ic = item_call[0]
        comp = fv.in_comprehension(ic)
        loops_ = fv.enclosing_loops(ic)
        gen = comp.generators[0] if comp is not None else (loops_[-1] if loops_ else None)  # a comprehension or a plain loop
        ok = gen is not None and unparse(gen.iter) == f"enumerate({p[2]})" and isinstance(gen.target, ast.Tuple)
        if ok:
            idx, item = [unparse(e) for e in gen.target.elts]
            ok = [unparse(a) for a in ic.args] == [p[0], p[1], item, p[3]] and arg_text(ic, None, "path") == f"Path({p[5]}, {idx})" and fv.is_awaited(ic)
        ck.ob("inputs.list_coercer: each item is coerced by the inner coercer with Path(path, index), in order", bool(ok), f, ic, construct="list:items")
        ck.ob("inputs.list_coercer: the item arm is taken exactly for lists", fv.guarded(ic, lambda t: t == f"isinstance({p[2]}, list)", "T"), f, ic, construct="list:item-guard")
        extra = [(t, o) for t, o in fv.conditions(ic) if t != f"isinstance({p[2]}, list)"]
        skips = [n for lp_ in loops_ for n in walk_no_nested(lp_) if isinstance(n, (ast.Continue, ast.Break))] if loops_ else []
        ck.ob("inputs.list_coercer: *every* item goes through the inner coercer (no item is answered from another item's result: 1, 1.0 and true are equal keys and different inputs)",
              not extra and not skips, f, ic, construct="list:every-item", detail=f"conditions on the item call: {extra}; loop exits: {len(skips)}")
        sc = single[0]
        ok = [unparse(a) for a in sc.args] == [p[0], p[1], p[2], p[3]] and arg_text(sc, None, "path") == p[5] and \
            fv.guarded(sc, lambda t: t == f"isinstance({p[2]}, list)", "F")
        ck.ob("inputs.list_coercer: a single value is coerced as the item itself", ok, f, sc, construct="list:single")
        st = fv.stmt_of(sc)
        rets = [r for r in fv.returns() if fv.guarded(r, lambda t: t == f"isinstance({p[2]}, list)", "F")]
        ok = isinstance(st, ast.Assign) and isinstance(st.targets[0], ast.Tuple) and len(rets) == 1
        if ok:
            v, e = [unparse(x) for x in st.targets[0].elts]
            ok = unparse(rets[0].value) == f"CoercionResult(value=[{v}], errors={e})"
        ck.ob("inputs.list_coercer: a single value is wrapped into a one-item list", bool(ok), f, rets[0] if rets else f.node, construct="list:wrap-single")
        lst_ret = [r for r in fv.returns() if fv.guarded(r, lambda t: t == f"isinstance({p[2]}, list)", "T")]
        ok = len(lst_ret) == 1 and unparse(lst_ret[0].value) == "CoercionResult(value=coerced_values, errors=errors)"
        ck.ob("inputs.list_coercer: the list arm returns the coerced items and all item errors", ok, f, lst_ret[0] if lst_ret else f.node, construct="list:return")
        apps = [c for c in fv.calls("append") if unparse(c.func.value) == "coerced_values"]
        exts = [c for c in fv.calls("extend") if unparse(c.func.value) == "errors"]
        ok = len(apps) == 1 and len(exts) == 1 and set(fv.conditions(exts[0])) >= {("coerced_errors", "T")} and \
            {("coerced_errors", "F"), ("errors", "F")} <= set(fv.conditions(apps[0])) and unparse(apps[0].args[0]) == "coerced_value" and unparse(exts[0].args[0]) == "coerced_errors"
        ck.ob("inputs.list_coercer: item errors are accumulated, item values kept otherwise", ok, f, apps[0] if apps else f.node, construct="list:accumulate")


def input_null_wrapper_table(ck, repo):
    """Only an explicit null short-circuits input coercion; every other value - including the falsy
    ones (0, 0.0, "", false, [], {}) - goes through the coercer (shared with C10.R5)."""
    w = repo.func(INP + "null_coercer.py", "null_coercer_wrapper.wrapper")
    wv = FuncView(w)
    wp = w.positional_params
    atoms = Atoms({f"{wp[2]} is None": "is_null"})
    for isnull in (True, False):
        got = set()
        for tr in wv.cfg.simulate(lambda n, env: evaluate(n.ast, env, {"is_null": isnull}, atoms)):
            rv = _ret_class(tr)
            got.add(rv if isinstance(rv, str) else unparse(rv))
        want = {"CoercionResult(value=None)"} if isnull else {f"await coercer({wp[0]}, {wp[1]}, {wp[2]}, {wp[3]}, **kwargs)"}
        ck.ob(f"inputs.null_coercer_wrapper table: value is None = {isnull}", got == want, w, w.node, construct=f"nullwrap:is_null={isnull}",
              detail=f"got {sorted(got)}; a truthiness test instead of `is None` lets 0, \"\", false skip the scalar's input rules" + atoms.note())


def _input_object(ck, repo):
    f = repo.func(INP + "input_object_coercer.py", "input_object_coercer")
    fv = FuncView(f)
    p = f.positional_params  # parent_node, node, value, ctx, input_object_type, path
    bad = [r for r in fv.returns() if fv.guarded(r, lambda t: t == f"isinstance({p[2]}, dict)", "F")]
    ok = len(bad) == 1 and unparse(bad[0].value).startswith("CoercionResult(errors=[coercion_error(")
    ck.ob("inputs.input_object_coercer: a non-object value is an error", ok, f, bad[0] if bad else f.node, construct="object:non-dict")
    c = fv.maybe_call("input_field_value_coercer")
    ok = False
    if c is not None:
        comp = fv.in_comprehension(c)
        if comp is not None:
            gen = comp.generators[0]
            if unparse(gen.iter) == "input_fields.items()" and isinstance(gen.target, ast.Tuple) and not gen.ifs:
                nm, fld = [unparse(e) for e in gen.target.elts]
                ok = [unparse(a) for a in c.args] == [p[0], p[1], f"{p[2]}.get({nm}, UNDEFINED_VALUE)", p[3], fld] and arg_text(c, None, "path") == f"Path({p[5]}, {nm})"
    ck.ob("inputs.input_object_coercer: one coercion per *declared* field, fed the provided value or the undefined marker, with Path(path, field)", ok, f,
          c or f.node, construct="object:per-field")
    src = [n for n in walk_no_nested(f.node) if isinstance(n, ast.Assign) and unparse(n.targets[0]) == "input_fields"]
    ck.ob("inputs.input_object_coercer: declared fields come from the input object type", len(src) == 1 and unparse(src[0].value) == f"{p[4]}.input_fields", f,
          src[0] if src else f.node, construct="object:declared")
    loops = [l for l in fv.loops() if isinstance(l, ast.For)]
    zips = [l for l in loops if isinstance(l.iter, ast.Call) and dotted(l.iter.func) == "zip"]
    ok = len(zips) == 1 and [unparse(a) for a in zips[0].iter.args] == ["input_fields", "results"]
    ck.ob("inputs.input_object_coercer: results are paired with field names by zipping the same mapping", ok, f, zips[0] if zips else f.node, construct="object:zip")
    if zips:
        lp = zips[0]
        nm, rs = [unparse(e) for e in lp.target.elts]
        st = [n for n in walk_no_nested(lp) if isinstance(n, ast.Assign) and isinstance(n.targets[0], ast.Subscript)]
        ok = len(st) == 1 and unparse(st[0].targets[0]) == f"coerced_values[{nm}]" and (f"is_invalid_value({rs})", "F") in fv.conditions(st[0])
        ck.ob("inputs.input_object_coercer: an absent optional field is not stored; a present one is stored under its name", ok, f, st[0] if st else lp, construct="object:store")
        ex = [c2 for c2 in fv.calls("extend") if contains(lp, c2)]
        ck.ob("inputs.input_object_coercer: field errors are accumulated", len(ex) == 1 and unparse(ex[0].func.value) == "errors" and ("input_field_errors", "T") in fv.conditions(ex[0])
              and unparse(ex[0].args[0]) == "input_field_errors", f, ex[0] if ex else lp, construct="object:errors")
        ck.ob("inputs.input_object_coercer: a field value is kept exactly when neither it nor an earlier field reported errors",
              len(st) == 1 and {("input_field_errors", "F"), ("errors", "F")} <= set(fv.conditions(st[0])) and unparse(st[0].value) == "input_field_value", f, st[0] if st else lp,
              construct="object:store-guards")
        un = [n for n in walk_no_nested(lp) if isinstance(n, ast.Assign) and isinstance(n.targets[0], ast.Tuple)]
        ck.ob("inputs.input_object_coercer: (value, errors) are unpacked from this field's result", len(un) == 1 and unparse(un[0].targets[0]) == "(input_field_value, input_field_errors)"
              and unparse(un[0].value) == rs, f, un[0] if un else lp, construct="object:unpack")
    unk = [l for l in loops if unparse(l.iter) == p[2]]
    ok = False
    if len(unk) == 1:
        apps = [c2 for c2 in fv.calls("append") if contains(unk[0], c2) and unparse(c2.func.value) == "errors"]
        ok = len(apps) == 1 and (f"{unparse(unk[0].target)} in input_fields", "F") in fv.conditions(apps[0])
    ck.ob("inputs.input_object_coercer: every provided key that is not declared is reported", ok, f, unk[0] if unk else f.node, construct="object:unknown-fields")
    rets = [r for r in fv.returns() if r not in bad]
    ck.ob("inputs.input_object_coercer returns the coerced fields and all errors", len(rets) == 1 and unparse(rets[0].value) == "CoercionResult(value=coerced_values, errors=errors)", f,
          rets[0] if rets else f.node, construct="object:return")
    # per-field decision table
    g = repo.func(INP + "input_object_coercer.py", "input_field_value_coercer")
    gv = FuncView(g)
    q = g.positional_params  # parent_node, node, value, ctx, input_field, path
    atoms = Atoms({f"is_invalid_value({q[2]})": "omitted", f"{q[4]}.default_value is None": "!has_default", f"{q[4]}.graphql_type.is_non_null_type": "non_null"})
    for om, hd, nn in itertools.product([False, True], repeat=3):
        val = {"omitted": om, "has_default": hd, "non_null": nn}
        if not om:
            want = f"await {q[4]}.input_coercer({q[0]}, {q[1]}, {q[2]}, {q[3]}, path={q[5]})"
        elif hd:
            want = f"await {q[4]}.literal_coercer({q[0]}, {q[4]}.default_value, {q[3]})"
        elif nn:
            want = "error"
        else:
            want = "UNDEFINED_VALUE"
        got = set()
        for tr in gv.cfg.simulate(lambda n, env: evaluate(n.ast, env, val, atoms)):
            rv = _ret_class(tr)
            t = rv if isinstance(rv, str) else unparse(rv)
            got.add("error" if t.startswith("CoercionResult(errors=[coercion_error(") else t)
        ck.ob(f"input field table {val}", got == {want}, g, g.node, construct="field-table:" + "".join(str(int(v)) for v in val.values()),
              detail=f"got {sorted(got)}, want {want}" + atoms.note())
