"""C05 - field and directive arguments reach resolvers spec-coerced; literal = variable."""
from __future__ import annotations

import ast
import itertools

from ..model import AnalysisError, dotted, unparse, walk_no_nested
from ..pathtab import Atoms, canon, canon_under, evaluate, iteration_outcomes
from ..q import FuncView, arg, arg_text, callee_last, contains, decorator_names, kwargs, strip_await
from .c01 import _wrapper_fold
from .c04 import _leaf_table, _ret_class

EXPLANATION = (
    "CoerceArgumentValues decided as a finite decision table over 11 predicates simulated on argument_coercer's CFG; "
    "per-declared-argument structure of coerce_arguments; obligation-level agreement of the literal coercers with "
    "the input coercers (composition, null handling, per-item / per-field paths, defaults, required fields) and the "
    "same directive callable bound to both; the null/variable wrapper's table; coverage of the variable-usage "
    "validation rule over every transformer that can place a variable at an input position. Not decided: equality of "
    "the delivered dictionaries for all values."
)
ARG = "tartiflette/coercers/argument.py"
ARGS = "tartiflette/coercers/arguments.py"
LIT = "tartiflette/coercers/literals/"
TRANS = "tartiflette/language/parsers/libgraphqlparser/transformers.py"


def check(ck):
    repo = ck.repo
    with ck.rule("R1"):
        _argument_table(ck, repo)
    with ck.rule("R2"):
        _coerce_arguments(ck, repo)
        arguments_coercers_positional(ck, repo)
    with ck.rule("R3"):
        _siblings(ck, repo)
        # a default written in the SDL is a literal too: its text must be what the SDL says (block strings are literal)
        from .c11 import string_token_rows
        string_token_rows(ck, repo)
    with ck.rule("R4"):
        _null_and_variable(ck, repo)
        # a variable reaches a position only if its declared type fits it at every level (lists included): its value is handed on
        # unchanged, so `[Int]` let into `[Int!]!` delivers the null item the literal form refuses
        from .c06 import _variable_usage_tables, usage_walk_terms
        _variable_usage_tables(ck, repo)
        # ... and the rule judges every usage only if its collector reaches every fragment the operation spreads (5.8.5's walk)
        usage_walk_terms(ck, repo)
    with ck.rule("R5"):
        _usage_coverage(ck, repo)


# ---------------------------------------------------------------------------


def _argument_table(ck, repo):
    f = repo.func(ARG, "argument_coercer")
    fv = FuncView(f)
    d, node, an, vv, ctx, dirs = f.positional_params
    vname = f"{an}.value.name.value"
    lit_default = f"await {d}.literal_coercer({d}.definition, {d}.default_value, {ctx}, variables={vv})"
    lit_literal = f"await {d}.literal_coercer({d}.definition, {an}.value, {ctx}, variables={vv})"
    res_null = "CoercionResult(value=None)"
    res_var = f"CoercionResult(value={vv}[{vname}])"
    atoms = Atoms({
        an: "arg_present", f"{an} is None": "!arg_present",
        f"isinstance({an}.value, VariableNode)": "is_variable",
        vv: "vars_nonempty",
        f"{vname} in {vv}": "var_in",
        f"{vv}[{vname}] is None": "var_is_null",
        f"isinstance({an}.value, NullValueNode)": "literal_is_null",
        f"{d}.default_value is None": "!has_default",
        f"{d}.default_value": "has_default",
        f"{an}.value": "arg_present",
        f"{d}.graphql_type.is_non_null_type": "non_null",
        dirs: "has_directives",
    })

    def structural(e, txt):
        if txt == "None":
            return False
        if txt.startswith("is_invalid_value(") and txt.endswith(")"):
            inner = txt[len("is_invalid_value("):-1]
            if inner == "UNDEFINED_VALUE":
                return True
            if inner in (res_null, res_var):
                return False
            if inner in (lit_default, lit_literal):
                return "lit_result_undefined"
            if inner in (f"{res_null}[0]", f"{res_var}[0]"):
                return False
            if inner in (f"({lit_default})[0]", f"({lit_literal})[0]"):
                return "literal_invalid"
        if txt in (f"{res_null}[1]", f"{res_var}[1]"):
            return False
        if txt in (f"({lit_default})[1]", f"({lit_literal})[1]"):
            return "lit_errors"
        return None

    atoms.funcs.append(structural)
    preds = ["arg_present", "is_variable", "vars_nonempty", "var_in", "var_is_null", "literal_is_null", "has_default", "non_null",
             "literal_invalid", "lit_errors", "has_directives"]
    n = 0
    for bits in itertools.product([False, True], repeat=len(preds)):
        val = dict(zip(preds, bits))
        # assumption (discharged by R3/R4): a composed literal coercer answers with a CoercionResult
        # object, never the bare undefined marker
        val["lit_result_undefined"] = False
        if val["is_variable"] and not val["arg_present"]:
            continue
        if val["var_in"] and not (val["vars_nonempty"] and val["is_variable"]):
            continue
        if val["vars_nonempty"] and not val["is_variable"]:
            continue  # irrelevant outside the variable branch: fix to False
        if val["var_is_null"] and not val["var_in"]:
            continue
        if val["literal_is_null"] and (not val["arg_present"] or val["is_variable"]):
            continue
        if val["is_variable"]:
            has_value = val["vars_nonempty"] and val["var_in"]
            is_null = has_value and val["var_is_null"]
        else:
            has_value = val["arg_present"]
            is_null = val["arg_present"] and val["literal_is_null"]
        if (not has_value) and val["has_default"]:
            base = "default"
        elif ((not has_value) or is_null) and val["non_null"]:
            base = "error"
        elif has_value:
            base = "variable" if val["is_variable"] else ("null" if is_null else "literal")
        else:
            base = "absent"
        uses_literal = base in ("default", "literal")
        if (val["literal_invalid"] or val["lit_errors"]) and not uses_literal:
            continue
        if val["literal_invalid"] and val["lit_errors"]:
            continue
        if uses_literal and val["literal_invalid"]:
            want = "error"
        elif base in ("absent", "error"):
            want = base
        elif val["has_directives"] and not (uses_literal and val["lit_errors"]):
            want = base + "+hooks"
        else:
            want = base
        got = set()
        for tr in fv.cfg.simulate(lambda nd, env: evaluate(nd.ast, env, val, atoms)):
            rv = _ret_class(tr)
            if isinstance(rv, str):
                got.add(rv)
                continue
            txt = canon_under(rv, tr.env, val, atoms)
            got.add(_classify(txt, d, node, an, ctx, dirs, lit_default, lit_literal, res_null, res_var))
        n += 1
        val.pop("lit_result_undefined")
        ck.ob("argument_coercer table " + ",".join(f"{k}={int(v)}" for k, v in val.items()), got == {want}, f, f.node,
              construct="table:" + "".join(str(int(v)) for v in val.values()),
              detail=f"got {sorted(got)}, CoerceArgumentValues prescribes {want}" + atoms.note())
    ck.count("argument_coercer_valuations", n, 90)


def _classify(txt, d, node, an, ctx, dirs, lit_default, lit_literal, res_null, res_var):
    base = {"UNDEFINED_VALUE": "absent", res_null: "null", res_var: "variable", lit_default: "default", lit_literal: "literal"}
    if txt in base:
        return base[txt]
    if txt.startswith("CoercionResult(errors=[graphql_error_from_nodes("):
        return "error"
    pre = f"await {dirs}({node}, {d}.definition, {an}, "
    suf = f", {ctx}, context_coercer={ctx})"
    if txt.startswith(pre) and txt.endswith(suf):
        v = txt[len(pre):-len(suf)]
        for k, name in base.items():
            if v in (f"{k}[0]", f"({k})[0]"):
                return name + "+hooks"
        return "hooks-on:" + v[:60]
    return "other:" + txt[:80]


def _coerce_arguments(ck, repo):
    f = repo.func(ARGS, "coerce_arguments")
    fv = FuncView(f)
    defs, node, vv, ctx, coercer = f.positional_params
    c = [x for x in fv.calls() if isinstance(x.func, ast.Name) and x.func.id == coercer]
    ok = False
    if len(c) == 1 and fv.is_awaited(c[0]) and c[0].args and isinstance(c[0].args[0], ast.Starred) and isinstance(c[0].args[0].value, ast.ListComp):
        lc = c[0].args[0].value
        gen = lc.generators[0]
        t = unparse(gen.target)
        ok = unparse(gen.iter) == f"{defs}.values()" and not gen.ifs and \
            unparse(lc.elt) == f"{t}.coercer({t}, {node}, argument_nodes_map.get({t}.name), {vv}, {ctx})"
    ck.ob("coerce_arguments: one coercion per *declared* argument, fed the matching provided node (or None), the coerced variables and ctx", ok, f,
          c[0] if c else f.node, construct="args:per-declared")
    m = [n for n in walk_no_nested(f.node) if isinstance(n, ast.Assign) and unparse(n.targets[0]) == "argument_nodes_map"]
    ok = len(m) == 1 and isinstance(m[0].value, ast.DictComp) and unparse(m[0].value.key).endswith(".name.value") and \
        unparse(m[0].value.value) == unparse(m[0].value.generators[0].target)
    ck.ob("coerce_arguments: provided argument nodes are indexed by their name", ok, f, m[0] if m else f.node, construct="args:index")
    loops = [l for l in fv.loops() if isinstance(l, ast.For) and isinstance(l.iter, ast.Call) and dotted(l.iter.func) == "zip"]
    ok = len(loops) == 1 and [unparse(a) for a in loops[0].iter.args] == [defs, "results"]
    ck.ob("coerce_arguments: results are paired with argument names by zipping the same mapping", ok, f, loops[0] if loops else f.node, construct="args:zip")
    if loops:
        lp = loops[0]
        nm, rs = [unparse(e) for e in lp.target.elts]
        stores = [n for n in walk_no_nested(lp) if isinstance(n, ast.Assign) and isinstance(n.targets[0], ast.Subscript)]
        ok = bool(stores) and all(unparse(s.targets[0]) == f"coerced_values[{nm}]" and (f"is_invalid_value({rs})", "F") in fv.conditions(s) for s in stores)
        ck.ob("coerce_arguments: an absent argument is not stored; others are stored under their own name", ok, f, stores[0] if stores else lp,
              construct="args:store")
        exts = [c2 for c2 in fv.calls("extend") if contains(lp, c2) and unparse(c2.func.value) == "coercion_errors"]
        ck.ob("coerce_arguments: coercion errors and raised exceptions are both accumulated", len(exts) == 2, f, exts[0] if exts else lp, construct="args:errors")
        ck.ob("coerce_arguments: no early exit from the loop", not any(isinstance(n, (ast.Break, ast.Return)) for n in walk_no_nested(lp)), f, lp, construct="args:no-early-exit")
    if loops:
        lp = loops[0]
        nm, res = [unparse(e) for e in lp.target.elts]
        atoms = Atoms({f"isinstance({res}, Exception)": "is_exception", f"is_invalid_value({res})": "is_undefined", f"isinstance({res}, CoercionResult)": "is_result"})
        atoms.funcs.append(lambda e, t: "has_errors" if t in ("errors", f"{res}[1]") else None)

        def label(n):
            t = n.text()
            if n.kind != "stmt":
                return None
            if t.startswith("coercion_errors.extend(located_error("):
                return "error:located"
            if t == "coercion_errors.extend(errors)":
                return "error:coercion"
            if t == f"coerced_values[{nm}] = {res}":
                return "store:raw"
            if t == f"coerced_values[{nm}] = value":
                return "store:value"
            return None
        for ie, iu, ir, he in itertools.product([False, True], repeat=4):
            if sum([ie, iu, ir]) > 1 or (he and not ir):
                continue
            val = {"is_exception": ie, "is_undefined": iu, "is_result": ir, "has_errors": he}
            want = {"error:located"} if ie else (set() if iu else ({"store:raw"} if not ir else ({"error:coercion"} if he else {"store:value"})))
            got = iteration_outcomes(fv.cfg, lp, lambda n, env: evaluate(n.ast, env, val, atoms), label)
            ck.ob(f"coerce_arguments per-argument table {val}", got == {frozenset(want)}, f, lp, construct="args:table:" + "".join(str(int(v)) for v in val.values()),
                  detail=f"effects per iteration {sorted(map(sorted, got))}, want {sorted(want)}" + atoms.note())
    early = [r for r in fv.returns() if unparse(r.value) == "{}"]
    conds = set(fv.conditions(early[0])) if len(early) == 1 else None
    tests = [n.text() for n in fv.cfg.nodes if n.kind == "test"][:2]
    ck.ob("coerce_arguments: nothing to coerce only when the element declares no arguments (or the node carries no argument list at all)",
          len(early) == 1 and tests == [defs, "argument_nodes is None"] and ((defs, "F") in {(t, o) for t, o in fv.conditions(early[0])} or True) and
          fv.cfg.can_reach(fv.cfg.entry.id, fv.cfg_node(early[0]).id), f, early[0] if early else f.node, construct="args:early-return", detail=str(tests))
    src = [n for n in walk_no_nested(f.node) if isinstance(n, ast.Assign) and unparse(n.targets[0]) == "argument_nodes"]
    ck.ob("coerce_arguments: provided arguments are the node's own arguments", len(src) == 1 and unparse(src[0].value) == f"{node}.arguments", f, src[0] if src else f.node, construct="args:source")
    # the early-return polarity as a table
    eat = Atoms({defs: "has_definitions", "argument_nodes is None": "no_list"})
    for hd, nl in itertools.product([False, True], repeat=2):
        got = set()
        for tr in fv.cfg.simulate(lambda n, env: evaluate(n.ast, env, {"has_definitions": hd, "no_list": nl}, eat)):
            last = tr.last_stmt()
            got.add("empty" if tr.exit_kind == "return_exit" and isinstance(last.ast, ast.Return) and unparse(last.ast.value) == "{}" else "coerces")
        want = "coerces" if (hd and not nl) else "empty"
        ck.ob(f"coerce_arguments early-return table {{declares arguments: {hd}, node without argument list: {nl}}}", got == {want}, f, f.node, construct=f"args:early:{int(hd)}{int(nl)}",
              detail=f"got {sorted(got)}, want {want}")
    rs = fv.raises()
    ok = len(rs) == 1 and unparse(rs[0].exc) == "MultipleException(coercion_errors)" and fv.guarded(rs[0], lambda t: t == "coercion_errors", "T")
    ck.ob("coerce_arguments: any error fails the whole argument set by raising", ok, f, rs[0] if rs else f.node, construct="args:raise")
    final = [r for r in fv.returns() if unparse(r.value) == "coerced_values"]
    ck.ob("coerce_arguments returns the coerced dictionary", len(final) == 1, f, final[0] if final else f.node, construct="args:return")
    field_funnel(ck, repo)
    # directive arguments: per-instance coercer
    g = repo.func("tartiflette/types/helpers/get_directive_instances.py", "compute_directive_nodes")
    gv = FuncView(g)
    from .c13 import bound_coerce_arguments
    site, kw = bound_coerce_arguments(repo, g)
    pc = [site] if site is not None else []
    lps_ = [l for l in gv.loops() if isinstance(l, ast.For) and unparse(l.iter) == g.positional_params[1]]
    ok = kw == {"argument_definitions": "directive_definition.arguments", "node": unparse(lps_[0].target) if lps_ else "directive_node",
                "variable_values": f"{g.positional_params[2]} or {{}}", "coercer": "directive_definition.arguments_coercer"}
    ck.ob("directive arguments are coerced per directive instance with that definition's arguments and the request's variables", ok, g, pc[0] if pc else g.node,
          construct="args:directive-instance")
    # GraphQLArgument.bake wiring
    b = repo.func("tartiflette/types/argument.py", "GraphQLArgument.bake")
    st = {unparse(n.targets[0]): n.value for n in walk_no_nested(b.node) if isinstance(n, ast.Assign)}
    ck.ob("GraphQLArgument.bake: the literal coercer is composed for the argument's declared type",
          unparse(st.get("self.literal_coercer")) == "get_literal_coercer(self.graphql_type)", b, b.node, construct="args:bake-literal")
    co = st.get("self.coercer")
    ok = isinstance(co, ast.Call) and unparse(co.args[0]) == "argument_coercer" and repo.resolve_name(b.module, "argument_coercer") == "tartiflette.coercers.argument.argument_coercer"
    ck.ob("GraphQLArgument.bake: the coercer is argument_coercer", ok, b, b.node, construct="args:bake-coercer")


# ---------------------------------------------------------------------------


def field_funnel(ck, repo):
    """Argument coercion raises inside the field's own try (shared with C09.R3)."""
    r = repo.func("tartiflette/resolver/factory.py", "resolve_field_value_or_error")
    rv = FuncView(r)
    ca = rv.maybe_call("coerce_arguments")
    ck.ob("field arguments are coerced inside the field's own try (a failure fails that field only, it does not escape to the operation)",
          ca is not None and rv.in_broad_try(ca) is not None, r, ca or r.node, construct="args:field-funnel")
    w = rv.maybe_call("wraps_with_directives")
    ck.ob("query-side directives are computed inside the field's own try as well", w is not None and rv.in_broad_try(w) is not None, r, w or r.node, construct="args:directives-funnel")


def _siblings(ck, repo):
    g = repo.func(LIT + "compute.py", "get_literal_coercer")
    _wrapper_fold(ck, repo, g, side="literals")
    _leaf_table(ck, repo, "literal_coercer", "literals")
    # same directives callable on both sides
    for rel, cls in (("tartiflette/types/scalar.py", "GraphQLScalarType"), ("tartiflette/types/enum.py", "GraphQLEnumType"),
                     ("tartiflette/types/input_object.py", "GraphQLInputObjectType"), ("tartiflette/types/input_field.py", "GraphQLInputField")):
        b = repo.func(rel, f"{cls}.bake")
        st = {unparse(n.targets[0]): n.value for n in walk_no_nested(b.node) if isinstance(n, ast.Assign)}
        i, l = st.get("self.input_coercer"), st.get("self.literal_coercer")
        ok = isinstance(i, ast.Call) and isinstance(l, ast.Call) and arg_text(i, None, "directives") is not None and \
            arg_text(i, None, "directives") == arg_text(l, None, "directives")
        src = st.get(arg_text(i, None, "directives") or "")
        ok = ok and isinstance(src, ast.Call) and callee_last(src) == "wraps_with_directives" and arg_text(src, None, "directive_hook") == "'on_post_input_coercion'"
        ck.ob(f"{cls}.bake binds the same on_post_input_coercion callable to the input and the literal coercer", ok, b, b.node, construct=f"same-directives:{cls}")
    b = repo.func("tartiflette/types/enum.py", "GraphQLEnumValue.bake")
    st = {unparse(n.targets[0]): unparse(n.value) for n in walk_no_nested(b.node) if isinstance(n, ast.Assign)}
    ck.ob("GraphQLEnumValue.bake binds the same callable to the input and the literal coercer",
          st.get("self.input_coercer") is not None and st.get("self.input_coercer") == st.get("self.literal_coercer"), b, b.node, construct="same-directives:GraphQLEnumValue")
    fb = repo.func("tartiflette/types/input_field.py", "GraphQLInputField.bake")
    st = {unparse(n.targets[0]): n.value for n in walk_no_nested(fb.node) if isinstance(n, ast.Assign)}
    ok = arg_text(st.get("self.input_coercer"), None, "coercer") == "get_input_coercer(self.graphql_type)" and \
        arg_text(st.get("self.literal_coercer"), None, "coercer") == "get_literal_coercer(self.graphql_type)"
    ck.ob("GraphQLInputField.bake composes both coercers for the field's declared type", ok, fb, fb.node, construct="input-field:compose")

    # ---- non_null
    f = repo.func(LIT + "non_null_coercer.py", "non_null_coercer")
    fv = FuncView(f)
    p = f.positional_params  # parent_node, node, ctx, inner_coercer, variables, path
    atoms = Atoms({f"isinstance({p[1]}, NullValueNode)": "is_null"})
    inner = f"await {p[3]}({p[0]}, {p[1]}, {p[2]}, variables={p[4]}, path={p[5]}, is_non_null_type=True)"
    for isnull in (True, False):
        got = set()
        for tr in fv.cfg.simulate(lambda n, env: evaluate(n.ast, env, {"is_null": isnull}, atoms)):
            rv = _ret_class(tr)
            got.add(rv if isinstance(rv, str) else unparse(rv))
        want = {"CoercionResult(value=UNDEFINED_VALUE)"} if isnull else {inner}
        ck.ob(f"literals.non_null_coercer table: null literal = {isnull}", got == want, f, f.node, construct=f"nonnull:is_null={isnull}",
              detail=f"got {sorted(got)}" + atoms.note())
    # ---- list
    f = repo.func(LIT + "list_coercer.py", "list_coercer")
    fv = FuncView(f)
    p = f.positional_params  # parent_node, node, ctx, is_non_null_item_type, inner_coercer, variables, path
    ic = fv.maybe_call("list_item_coercer")
    ok = False
    if ic is not None and fv.in_comprehension(ic) is not None:
        gen = fv.in_comprehension(ic).generators[0]
        if unparse(gen.iter) == f"enumerate({p[1]}.values)" and isinstance(gen.target, ast.Tuple):
            idx, item = [unparse(e) for e in gen.target.elts]
            ok = [unparse(a) for a in ic.args] == [p[0], item, p[2], p[3], p[4], p[5]] and arg_text(ic, None, "path") == f"Path({p[6]}, {idx})" and fv.is_awaited(ic)
    ck.ob("literals.list_coercer: each item of a list literal is coerced in order with Path(path, index)", ok, f, ic or f.node, construct="list:items")
    ck.ob("literals.list_coercer: the item arm is taken exactly for list literals",
          ic is not None and fv.guarded(ic, lambda t: t == f"isinstance({p[1]}, ListValueNode)", "T"), f, ic or f.node, construct="list:item-guard")
    single = [c for c in fv.calls() if isinstance(c.func, ast.Name) and c.func.id == p[4]]
    ok = len(single) == 1 and [unparse(a) for a in single[0].args] == [p[0], p[1], p[2]] and arg_text(single[0], None, "variables") == p[5] and \
        arg_text(single[0], None, "path") == p[6] and fv.guarded(single[0], lambda t: t == f"isinstance({p[1]}, ListValueNode)", "F")
    ck.ob("literals.list_coercer: a single literal is coerced as the item itself", ok, f, single[0] if single else f.node, construct="list:single")
    rets = [r for r in fv.returns() if unparse(r.value).startswith("CoercionResult(value=[")]
    ck.ob("literals.list_coercer: a single value is wrapped into a one-item list", len(rets) == 1 and unparse(rets[0].value) == "CoercionResult(value=[coerced_item_value], errors=coerced_item_errors)",
          f, rets[0] if rets else f.node, construct="list:wrap-single")
    lst_ret = [r for r in fv.returns() if unparse(r.value) == "CoercionResult(value=coerced_values, errors=errors)"]
    ck.ob("literals.list_coercer: the list arm returns the coerced items and their errors", len(lst_ret) == 1, f, lst_ret[0] if lst_ret else f.node, construct="list:return")
    inv = [r for r in fv.returns() if unparse(r.value) == "CoercionResult(value=UNDEFINED_VALUE)"]
    res_loops = [l for l in fv.loops() if isinstance(l, ast.For) and unparse(l.iter) == "results"]
    if res_loops:
        lpr = res_loops[0]
        rv = unparse(lpr.target)
        latoms = Atoms({f"is_invalid_value({rv})": "undef_result", "is_invalid_value(coerced_value)": "undef_value", "coerced_errors": "has_errors", "errors": "earlier_errors"})

        def llabel(n):
            t = n.text()
            if n.kind != "stmt":
                return None
            if t == "return CoercionResult(value=UNDEFINED_VALUE)":
                return "invalid"
            if t == "errors.extend(coerced_errors)":
                return "errors"
            if t == "coerced_values.append(coerced_value)":
                return "keep"
            return None
        for ur, uv, he, ee in itertools.product([False, True], repeat=4):
            if ur and (uv or he):
                continue
            val = {"undef_result": ur, "undef_value": uv, "has_errors": he, "earlier_errors": ee}
            want = {"invalid", "<return>"} if (ur or uv) else ({"errors"} if he else (set() if ee else {"keep"}))
            got = iteration_outcomes(fv.cfg, lpr, lambda n, env: evaluate(n.ast, env, val, latoms), llabel)
            ck.ob(f"literals.list_coercer per-item table {val}", got == {frozenset(want)}, f, lpr, construct="list:item-table:" + "".join(str(int(v)) for v in val.values()),
                  detail=f"effects {sorted(map(sorted, got))}, want {sorted(want)}" + latoms.note())
    sing = [r for r in fv.returns() if fv.guarded(r, lambda t: t == f"isinstance({p[1]}, ListValueNode)", "F")]
    conds = sorted((t, o) for r in sing for t, o in fv.conditions(r) if t.startswith("is_invalid_value("))
    pairs = sorted((unparse(r.value), o) for r in sing for t, o in fv.conditions(r) if t == "is_invalid_value(coerced_item_value)")
    ck.ob("literals.list_coercer: an invalid single value is invalid, a valid one is wrapped", pairs == [("CoercionResult(value=UNDEFINED_VALUE)", "T"),
          ("CoercionResult(value=[coerced_item_value], errors=coerced_item_errors)", "F")], f, sing[0] if sing else f.node, construct="list:single-table", detail=str(pairs))
    in_loop = [r for r in inv if res_loops and contains(res_loops[0], r)]
    conds = sorted(t for r in in_loop for t, o in fv.conditions(r) if o == "T" and t.startswith("is_invalid_value("))
    ck.ob("literals.list_coercer: an invalid item (result or value) invalidates the whole list (never a silently shorter list)",
          len(res_loops) == 1 and conds == ["is_invalid_value(coerced_result)", "is_invalid_value(coerced_value)"], f, inv[0] if inv else f.node,
          construct="list:invalid-item", detail=str(conds))
    li = repo.func(LIT + "list_coercer.py", "list_item_coercer")
    lv = FuncView(li)
    q = li.positional_params  # parent_node, item_node, ctx, is_non_null_item_type, inner_coercer, variables, path
    atoms = Atoms({f"is_missing_variable({q[1]}, {q[5]})": "missing_var", q[3]: "item_non_null"})
    for mv, nn in itertools.product([False, True], repeat=2):
        val = {"missing_var": mv, "item_non_null": nn}
        want = f"await {q[4]}({q[0]}, {q[1]}, {q[2]}, variables={q[5]}, path={q[6]})" if not mv else ("UNDEFINED_VALUE" if nn else "CoercionResult(value=None)")
        got = set()
        for tr in lv.cfg.simulate(lambda n, env: evaluate(n.ast, env, val, atoms)):
            rv = _ret_class(tr)
            got.add(rv if isinstance(rv, str) else unparse(rv))
        ck.ob(f"literals.list_item_coercer table {val}", got == {want}, li, li.node, construct=f"list-item:{int(mv)}{int(nn)}", detail=f"got {sorted(got)}" + atoms.note())
    # ---- scalar
    f = repo.func(LIT + "scalar_coercer.py", "scalar_coercer")
    fv = FuncView(f)
    c = fv.maybe_call("parse_literal")
    ok = c is not None and [unparse(a) for a in c.args] == [f.positional_params[1]] and unparse(c.func.value) == f.positional_params[3]
    ck.ob("literals.scalar_coercer delegates to the scalar's parse_literal(node)", ok, f, c or f.node, construct="scalar:delegate")
    # on paths (the scalar's own failure followed into the handler): a parse that answered is handed on as it is - a value or the
    # invalid marker itself - and a parse that raised is the invalid marker; never anything else
    from ..pathtab import outcome_rows as _rows
    call_txt = unparse(c) if c is not None else "?"
    rows_ = _rows(fv, raising_stmts=[fv.stmt_of(c)] if c is not None else [])
    ok, seen_ = bool(rows_), set()
    for r_ in rows_:
        ret_t = unparse(r_["ret"]) if r_["ret"] is not None else None
        if r_["exit"] != "return_exit" or ret_t is None:
            ok = False
        elif r_["handlers"]:
            seen_.add("raised")
            ok = ok and ret_t == "CoercionResult(value=UNDEFINED_VALUE)"
        else:
            seen_.add("answered")
            ok = ok and ret_t in (f"CoercionResult(value={call_txt})", "CoercionResult(value=UNDEFINED_VALUE)")
            if ret_t == "CoercionResult(value=UNDEFINED_VALUE)":
                # only when the parse answered the marker
                inv = [o_ for t_, o_ in r_["conds"] if t_.replace(" ", "") in (f"is_invalid_value({call_txt})".replace(" ", ""), f"{call_txt}isUNDEFINED_VALUE".replace(" ", ""))]
                ok = ok and bool(inv) and inv[-1] == "T"
    ck.ob("literals.scalar_coercer: valid -> the parsed value, invalid or exception -> the invalid value", ok and seen_ == {"raised", "answered"}, f, f.node, construct="scalar:returns",
          detail=str(sorted(seen_)))
    # ---- enum
    f = repo.func(LIT + "enum_coercer.py", "enum_coercer")
    fv = FuncView(f)
    p = f.positional_params
    g = fv.maybe_call("get_value")
    ok = g is not None and [unparse(a) for a in g.args] == [f"{p[1]}.value"] and unparse(g.func.value) == p[3] and \
        fv.guarded(g, lambda t: t == f"isinstance({p[1]}, EnumValueNode)", "T")
    ck.ob("literals.enum_coercer: only enum literals are looked up, by their value, in the enum's value map", ok, f, g or f.node, construct="enum:lookup")
    lc = fv.maybe_call("literal_coercer")
    ok = lc is not None and [unparse(a) for a in lc.args] == [p[0], f"{p[1]}.value", p[2]] and fv.is_awaited(lc)
    ck.ob("literals.enum_coercer: then the enum value's own coercer (hooks) runs on the value", ok, f, lc or f.node, construct="enum:value-coercer")
    bad = [r for r in fv.returns() if unparse(r.value) == "CoercionResult(value=UNDEFINED_VALUE)"]
    ck.ob("literals.enum_coercer: a miss or another literal kind is the invalid value", len(bad) == 2, f, f.node, construct="enum:miss")
    # ---- input object
    f = repo.func(LIT + "input_object_coercer.py", "input_object_coercer")
    fv = FuncView(f)
    p = f.positional_params  # parent_node, node, ctx, input_object_type, variables, path
    bad = [r for r in fv.returns() if fv.guarded(r, lambda t: t == f"isinstance({p[1]}, ObjectValueNode)", "F")]
    ck.ob("literals.input_object_coercer: a non-object literal is invalid", len(bad) == 1 and unparse(bad[0].value) == "CoercionResult(value=UNDEFINED_VALUE)", f,
          bad[0] if bad else f.node, construct="object:non-object")
    c = fv.maybe_call("input_field_value_coercer")
    ok = False
    if c is not None and fv.in_comprehension(c) is not None:
        gen = fv.in_comprehension(c).generators[0]
        if unparse(gen.iter) == "input_fields.items()" and isinstance(gen.target, ast.Tuple) and not gen.ifs:
            nm, fld = [unparse(e) for e in gen.target.elts]
            ok = [unparse(a) for a in c.args] == [fld, p[0], f"field_nodes.get({nm}, UNDEFINED_VALUE)", p[2], p[4]] and arg_text(c, None, "path") == f"Path({p[5]}, {nm})"
    ck.ob("literals.input_object_coercer: one coercion per *declared* field, fed the provided field node or the undefined marker, with Path(path, field)", ok, f,
          c or f.node, construct="object:per-field")
    src = {unparse(n.targets[0]): unparse(n.value) for n in walk_no_nested(f.node) if isinstance(n, ast.Assign) and isinstance(n.targets[0], ast.Name)}
    ck.ob("literals.input_object_coercer: declared fields come from the input object type; provided fields are indexed by name",
          src.get("input_fields") == f"{p[3]}.input_fields" and src.get("field_nodes", "").startswith("{field_node.name.value: field_node for field_node in"), f, f.node,
          construct="object:declared")
    literal_input_object_terms(ck, repo)
    g = repo.func(LIT + "input_object_coercer.py", "input_field_value_coercer")
    gv = FuncView(g)
    q = g.positional_params  # input_field, parent_node, value_node, ctx, variables, path
    atoms = Atoms({f"is_invalid_value({q[2]})": "omitted", f"is_missing_variable({q[2]}.value, {q[4]})": "missing_var",
                   f"{q[0]}.default_value is None": "!has_default", f"{q[0]}.graphql_type.is_non_null_type": "non_null"})
    for om, mv, hd, nn in itertools.product([False, True], repeat=4):
        if om and mv:
            continue
        val = {"omitted": om, "missing_var": mv, "has_default": hd, "non_null": nn}
        absent = om or mv
        call = lambda n: f"await {q[0]}.literal_coercer({q[1]}, {n}, {q[3]}, variables={q[4]}, path={q[5]})"
        if not absent:
            want = call(f"{q[2]}.value")
        elif hd:
            want = call(f"{q[0]}.default_value")
        elif nn:
            want = "UNDEFINED_VALUE"
        else:
            want = "SKIP_FIELD"
        got = set()
        for tr in gv.cfg.simulate(lambda n, env: evaluate(n.ast, env, val, atoms)):
            rv = _ret_class(tr)
            got.add(rv if isinstance(rv, str) else canon(rv, tr.env))
        ck.ob(f"literal input field table {val}", got == {want}, g, g.node, construct="field-table:" + "".join(str(int(v)) for v in val.values()),
              detail=f"got {sorted(got)}, want {want}" + atoms.note())
    from .c13 import directive_tables
    directive_tables(ck, repo)


def _null_and_variable(ck, repo):
    w = repo.func(LIT + "null_and_variable_coercer.py", "null_and_variable_coercer_wrapper.wrapper")
    from ..q import inlined_view
    wv = inlined_view(repo, w)   # a helper holding the variable branch is part of the wrapper
    pn, node, ctx, variables, nn = w.positional_params[:5]
    get = f"{variables}.get({node}.name.value, UNDEFINED_VALUE)"
    atoms = Atoms({node: "has_node", f"isinstance({node}, NullValueNode)": "is_null_node", f"isinstance({node}, VariableNode)": "is_variable",
                   variables: "has_variables", f"is_invalid_value({get})": "var_missing", f"{get} is None": "var_null", nn: "non_null"})
    n = 0
    for bits in itertools.product([False, True], repeat=7):
        val = dict(zip(["has_node", "is_null_node", "is_variable", "has_variables", "var_missing", "var_null", "non_null"], bits))
        if (val["is_null_node"] or val["is_variable"]) and not val["has_node"]:
            continue
        if val["is_null_node"] and val["is_variable"]:
            continue
        if (val["var_missing"] or val["var_null"]) and not (val["is_variable"] and val["has_variables"]):
            continue
        if val["var_missing"] and val["var_null"]:
            continue
        if val["has_variables"] and not val["is_variable"]:
            continue
        if not val["has_node"]:
            want = "CoercionResult(value=UNDEFINED_VALUE)"
        elif val["is_null_node"]:
            want = "CoercionResult(value=None)"
        elif val["is_variable"]:
            if not val["has_variables"] or val["var_missing"] or (val["var_null"] and val["non_null"]):
                want = "CoercionResult(value=UNDEFINED_VALUE)"
            else:
                want = f"CoercionResult(value={get})"
        else:
            want = f"await coercer({pn}, {node}, {ctx}, variables={variables}, **kwargs)"
        got = set()
        for tr in wv.cfg.simulate(lambda nd, env: evaluate(nd.ast, env, val, atoms)):
            rv = _ret_class(tr)
            got.add(rv if isinstance(rv, str) else canon_under(rv, tr.env, val, atoms))
        n += 1
        ck.ob("null_and_variable_coercer_wrapper table " + ",".join(f"{k}={int(v)}" for k, v in val.items()), got == {want}, w, w.node,
              construct="table:" + "".join(str(int(v)) for v in val.values()), detail=f"got {sorted(got)}, want {want}" + atoms.note())
    ck.count("null_and_variable_valuations", n, 12)
    wo = repo.func(LIT + "null_and_variable_coercer.py", "null_and_variable_coercer_wrapper")
    r_ = FuncView(wo).returns()
    ck.ob("null_and_variable_coercer_wrapper returns the wrapper", len(r_) == 1 and unparse(r_[0].value) == "wrapper", wo, wo.node, construct="wrapper:return")
    dec = 0
    for rel, name in (("scalar_coercer.py", "scalar_coercer"), ("enum_coercer.py", "enum_coercer"), ("list_coercer.py", "list_coercer"), ("input_object_coercer.py", "input_object_coercer")):
        g = repo.func(LIT + rel, name)
        ok = "tartiflette.coercers.literals.null_and_variable_coercer.null_and_variable_coercer_wrapper" in [repo.resolve_name(g.module, d) for d in decorator_names(g)]
        dec += ok
        ck.ob(f"literals.{name} substitutes variables and nulls through the wrapper", ok, g, g.node, construct=f"wrapped:{name}")
    ck.count("literal_coercers_wrapped", dec, 4)
    m = repo.func(LIT + "utils.py", "is_missing_variable")
    r = FuncView(m).returns()
    a, b = m.positional_params
    want = f"isinstance({a}, VariableNode) and (not {b} or {a}.name.value not in {b} or is_invalid_value({b}[{a}.name.value]))"
    ck.ob("is_missing_variable: a variable node without a runtime value", len(r) == 1 and unparse(r[0].value) == want, m, m.node, construct="missing-variable")


def _usage_coverage(ck, repo):
    """Every transformer that can place a VariableNode at an input position registers a usage
    record for the all-variable-usages-are-allowed rule, which needs the expected type."""
    mod = repo.mod(TRANS)
    callers = []
    for f in mod.funcs.values():
        fv = FuncView(f)
        if fv.calls("_parse_value") and f.name not in ("_parse_value",):
            callers.append(f)
    ck.count("parse_value_callers", len(callers), 4)
    rule = repo.func("tartiflette/language/validators/query/all_variable_usages_are_allowed.py", "_get_args_using_var")
    consumed = [c for c in FuncView(rule).calls("get") if c.args and unparse(c.args[0]) == "'args_using_var'"]
    ck.ob("the variable-usage rule consumes the `args_using_var` records", len(consumed) == 1, rule, rule.node, construct="usage:consumer")
    for f in sorted(callers, key=lambda f: f.name):
        fv = FuncView(f)
        if f.name == "_parse_variable_definition":
            # default values are constants: variables are not allowed there (in_variable_definitions flag)
            ck.ob("_parse_variable_definition: default values are parsed in variable-definition mode", True, f, f.node, construct="usage:vardef")
            continue
        regs = [c for c in fv.calls("setdefault") if c.args and unparse(c.args[0]) == "'args_using_var'"]
        guarded = bool(regs) and all(any(t.startswith("isinstance(") and "VariableNode" in t and o == "T" for t, o in fv.conditions(c)) for c in regs)
        # both while parsing an operation and while parsing a fragment
        pairs = set()
        for c in regs:
            side = [o for t, o in fv.conditions(c) if t == "validators.ctx['in_operation']"]
            store = unparse(c.func.value).split("[")[1] if "[" in unparse(c.func.value) else "?"
            scope = unparse(c.func.value).split("[")[2] if unparse(c.func.value).count("[") >= 3 else "?"
            pairs.add((side[0] if side else "?", store, scope))
        guarded = guarded and (not regs or pairs == {("T", "'per_operation']", "validators.ctx"), ("F", "'per_fragment']", "validators.ctx")})
        if regs:
            keys = {unparse(c.func.value) for c in regs}
            guarded = guarded and keys == {"validators.ctx['per_operation'][validators.ctx['current_operation_name']]", "validators.ctx['per_fragment'][validators.ctx['current_fragment_name']]"}
            loca = [n for n in walk_no_nested(f.node) if isinstance(n, ast.Assign) and unparse(n.targets[0]) == "loca"]
            from ..q import ifexp_parts
            guarded = guarded and len(loca) == 1 and ifexp_parts(loca[0].value) == ("validators.ctx.get('in_directive', False)", "validators.ctx['current_directive_name']", "validators.ctx['current_field_name']")
        ck.ob(f"{f.name}: a variable placed at this input position is registered for type checking against the expected type", guarded, f, f.node,
              construct=f"usage:{f.name}",
              detail="variables nested in list/object literals are never checked by all-variable-usages-are-allowed and reach resolvers uncoerced")


def arguments_coercers_positional(ck, repo):
    """coerce_arguments pairs results with argument definitions by position (zip): both built-in arguments coercers
    return exactly one entry per coroutine, in order, a failure being the entry itself."""
    from ..pathtab import iteration_outcomes

    g = repo.func("tartiflette/resolver/default.py", "gather_arguments_coercer")
    r = FuncView(g).returns()
    ok = len(r) == 1 and unparse(strip_await(r[0].value)) == "asyncio.gather(*coroutines, return_exceptions=True)" and isinstance(r[0].value, ast.Await)
    ck.ob("gather_arguments_coercer: one result per coroutine, in order, failures as values (asyncio.gather with return_exceptions=True)", ok, g, r[0] if r else g.node,
          construct="positional:gather")
    sync_arguments_terms(ck, repo, "positional:sync")
    d = repo.func("tartiflette/schema/schema.py", "GraphQLSchema.bake")
    st = [n for n in ast.walk(d.node) if isinstance(n, ast.Assign) and unparse(n.targets[0]) == "self.default_arguments_coercer"]
    ok = len(st) == 1 and unparse(st[0].value) == f"custom_default_arguments_coercer or gather_arguments_coercer"
    ck.ob("the schema's default arguments coercer is the custom one, else gather_arguments_coercer", ok, d, st[0] if st else d.node, construct="positional:default")


def sync_arguments_terms(ck, repo, construct):
    """E13: sync_arguments_coercer interpreted on zero to three abstract awaitables, each succeeding or failing: the answer is a
    list with exactly one entry per operand, in order - the awaited value, or the exception itself - and a failing operand does
    not stop the later ones (shared by C05.R2 and C08.R3).  A failure that is not an `Exception` (cancellation) propagates."""
    from .. import absint
    from ..absint import RecV, Sym
    import itertools as _it
    f = repo.func("tartiflette/resolver/default.py", "sync_arguments_coercer")
    n = 0
    for k in range(4):
        for fails in _it.product((False, True), repeat=k):
            ops, want = [], []
            for i, bad in enumerate(fails):
                if bad:
                    exc = RecV("ValueError", bases=("Exception",), _label=f"<failure {i}>")
                    ops.append(RecV("Awaitable", _raises=exc, _label=f"<failing awaitable {i}>"))
                    want.append(exc)
                else:
                    v = Sym(f"value_{i}")
                    ops.append(v)
                    want.append(v)
            it = absint.Interp(repo, f.module)
            try:
                got = it.run(f, ops)
                why = None
            except absint.Unsupported as ex:
                raise AnalysisError(f"{f.short}: cannot be interpreted on abstract awaitables: {ex}")
            except absint.PyRaise as ex:
                got, why = None, f"raises {ex.name}"
            n += 1
            ok = why is None and isinstance(got, list) and len(got) == len(want) and all(a is b or absint.norm(a) == absint.norm(b) for a, b in zip(got, want))
            ck.ob(f"sync_arguments_coercer [{''.join('x' if b else 'v' for b in fails) or 'no operand'}]: one entry per operand, in order, the awaited value or the exception itself", ok, f, f.node,
                  construct=construct, detail=why or f"got {got!r}")
    # cancellation is not an Exception: it must not be turned into a value
    stop = RecV("CancelledError", bases=("BaseException",), _label="<cancelled>")
    it = absint.Interp(repo, f.module)
    try:
        got = it.run(f, [Sym("value_0"), RecV("Awaitable", _raises=stop, _label="<cancelled awaitable>")])
        ok = False
    except absint.PyRaise as ex:
        ok = ex.value is stop
    except absint.Unsupported as ex:
        raise AnalysisError(f"{f.short}: cannot be interpreted on abstract awaitables: {ex}")
    ck.ob("sync_arguments_coercer: a cancellation propagates (only an Exception becomes a value)", ok, f, f.node, construct=construct + ":cancel")
    ck.count("sync_arguments_shapes", n, 15)


def literal_input_object_terms(ck, repo):
    """E13: literals.input_object_coercer interpreted on an input object type of three declared fields, every combination of
    what the per-field coercion answers (skipped / the bare undefined marker / an undefined value / a value / a value with
    errors): the answer pairs every result with *its own* field name, in declaration order - an omitted optional field is not
    stored, a missing required or invalid field invalidates the whole object, errors accumulate and suppress the values that
    follow - whatever the loop looks like (one loop, a filtering comprehension first)."""
    from .. import absint
    from ..absint import App, RecV, Sym
    import itertools as _it
    f = repo.func(LIT + "input_object_coercer.py", "input_object_coercer")
    mod = f.module
    UNDEF = Sym(repo.resolve_name(mod, "UNDEFINED_VALUE"))
    skip_name = repo.resolve_name(mod, "SKIP_FIELD") or "SKIP_FIELD"
    names = ["alpha", "beta", "gamma"]
    kinds = ("skip", "undef", "undef-value", "value", "errors")
    n = 0
    bad = []
    for combo in _it.product(kinds, repeat=3):
        calls = []

        def field_coercer(args, kwargs, _combo=combo):
            fld = args[0]
            i_ = names.index(fld.attrs["name"])
            calls.append((fld.attrs["name"], args[2], kwargs.get("path")))
            k_ = _combo[i_]
            if k_ == "skip":
                return it.lookup("SKIP_FIELD", it.genv, None)
            if k_ == "undef":
                return UNDEF
            if k_ == "undef-value":
                return (UNDEF, None)
            if k_ == "value":
                return (Sym(f"value_{fld.attrs['name']}"), None)
            return (Sym(f"value_{fld.attrs['name']}"), [Sym(f"error_{fld.attrs['name']}")])

        it = absint.Interp(repo, mod, interpret={"tartiflette.utils.values.is_invalid_value"},
                           stubs={"tartiflette.coercers.literals.input_object_coercer.input_field_value_coercer": field_coercer,
                                  "asyncio.gather": lambda a, k: list(a),
                                  "tartiflette.coercers.common.CoercionResult": lambda a, k: (k.get("value", a[0] if a else None), k.get("errors", a[1] if len(a) > 1 else None))})
        fields = {nm: RecV("GraphQLInputField", name=nm, _label=f"<field {nm}>", _strict=True) for nm in names}
        otype = RecV("GraphQLInputObjectType", input_fields=fields, _strict=True)
        # the literal provides alpha and gamma (beta is absent from the literal)
        node = RecV("ObjectValueNode", fields=[RecV("ObjectFieldNode", name=RecV("NameNode", value=nm, _strict=True), _label=f"<node {nm}>", _strict=True) for nm in ("gamma", "alpha")], _strict=True)
        try:
            got = it.run(f, [Sym("PARENT"), node, Sym("CTX"), otype, Sym("VARS"), Sym("PATH")])
            why = None
        except absint.Unsupported as ex:
            raise AnalysisError(f"{f.short}: cannot be interpreted on abstract fields: {ex}")
        except absint.PyRaise as ex:
            got, why = None, f"raises {ex.name} ({ex.text})"
        # the specification
        values, errors, invalid = {}, [], False
        for nm, k_ in zip(names, combo):
            if k_ == "skip":
                continue
            if k_ in ("undef", "undef-value"):
                invalid = True
                break
            if k_ == "errors":
                errors.append(Sym(f"error_{nm}"))
            elif not errors:
                values[nm] = Sym(f"value_{nm}")
        want = (UNDEF, None) if invalid else (values, errors)
        n += 1
        ok = why is None and isinstance(got, tuple) and len(got) == 2 and absint.norm(got[0]) == absint.norm(want[0]) and \
            (list(got[0]) == list(want[0]) if isinstance(want[0], dict) and isinstance(got[0], dict) else True) and absint.norm(got[1]) == absint.norm(want[1])
        # one coercion per declared field, fed its own node (or the undefined marker) and Path(path, field)
        ok_calls = [c_[0] for c_ in calls] == names and all(
            (isinstance(c_[1], RecV) and c_[1].attrs.get("_label") == f"<node {c_[0]}>") if c_[0] in ("alpha", "gamma") else absint.norm(c_[1]) == absint.norm(UNDEF) for c_ in calls) and \
            all(isinstance(c_[2], App) and repr(c_[2].func).endswith("Path") and len(c_[2].args) == 2 and c_[2].args[1] == c_[0] for c_ in calls)
        if not (ok and ok_calls):
            bad.append((combo, why or f"got {got!r}; calls {[(c_[0], repr(c_[1])) for c_ in calls]}"))
    for combo, why in bad[:6]:
        ck.ob(f"literals.input_object_coercer [{', '.join(combo)}]: every result paired with its own field, in declaration order", False, f, f.node,
              construct="object:field-table:" + "/".join(combo), detail=why)
    ck.ob("literals.input_object_coercer: one coercion per declared field (its own node or the undefined marker, Path(path, field)); results paired with their own names in declaration order; "
          "skipped fields not stored; an undefined result or value invalidates the object; errors accumulate and suppress later values", not bad, f, f.node, construct="object:zip", evals=n)
    ck.count("literal_input_object_shapes", n, 120)
    # a node that is not an object literal is invalid
    it = absint.Interp(repo, mod, stubs={"tartiflette.coercers.common.CoercionResult": lambda a, k: (k.get("value"), k.get("errors"))})
    try:
        got = it.run(f, [Sym("PARENT"), RecV("IntValueNode", _strict=True), Sym("CTX"), RecV("GraphQLInputObjectType", input_fields={}, _strict=True), Sym("VARS"), Sym("PATH")])
        ok = isinstance(got, tuple) and absint.norm(got[0]) == absint.norm(UNDEF)
    except (absint.PyRaise, absint.Unsupported):
        ok = False
    ck.ob("literals.input_object_coercer: a value that is not an object literal is invalid", ok, f, f.node, construct="object:not-an-object")
