"""C08 - results do not depend on resolver scheduling or concurrency settings (structural part)."""
from __future__ import annotations

import ast

from .. import asyncrules
from ..effects import write_sites
from ..model import AnalysisError, dotted, unparse, walk_no_nested
from ..phases import phases
from ..q import FuncView, arg, arg_text, callee_last, contains, kwargs, strip_await

EXPLANATION = (
    "Structured concurrency decided on the source: asyncio.gather is the only asyncio API in the package; every call "
    "that creates a coroutine is awaited, gathered or returned; gathers over field executions and value completions use "
    "return_exceptions=True (all operands finish before the gather returns); every gather result is merged by position "
    "(zip with the container it was built from, or returned in order); the concurrent and sequential variants discharge "
    "the same obligations; concurrency flags are written at bake time only; request-phase loops terminate structurally; "
    "the only object mutated by concurrently running coroutines of one request is the context's error list. Not decided: "
    "the interleavings themselves, order of `errors`, impure resolvers."
)
REQUEST_PACKAGES = ("tartiflette/coercers/", "tartiflette/execution/", "tartiflette/resolver/", "tartiflette/utils/", "tartiflette/engine.py",
                    "tartiflette/directive/", "tartiflette/subscription/", "tartiflette/schema/introspection.py", "tartiflette/schema/builtins/")
FIELD_EXECUTION_MODULES = ("tartiflette/coercers/outputs/", "tartiflette/execution/execute.py", "tartiflette/resolver/factory.py")


def check(ck):
    repo = ck.repo
    with ck.rule("R1"):
        asyncrules.check_structured_concurrency(ck, repo, REQUEST_PACKAGES)
        gs = asyncrules.gathers(repo)
        ck.count("gather_sites", len(gs))
        asyncrules.check_field_execution_gathers(ck, repo)
    with ck.rule("R2"):
        for f, fv, g in asyncrules.gathers(repo):
            ok, how = _positional_merge(f, fv, g)
            ck.ob(f"{f.qualname}: gather results are merged by position, never by completion order", ok, f, g, construct=f"merge:{f.qualname}", detail=how)
        f = repo.func("tartiflette/coercers/arguments.py", "coerce_arguments")
        fv = FuncView(f)
        c = [x for x in fv.calls() if isinstance(x.func, ast.Name) and x.func.id == f.positional_params[4]]
        ok = len(c) == 1 and any(isinstance(l.iter, ast.Call) and dotted(l.iter.func) == "zip" and [unparse(a) for a in l.iter.args] == [f.positional_params[0], "results"]
                                 for l in fv.loops() if isinstance(l, ast.For))
        ck.ob("coerce_arguments: results of the arguments coercer are zipped with the declared arguments", ok, f, c[0] if c else f.node, construct="merge:coerce_arguments")
    with ck.rule("R3"):
        _siblings(ck, repo)
        # the sequential twins let a failure propagate as an exception, the concurrent ones receive it as a gathered value:
        # both agree only because every failure leaving a field is the located MultipleException (C02.R1/R2) and that is
        # the one kind extract_exceptions_from_results recognises among gathered values
        from . import c02
        c02.r1(ck, repo)
        c02.r2(ck, repo)
        c02.extract_rule(ck, repo)
    with ck.rule("R4"):
        _shared_state(ck, repo)
    with ck.rule("R5"):
        _flags(ck, repo)
    with ck.rule("R6"):
        _termination(ck, repo)


def _gather_operand_kind(repo, f, fv, g) -> str:
    """field-execution | other, by the defining module of the operands' callee."""
    texts = []
    for a in g.args:
        v = a.value if isinstance(a, ast.Starred) else a
        for c in ast.walk(v):
            if isinstance(c, ast.Call):
                tgt = repo.resolve_call(f, c)
                if tgt is not None and getattr(tgt, "module", None) is not None and tgt.module.relpath.startswith(FIELD_EXECUTION_MODULES):
                    return "field-execution"
                if isinstance(c.func, ast.Attribute) and c.func.attr == "resolver":
                    return "field-execution"
        texts.append(unparse(v))
    # operands taken from a container filled with resolver calls
    for t in texts:
        for name in [n.id for n in ast.walk(ast.parse(t, mode="eval")) if isinstance(n, ast.Name)]:
            for n in walk_no_nested(f.node):
                if isinstance(n, ast.Assign) and isinstance(n.targets[0], ast.Subscript) and unparse(n.targets[0].value) == name:
                    src = n.value
                    if isinstance(src, ast.Name):
                        for m in walk_no_nested(f.node):
                            if isinstance(m, ast.Assign) and unparse(m.targets[0]) == src.id and isinstance(m.value, ast.Call) and isinstance(m.value.func, ast.Attribute) \
                                    and m.value.func.attr == "resolver":
                                return "field-execution"
    return "other"


def _parallel_lists(fv, a: str, b: str) -> bool:
    """Two local lists that grow only together: each `a.append(..)` stands next to a `b.append(..)` under the same conditions in
    the same loop, both start empty, nothing else changes either - so they have the same length and order."""
    def appends(name):
        return [c for c in fv.calls("append") if unparse(c.func.value) == name]
    def other(name):
        return [c for c in fv.calls(["extend", "insert", "pop", "remove", "clear", "sort", "reverse"]) if isinstance(c.func, ast.Attribute) and unparse(c.func.value) == name]
    def inits(name):
        return [n for n in walk_no_nested(fv.node) if isinstance(n, (ast.Assign, ast.AugAssign)) and any(unparse(t) == name for t in (n.targets if isinstance(n, ast.Assign) else [n.target]))]
    aa, bb = appends(a), appends(b)
    if not aa or len(aa) != len(bb) or other(a) or other(b):
        return False
    ia, ib = inits(a), inits(b)
    if len(ia) != 1 or len(ib) != 1 or unparse(getattr(ia[0], "value", None)) not in ("[]", "list()") or unparse(getattr(ib[0], "value", None)) not in ("[]", "list()"):
        return False
    for x, y in zip(aa, bb):
        sx, sy = fv.stmt_of(x), fv.stmt_of(y)
        px, py = fv.parent(sx), fv.parent(sy)
        if px is not py or set(fv.conditions(x)) != set(fv.conditions(y)):
            return False
        body = None
        for fld in ("body", "orelse", "finalbody"):
            blk = getattr(px, fld, None)
            if isinstance(blk, list) and sx in blk and sy in blk:
                body = blk
        if body is None or abs(body.index(sx) - body.index(sy)) != 1:
            return False
    return True


def _positional_merge(f, fv, g):
    st = fv.stmt_of(g)
    if isinstance(st, ast.Return):
        return True, "returned as is (gather preserves operand order)"
    # operands container
    star = [a for a in g.args if isinstance(a, ast.Starred)]
    if len(star) != 1:
        return False, "operands are not a single starred container"
    src = star[0].value
    container = None
    if isinstance(src, ast.ListComp):
        container = unparse(src.generators[0].iter)
    elif isinstance(src, ast.Call) and dotted(src.func) == "list" and src.args:
        container = unparse(src.args[0])
    else:
        container = unparse(src)
    if isinstance(st, ast.Assign) and isinstance(st.targets[0], ast.Name):
        res = st.targets[0].id
    elif isinstance(st, ast.Assign) and isinstance(st.value, ast.IfExp):
        res = unparse(st.targets[0])
    else:
        return False, f"unexpected consumer {type(st).__name__}"
    uses = [n for n in walk_no_nested(fv.node) if isinstance(n, ast.Name) and n.id == res and isinstance(n.ctx, ast.Load)]
    if not uses:
        return False, f"`{res}` is never used"
    how = []
    for u in uses:
        up = fv.parent(u)
        if isinstance(up, ast.Call) and dotted(up.func) == "zip":
            others = [unparse(a) for a in up.args if a is not u]
            base = container.replace(".values()", "").replace(".items()", "").replace("enumerate(", "").rstrip(")")
            if others and others[0] == base:
                how.append(f"zip({others[0]}, {res})")
            elif others and _parallel_lists(fv, others[0], base):
                how.append(f"zip({others[0]}, {res}) - `{others[0]}` is filled in step with `{base}`")
            else:
                return False, f"zipped with `{others}` but built from `{container}`"
        elif isinstance(up, ast.Call) and callee_last(up) in ("extract_exceptions_from_results",):
            how.append("scanned for failures")
        elif isinstance(up, ast.Return):
            how.append("returned in order")
        elif isinstance(up, ast.comprehension) and up.iter is u:
            how.append("iterated in order")
        elif isinstance(up, ast.If) or isinstance(up, ast.IfExp) or isinstance(up, ast.Dict):
            how.append("tested / returned")
        elif isinstance(up, (ast.For,)) and up.iter is u:
            how.append("iterated in order")
        else:
            return False, f"`{res}` consumed by {type(up).__name__}"
    bad = [c for c in fv.calls(["sorted", "sort", "reverse", "reversed", "shuffle", "set"]) if any(isinstance(x, ast.Name) and x.id == res for x in ast.walk(c))]
    if bad:
        return False, "result list is reordered"
    return True, ", ".join(sorted(set(how)))


def _siblings(ck, repo):
    L = "tartiflette/coercers/outputs/list_coercer.py"
    seq, con = repo.func(L, "list_coercer_sequentially"), repo.func(L, "list_coercer_concurrently")
    sv, cv = FuncView(seq), FuncView(con)
    sc, cc = sv.maybe_call("complete_value_catching_error"), cv.maybe_call("complete_value_catching_error")
    ok = sc is not None and cc is not None and [unparse(a) for a in sc.args] == [unparse(a) for a in cc.args]
    ck.ob("list coercers: both variants complete items with the same callee and operands", ok, seq, sc or seq.node, construct="siblings:list:operands")
    ck.ob("list coercers: same signature", seq.params == con.params, seq, seq.node, construct="siblings:list:signature")
    # failures converted to values in both
    h = sv.in_broad_try(sc) if sc is not None else None
    ok = h is not None and h.name is not None and any(isinstance(s, ast.Assign) and unparse(s.value) == h.name for s in h.body) and \
        not any(isinstance(n, (ast.Break, ast.Return, ast.Raise)) for n in ast.walk(h))
    ck.ob("sequential list coercer: an item failure becomes a value and the loop goes on (all items attempted)", ok, seq, h or seq.node, construct="siblings:list:seq-continues")
    lp = sv.enclosing(sc, (ast.For,)) if sc is not None else None
    ok = lp is not None and not any(isinstance(n, (ast.Break, ast.Return)) for n in walk_no_nested(lp))
    ck.ob("sequential list coercer: no early exit from the item loop", ok, seq, lp or seq.node, construct="siblings:list:no-early-exit")
    g = cv.maybe_call("gather")
    ck.ob("concurrent list coercer: failures are returned as values (return_exceptions=True)", g is not None and arg_text(g, None, "return_exceptions") == "True", con,
          g or con.node, construct="siblings:list:con-values")
    for name, fv, f in (("sequential", sv, seq), ("concurrent", cv, con)):
        ex = fv.maybe_call("extract_exceptions_from_results")
        rs = [r for r in fv.raises() if r.exc is not None and ex is not None and isinstance(fv.stmt_of(ex), ast.Assign) and unparse(r.exc) == unparse(fv.stmt_of(ex).targets[0])]
        ck.ob(f"{name} list coercer: collected failures are raised afterwards", len(rs) == 1, f, rs[0] if rs else f.node, construct=f"siblings:list:{name}:raise")
    tails = []
    for fv in (sv, cv):
        body = [s for s in fv.func.body if isinstance(s, (ast.Assign, ast.If, ast.Return))]
        tails.append([unparse(s) for s in fv.func.body[-3:]])
    ck.ob("list coercers: identical tail (extract failures, raise, return results)", tails[0] == tails[1], seq, seq.node, construct="siblings:list:tail", detail=str(tails))
    heads = []
    for fv in (sv, cv):
        g_ = [s_ for s_ in fv.func.body if isinstance(s_, ast.If) and len(s_.body) == 1 and isinstance(s_.body[0], ast.Raise) and "isinstance" in unparse(s_.test)]
        heads.append((unparse(g_[0].test), unparse(g_[0].body[0].exc.func) if isinstance(g_[0].body[0].exc, ast.Call) else unparse(g_[0].body[0].exc)) if g_ else None)
    ck.ob("list coercers: identical non-list guard (same test, same exception class)", heads[0] is not None and heads[0] == heads[1], seq, seq.node, construct="siblings:list:head",
          detail=str(heads))
    # arguments coercers
    D = "tartiflette/resolver/default.py"
    ga, sa_ = repo.func(D, "gather_arguments_coercer"), repo.func(D, "sync_arguments_coercer")
    gv, s2 = FuncView(ga), FuncView(sa_)
    g = gv.maybe_call("gather")
    ok = g is not None and [unparse(a) for a in g.args] == ["*coroutines"] and arg_text(g, None, "return_exceptions") == "True" and isinstance(gv.stmt_of(g), ast.Return)
    ck.ob("gather_arguments_coercer: gathers its operands with failures as values, returned in order", ok, ga, g or ga.node, construct="siblings:args:gather")
    from .c05 import sync_arguments_terms
    sync_arguments_terms(ck, repo, "siblings:args:sync")
    ck.ob("arguments coercers: same signature", ga.params == sa_.params, ga, ga.node, construct="siblings:args:signature")
    # execute_fields arms: same callee and operands for the awaited-now and the deferred arm (it is one call)
    e = repo.func("tartiflette/execution/execute.py", "execute_fields")
    ev = FuncView(e)
    rc = ev.calls("resolver")
    ok = len(rc) == 1
    if ok:
        st = ev.stmt_of(rc[0])
        res = unparse(st.targets[0]) if isinstance(st, ast.Assign) else None
        uses = asyncrules.uses_of_def(ev, st, res) if res is not None else []
        ok = res is not None and len(uses) == 2
    ck.ob("execute_fields: the deferred and the immediate arm consume the same resolver call (same callee, same operands)", ok, e, rc[0] if rc else e.node,
          construct="siblings:fields:one-call")
    flag = [n for n in ev.cfg.nodes if n.kind == "test" and n.text() == "field_definition.parent_concurrently"]
    ck.ob("execute_fields: the arm is chosen by the field's parent_concurrently flag only", len(flag) == 1, e, flag[0].ast if flag else e.node, construct="siblings:fields:flag")


def _shared_state(ck, repo):
    ph = phases(repo)
    g = ph.graph
    coroutine_fqs = [fq for fq in ph.exec_set if g.funcs[fq].is_async]
    mutated = {}
    for fq in sorted(coroutine_fqs):
        f = g.funcs[fq]
        for s in write_sites(f):
            from ..effects import classify_receiver
            c, why = classify_receiver(f, s)
            if c in ("FRESH",):
                continue
            ok, reason = ph.judge(f, s, c, why, ph.exec_prov)
            # objects that may be visible to sibling coroutines: anything not a fresh local
            mutated.setdefault((f.short, s.receiver_text()), (f, s, c, ok, reason))
    allowed = {
        ("tartiflette/execution/collect.py::collect_fields", "fields.setdefault(get_field_entry_key(selection), [])"): "accumulator owned by one collect call tree (awaited sequentially)",
        ("tartiflette/execution/collect.py::collect_fields", "fields"): "accumulator owned by one collect call tree (awaited sequentially)",
        ("tartiflette/execution/collect.py::collect_fields", "visited_fragment_names"): "visited set owned by one collect call tree (awaited sequentially)",
        ("tartiflette/coercers/variables.py::variable_coercer", "coerce_error"): "errors of this variable's own coercion",
        ("tartiflette/utils/directives.py::resolver_executor", "kwargs"): "**kwargs is a new dict per call",
        ("tartiflette/utils/directives.py::subscription_generator", "kwargs"): "**kwargs is a new dict per call",
        ("tartiflette/schema/introspection.py::__schema_resolver", "info"): "ResolveInfo is built per field execution",
        ("tartiflette/directive/builtins/non_introspectable.py::NonIntrospectableDirective.on_schema_execution", "schema"):
            "constant False written idempotently before any resolver of the request starts (not inside the concurrent part of a request)",
        ("tartiflette/schema/introspection.py::__type_resolver", "info"): "ResolveInfo is built per field execution",
    }
    for key, (f, s, c, ok, reason) in sorted(mutated.items()):
        ck.ob(f"{f.qualname}: `{s.receiver_text()[:50]}` mutated inside a request-phase coroutine is not shared between concurrently running siblings", key in allowed, f, s.node,
              construct=f"shared:{f.qualname}:{s.receiver_text()[:50]}", detail=allowed.get(key, f"{c}: {reason}"))
    # the one shared object: ExecutionContext.errors, appended only
    ae = repo.func("tartiflette/execution/context.py", "ExecutionContext.add_error")
    ws = [s for s in write_sites(ae)]
    ok = len(ws) == 1 and ws[0].kind == "mutator" and ws[0].detail == "append" and ws[0].receiver_text() == "self.errors"
    ck.ob("the request's shared error list is only appended to (no read-modify-write across an await)", ok, ae, ws[0].node if ws else ae.node, construct="shared:errors-append-only")
    ck.ob("add_error is synchronous (an append cannot be interleaved)", not ae.is_async, ae, ae.node, construct="shared:add_error-sync")
    others = [(f.short, s.text) for fq in ph.exec_set for f in [g.funcs[fq]] for s in write_sites(f) if s.receiver_text().endswith(".errors") and f is not ae and f.name != "__init__"]
    ck.ob("nobody else writes an `.errors` attribute in the request phase", not others, where="tartiflette/", construct="shared:errors-single-writer", detail=str(others))


def _flags(ck, repo):
    allowed = {"GraphQLField.__init__", "GraphQLField.bake", "Resolver.bake", "Subscription.bake", "Resolver.__init__", "Subscription.__init__", "GraphQLSchema.__init__",
               "GraphQLSchema.bake", "Engine.__init__"}
    n = 0
    for f in repo.all_funcs():
        for s in write_sites(f):
            if s.kind == "store-attr" and "concurrently" in s.detail:
                n += 1
                ck.ob(f"{f.qualname}: concurrency flag `{s.detail}` is written at construction / bake time only", f.qualname in allowed, f, s.node,
                      construct=f"flags:{f.qualname}:{s.detail}")
    ck.count("concurrency_flag_writes", n, 10)
    fb = repo.func("tartiflette/types/field.py", "GraphQLField.bake")
    fv = FuncView(fb)
    oc = fv.maybe_call("get_output_coercer")
    ck.ob("GraphQLField.bake: the list variant is chosen from the resolved list_concurrently flag", oc is not None and arg_text(oc, 1) == "self.list_concurrently", fb, oc or fb.node,
          construct="flags:list-variant")
    for flag in ("list_concurrently", "parent_concurrently"):
        st = [n_ for n_ in walk_no_nested(fb.node) if isinstance(n_, ast.Assign) and unparse(n_.targets[0]) == f"self.{flag}"]
        vals = sorted(unparse(s_.value) for s_ in st)
        ck.ob(f"GraphQLField.bake: {flag} resolves subscription > query > schema default", vals == sorted([f"self.subscription_{flag}", f"self.query_{flag}", f"schema.coerce_{flag}"]),
              fb, st[0] if st else fb.node, construct=f"flags:precedence:{flag}", detail=str(vals))


def _termination(ck, repo):
    n = 0
    for f in sorted(repo.all_funcs(), key=lambda f: f.short):
        if not f.module.relpath.startswith(REQUEST_PACKAGES):
            continue
        for w in [x for x in walk_no_nested(f.node) if isinstance(x, ast.While)]:
            n += 1
            has_await = any(isinstance(x, (ast.Await, ast.AsyncFor, ast.AsyncWith)) for x in ast.walk(w))
            var = unparse(w.test).split(".")[0].replace("not ", "")
            steps = [s for s in w.body if isinstance(s, ast.Assign) and unparse(s.targets[0]) == var and unparse(s.value) in (f"{var}.prev", f"{var}.wrapped_type", "wrapped_type", f"{var}.gql_type", f"{var}.type")]
            ck.ob(f"{f.qualname}: `while {unparse(w.test)[:40]}` walks a finite chain (no await, steps to a sub-structure each iteration)", (not has_await) and len(steps) == 1, f, w,
                  construct=f"terminates:{f.qualname}:{unparse(w.test)[:40]}")
    ck.count("request_phase_while_loops", n, 4)
    # recursion through spreads is bounded by the visited set (C01.R4) ; async for only over the user's source stream
    af = [(f.short) for f in repo.all_funcs() if f.module.relpath.startswith(REQUEST_PACKAGES) for x in walk_no_nested(f.node) if isinstance(x, ast.AsyncFor)]
    ck.ob("`async for` appears only in the subscription pass-through wrappers", sorted(af) == sorted([
        "tartiflette/engine.py::Engine._perform_subscription", "tartiflette/engine.py::Engine.subscribe", "tartiflette/utils/directives.py::directive_generator",
        "tartiflette/utils/directives.py::subscription_generator"]), where="tartiflette/", construct="terminates:async-for", detail=str(af))
