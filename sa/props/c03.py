"""C03 - returned data conforms to schema and selection whatever resolvers return."""
from __future__ import annotations

import ast

from .. import scalars
from ..cfg import is_broad_handler
from ..model import AnalysisError, dotted, unparse, walk_no_nested
from ..q import FuncView, arg, arg_text, callee_last, contains, kwargs, strip_await

EXPLANATION = (
    "Type soundness of result completion decided structurally: wire-typed returns and range/finiteness guards of the "
    "built-in scalars' coerce_output, enum lookup failing closed, list and runtime-type checks dominating completion, "
    "and the catch-all structure that keeps Engine.execute from raising. Not decided: custom scalars, user hooks, JSON "
    "serialisability beyond built-in scalars."
)
OUT = "tartiflette/coercers/outputs/"


def check(ck):
    repo = ck.repo
    with ck.rule("R1"):
        scalars.check_wire_types(ck, repo, directions=("coerce_output",))
        f = repo.func(OUT + "scalar_coercer.py", "scalar_coercer")
        fv = FuncView(f)
        c = fv.maybe_call("coerce_output")
        ok = c is not None and unparse(c.func.value) == f.positional_params[5] and [unparse(a) for a in c.args] == [f.positional_params[0]]
        ck.ob("outputs.scalar_coercer serialises through the scalar's coerce_output", ok, f, c or f.node, construct="scalar:delegate")
        st = fv.stmt_of(c) if c is not None else None
        name = unparse(st.targets[0]) if isinstance(st, ast.Assign) else None
        rets = fv.returns()
        ck.ob("outputs.scalar_coercer returns the serialised value only", len(rets) == 1 and unparse(rets[0].value) == name, f, rets[0] if rets else f.node,
              construct="scalar:return")
        rs = fv.raises()
        ck.ob("outputs.scalar_coercer raises when the scalar yields the invalid value",
              len(rs) == 1 and name is not None and fv.guarded(rs[0], lambda t: t == f"is_invalid_value({name})", "T"), f, rs[0] if rs else f.node,
              construct="scalar:invalid-raises")
    with ck.rule("R2"):
        scalars.check_guards(ck, repo, directions=("coerce_output",))
        scalars.check_failure_exits(ck, repo, directions=("coerce_output",))
    with ck.rule("R3"):
        f = repo.func(OUT + "enum_coercer.py", "enum_coercer")
        fv = FuncView(f)
        p = f.positional_params
        g = fv.maybe_call("get_value")
        ok = g is not None and unparse(g.func.value) == p[5] and [unparse(a) for a in g.args] == [p[0]]
        ck.ob("outputs.enum_coercer looks the result up in the enum's declared value map", ok, f, g or f.node, construct="enum:lookup")
        gv = repo.func("tartiflette/types/enum.py", "GraphQLEnumType.get_value")
        from ..pathtab import outcome_rows as _rows
        # on every path, with the key exactly as it was handed in (a key normalised first - `.name`, str() - would let the raw
        # resolver result, which the coercer returns after a successful lookup, be something that is not a declared value)
        grows = [r_ for r_ in _rows(FuncView(gv)) if r_["exit"] == "return_exit"]
        ck.ob("GraphQLEnumType.get_value is a strict map lookup of the key it was given (a miss raises KeyError)",
              bool(grows) and all(r_["ret"] is not None and unparse(r_["ret"]) == f"self._value_map[{gv.positional_params[1]}]" for r_ in grows), gv, gv.node, construct="enum:get_value",
              detail=str([unparse(r_["ret"]) if r_["ret"] is not None else None for r_ in grows]))
        et = repo.cls("tartiflette/types/enum.py", "GraphQLEnumType")
        ia = et.self_attrs()
        ck.ob("each enum type owns its value map: bound to a fresh dict in __init__, not a class-level dict shared by every enum",
              unparse(ia.get("_value_map")) in ("{}", "dict()") and "_value_map" not in et.class_attrs, where="tartiflette/types/enum.py", construct="enum:own-value-map",
              detail="a class-level map would accept for one enum the values declared by another (and by __TypeKind / __DirectiveLocation)")
        bev = repo.func("tartiflette/types/enum.py", "GraphQLEnumType.bake_enum_values")
        st = [n for n in walk_no_nested(bev.node) if isinstance(n, ast.Assign) and isinstance(n.targets[0], ast.Subscript) and unparse(n.targets[0].value) == "self._value_map"]
        lp = FuncView(bev).enclosing(st[0], (ast.For,)) if st else None
        ck.ob("the value map is filled with exactly the enum's declared values, keyed by name", len(st) == 1 and lp is not None and unparse(lp.iter) == "self.values" and
              unparse(st[0].targets[0].slice).endswith(".name"), bev, st[0] if st else bev.node, construct="enum:value-map-filled")
        hs = [h for h in fv.handlers()]
        miss = [h for h in hs if "KeyError" in (unparse(h.type) if h.type else "")]
        ok = False
        outname = None
        if len(miss) == 1:
            asg = [s for s in miss[0].body if isinstance(s, ast.Assign)]
            ok = len(asg) == 1 and unparse(asg[0].value) == "UNDEFINED_VALUE"
            outname = unparse(asg[0].targets[0]) if asg else None
        ck.ob("outputs.enum_coercer turns a miss into the invalid value", ok, f, miss[0] if miss else f.node, construct="enum:miss")
        rs = fv.raises()
        ck.ob("outputs.enum_coercer raises when the value is invalid",
              len(rs) == 1 and outname is not None and fv.guarded(rs[0], lambda t: t == f"is_invalid_value({outname})", "T"), f, rs[0] if rs else f.node,
              construct="enum:invalid-raises")
        rets = fv.returns()
        ck.ob("outputs.enum_coercer returns only the coerced member", len(rets) == 1 and unparse(rets[0].value) == outname, f, rets[0] if rets else f.node,
              construct="enum:return")
    with ck.rule("R4"):
        list_guard(ck, repo)
    with ck.rule("R5"):
        f = repo.func(OUT + "abstract_coercer.py", "ensure_valid_runtime_type")
        fv = FuncView(f)
        p = f.positional_params
        rets = fv.returns()
        if len(rets) != 1:
            raise AnalysisError("ensure_valid_runtime_type: expected a single return")
        rt = unparse(rets[0].value)
        ck.ob("ensure_valid_runtime_type returns only after checking the runtime type is an object type",
              fv.guarded(rets[0], lambda t: t == f"isinstance({rt}, GraphQLObjectType)", "T"), f, rets[0], construct="runtime:is-object")
        ck.ob("ensure_valid_runtime_type returns only after checking it is a possible type of the abstract type",
              fv.guarded(rets[0], lambda t: t == f"{p[2]}.is_possible_type({rt})", "T"), f, rets[0], construct="runtime:is-possible")
        rs = fv.raises()
        ck.ob("ensure_valid_runtime_type raises on both failures", len(rs) == 2, f, f.node, construct="runtime:raises")
        got = repo.resolve_name(f.module, "GraphQLObjectType")
        ck.ob("the object-type test names the schema's object type class", got == "tartiflette.types.object.GraphQLObjectType", f, f.node,
              construct="runtime:class", detail=str(got))
        possible_type_sets(ck, repo)
    # "no null at a non-null position", "lists where lists are declared": the completion chain per declared type (C01.R9)
    with ck.pinned("R8"):
        from .c01 import _completion_chain
        _completion_chain(ck, repo)
    with ck.rule("R6"):
        _never_raises(ck, repo)
    # "exactly the selected response keys": field collection keeps every node of every selected key once (C01.R1-R5)
    # and the result mapping is built from the collected keys (C01.R6), whatever the resolvers return
    with ck.pinned("R7"):
        from . import c01
        c01.collection_rules(ck, repo)
        c01._execute_fields_alignment(ck, repo)


def possible_type_sets(ck, repo):
    """The possible-type set an abstract type answers `is_possible_type` / `possible_types_set` from is filled at bake
    time from the *final* member list (after `extend union` / `extend type ... implements`), together with the
    introspection list (shared with C01, C06, C07)."""
    for rel, cls in (("tartiflette/types/interface.py", "GraphQLInterfaceType"), ("tartiflette/types/union.py", "GraphQLUnionType")):
        m = repo.func(rel, f"{cls}.is_possible_type")
        from ..pathtab import outcome_rows as _rows
        a = m.positional_params[1]
        # resolved on paths: the type is judged as it was given (an unwrapped list or non-null type would make `[Dog]` a possible type
        # of `Pet` in the interface-conformance clause)
        from ..q import inlined_view as _iv
        r = [unparse(x["ret"]) for x in _rows(_iv(repo, m)) if x["exit"] == "return_exit" and x["ret"] is not None]   # conditional expressions become paths
        ck.ob(f"{cls}.is_possible_type is a membership test on the possible-type set, of the type exactly as given",
              bool(r) and all(x in (f"{a}.name in self._possible_types_set", f"{a} in self._possible_types_set") for x in r)
              and any(x == f"{a}.name in self._possible_types_set" for x in r), m, m.node,
              construct=f"possible:{cls}", detail=str(r))
        c = repo.cls(rel, cls)
        sa = c.self_attrs()
        ck.ob(f"{cls}.__init__ starts with an empty possible-type set and list of its own (members are added at bake time, after extensions)",
              unparse(sa.get("_possible_types_set")) in ("set()",) and unparse(sa.get("_possible_types")) in ("[]", "list()"), c.methods["__init__"], c.methods["__init__"].node,
              construct=f"possible:{cls}:init", detail=f"{unparse(sa.get('_possible_types_set'))} / {unparse(sa.get('_possible_types'))}")
        pr = repo.func(rel, f"{cls}.possible_types_set")
        r = FuncView(pr).returns()
        ck.ob(f"{cls}.possible_types_set is that same set", len(r) == 1 and unparse(r[0].value) == "self._possible_types_set" and "property" in pr.decorators, pr, pr.node,
              construct=f"possible:{cls}:property")
    u = repo.func("tartiflette/types/union.py", "GraphQLUnionType.bake")
    uv = FuncView(u)
    lps = [l for l in uv.loops() if isinstance(l, ast.For) and unparse(l.iter) == "self.types"]
    ok = False
    if len(lps) == 1:
        x = unparse(lps[0].target)
        adds = [c for c in uv.calls("add") if contains(lps[0], c) and unparse(c.func.value) == "self._possible_types_set"]
        apps = [c for c in uv.calls("append") if contains(lps[0], c) and unparse(c.func.value) == "self._possible_types"]
        ok = len(adds) == 1 and len(apps) == 1 and unparse(adds[0].args[0]) == x and not uv.conditions(adds[0]) and not uv.conditions(apps[0]) and \
            not any(isinstance(n, (ast.Break, ast.Continue, ast.Return)) for n in walk_no_nested(lps[0]))
    ck.ob("GraphQLUnionType.bake adds every member of the final `self.types` to the set and to the list", ok, u, lps[0] if lps else u.node, construct="possible:union:bake")
    ap = repo.func("tartiflette/types/interface.py", "GraphQLInterfaceType.add_possible_type")
    av = FuncView(ap)
    a = ap.positional_params[1]
    adds = [c for c in av.calls("add") if unparse(c.func.value) == "self._possible_types_set"]
    apps = [c for c in av.calls("append") if unparse(c.func.value) == "self._possible_types"]
    ok = len(adds) == 1 and len(apps) == 1 and unparse(adds[0].args[0]) == f"{a}.name" and unparse(apps[0].args[0]) == a and not av.conditions(adds[0]) and not av.conditions(apps[0])
    ck.ob("GraphQLInterfaceType.add_possible_type records the implementing type in the set (by name) and in the list", ok, ap, ap.node, construct="possible:interface:add")
    o = repo.func("tartiflette/types/object.py", "GraphQLObjectType.bake")
    ov = FuncView(o)
    cs = ov.calls("add_possible_type")
    lps = [l for l in ov.loops() if isinstance(l, ast.For) and unparse(l.iter) == "self.interfaces_names"]
    ok = len(cs) == 1 and len(lps) == 1 and contains(lps[0], cs[0]) and [unparse(x) for x in cs[0].args] == ["self"] and set(ov.conditions(cs[0])) <= {("self.interfaces_names", "T")}
    if ok:
        src = [n for n in walk_no_nested(lps[0]) if isinstance(n, ast.Assign) and unparse(n.targets[0]) == unparse(cs[0].func.value)]
        ok = len(src) == 1 and unparse(src[0].value) == f"schema.find_type({unparse(lps[0].target)})"
    ck.ob("GraphQLObjectType.bake registers the object with every interface it (finally) implements", ok, o, cs[0] if cs else o.node, construct="possible:object:register")
    oc = repo.cls("tartiflette/types/object.py", "GraphQLObjectType")
    ck.ob("an object type's possible-type set is itself", unparse(oc.self_attrs().get("_possible_types_set")) == "{self.name}", oc.methods["__init__"], oc.methods["__init__"].node,
          construct="possible:object:self")


def list_guard(ck, repo):
    """Both list coercers reject anything that is not a `list` before iterating (shared with C02.R5)."""
    for name in ("list_coercer_sequentially", "list_coercer_concurrently"):
        f = repo.func(OUT + "list_coercer.py", name)
        fv = FuncView(f)
        p = f.positional_params
        rs = [r for r in fv.raises() if r.exc is not None and unparse(r.exc).startswith("TypeError(")]
        ok = len(rs) == 1 and fv.guarded(rs[0], lambda t: t == f"isinstance({p[0]}, list)", "F")
        ck.ob(f"{name}: a non-list result raises (str, dict, set, bytes are iterable but are not lists)", ok, f, rs[0] if rs else f.node, construct=f"{name}:non-list-raises")
        users = [c for c in fv.calls(["enumerate"])]
        ok2 = bool(users) and all(fv.guarded(c, lambda t: t == f"isinstance({p[0]}, list)", "T") for c in users)
        ck.ob(f"{name}: iteration happens only for a list", ok2, f, users[0] if users else f.node, construct=f"{name}:iterate-guarded")


def _entry_outside_try(ck, repo):
    """What Engine.execute / Engine.subscribe evaluate *outside* their catch-all cannot fail: the one cached parse call (which
    catches everything itself, C07.R4) on the request's query exactly as received and the engine's schema - no decoding,
    conversion or other call on the way (a `bytes.decode`, a normalisation helper ... raising there reaches the caller as an
    exception instead of an errors-only response)."""
    for name in ("Engine.execute", "Engine.subscribe"):
        f = repo.func("tartiflette/engine.py", name)
        from ..q import inlined_view as _iv3
        fv = _iv3(repo, f)   # small helper methods of the engine are looked through
        tries = [t for t in fv.node.body if isinstance(t, ast.Try)]
        outside = []
        for st in fv.node.body:
            if isinstance(st, (ast.Try, ast.AsyncFor)) or (isinstance(st, ast.Expr) and isinstance(st.value, ast.Constant)):
                continue   # the catch-all (execute) / the stream of the executor, whose failures are the consumer's (subscribe)
            outside.append(st)
        def _logging(c):
            return isinstance(c, ast.Call) and isinstance(c.func, ast.Attribute) and unparse(c.func.value).lower() in ("logger", "logging", "log", "_logger") and \
                all(isinstance(a, (ast.Constant, ast.Name)) for a in c.args)
        calls = [c for st in outside for c in ast.walk(st) if isinstance(c, (ast.Call, ast.Await, ast.Subscript, ast.BinOp)) and not _logging(c)]
        pc = [c for c in calls if isinstance(c, ast.Call) and callee_last(c) == "_cached_parse_and_validate_query"]
        ok = len(tries) == (1 if name == "Engine.execute" else 0) and len(pc) == 1 and [unparse(a) for a in pc[0].args] == [f.positional_params[1], "self._schema"] and not pc[0].keywords and \
            [c for c in calls if c is not pc[0]] == []
        ck.ob(f"{name}: outside its catch-all nothing is evaluated but the cached parse of (query as received, self._schema)", ok, f, (calls[0] if calls else f.node),
              construct=f"engine:outside-try:{name}", detail=str([unparse(c)[:60] for c in calls if not pc or c is not pc[0]]))


def _never_raises(ck, repo):
    _entry_outside_try(ck, repo)
    e = repo.func("tartiflette/engine.py", "Engine.execute")
    ev = FuncView(e)
    c = ev.maybe_call("_query_executor")
    ok = c is not None and ev.is_awaited(c)
    h = ev.in_broad_try(c) if c is not None else None
    ck.ob("Engine.execute: the awaited executor call is inside a try with an `except Exception` handler", ok and h is not None, e, c or e.node,
          construct="engine:catch-all")
    if h is not None:
        exits = [s for s in ast.walk(h) if isinstance(s, (ast.Return, ast.Raise))]
        rets = [s for s in exits if isinstance(s, ast.Return)]
        ok = bool(rets) and not any(isinstance(s, ast.Raise) for s in exits) and isinstance(h.body[-1], ast.Return)
        ok = ok and all(isinstance(strip_await(r.value), ast.Call) and callee_last(strip_await(r.value)) == "_build_response"
                        and arg(strip_await(r.value), None, "errors") is not None for r in rets)
        ck.ob("Engine.execute: every exit of the handler returns an errors-only response", ok, e, h, construct="engine:handler-returns")
        # what the handler renders, path by path (helpers inlined, locals resolved): the caught error itself when it is a
        # library error, a TartifletteError wrapping it otherwise
        from ..pathtab import eager_env
        from ..q import inlined_view
        iv = inlined_view(repo, e)
        cst = iv.stmt_of(iv.maybe_call("_query_executor")) if iv.maybe_call("_query_executor") is not None else None
        rows = []
        for tr in iv.cfg.simulate(lambda n, env: None, follow_exc=lambda n, env: n.kind == "stmt" and n.ast is cst):
            if not any(n.kind == "handler" for n in tr.nodes):
                continue
            sym = eager_env(tr, "CAUGHT")
            last = tr.last_stmt()
            rv = sym["__sub__"](last.ast.value) if last is not None and isinstance(last.ast, ast.Return) and last.ast.value is not None else None
            call = strip_await(rv) if rv is not None else None
            errs = arg(call, None, "errors") if isinstance(call, ast.Call) else None
            conds = []
            nodes = tr.nodes
            for i, n in enumerate(nodes[:-1]):
                if n.kind == "test":
                    lab = [l for m, l in iv.cfg.succ[n.id] if m == nodes[i + 1].id]
                    pre = eager_env(type(tr)(iv.cfg, tr.path[:i + 1], {}, "prefix"), "CAUGHT")
                    conds.append((unparse(pre["__sub__"](n.ast)), lab[0] if lab else "?"))
            rows.append((conds, unparse(errs) if errs is not None else None, tr.exit_kind))
        ok = bool(rows)
        for conds, errs, kind in rows:
            lib = [o for t, o in conds if t.replace(" ", "") == "isinstance(CAUGHT,TartifletteError)"]
            if kind != "return_exit" or errs is None or not lib:
                ok = False
            elif lib[-1] == "T":
                ok = ok and errs.replace(" ", "") == "[CAUGHT]"
            else:
                ok = ok and errs.startswith("[TartifletteError(") and "original_error=CAUGHT" in errs.replace(" ", "")
        ck.ob("Engine.execute: foreign exceptions are wrapped into the library's error class before being rendered, library errors are rendered as they are", ok, e, h,
              construct="engine:wrap-foreign", detail=str(rows)[:300])
    # statements outside the catch-all: only the cache lookup
    outside = []
    from ..q import inlined_view as _iv2
    for s in _iv2(repo, e).node.body:   # (small helper methods of the engine looked through)
        if isinstance(s, ast.Try):
            continue
        outside.append(s)
    # what may run outside the catch-all: the cached parse/validate call (it has catch-alls of its own) and statements that
    # neither await nor call into the package (a log line, a local binding)
    parse = [s for s in outside if isinstance(s, ast.Assign) and callee_last(strip_await(s.value)) == "_cached_parse_and_validate_query"]
    risky = []
    for s in outside:
        if s in parse:
            continue
        for n in ast.walk(s):
            if isinstance(n, (ast.Await, ast.Raise, ast.Yield, ast.YieldFrom)):
                risky.append(s)
            elif isinstance(n, ast.Call):
                tgt = repo.resolve_call(e, n) if hasattr(repo, "resolve_call") else None
                d = dotted(n.func) or ""
                if tgt is not None or d.startswith("self."):
                    risky.append(s)
    ok = len(parse) == 1 and not risky
    ck.ob("Engine.execute: outside the catch-all only the cached parse/validate call runs package code", ok, e, (risky or outside or [e.node])[0],
          construct="engine:outside", detail=str([unparse(s)[:60] for s in outside]))
    from .. import parsegate
    parsegate.check(ck, repo, tag="parse")
    # build_response itself cannot fail before the user coercer: execute.execute funnels everything through it
    x = repo.func("tartiflette/execution/execute.py", "execute")
    xv = FuncView(x)
    rb = [c for c in xv.calls("response_builder")]
    ck.ob("execute.execute answers through the response builder on both exits", len(rb) == 2 and all(xv.is_awaited(c) for c in rb), x, x.node,
          construct="execute:response-builder")
