"""C16 - the query cache and request history never change a response (purity + key)."""
from __future__ import annotations

import ast

from ..effects import write_sites
from ..model import AnalysisError, dotted, unparse, walk_no_nested
from ..phases import PARSE_ENTRY, phases
from ..q import FuncView, arg_text, callee_last, ifexp_parts, kwargs
from ..validation import Wiring

EXPLANATION = (
    "The cached function parse_and_validate_query(query, schema) is decided pure with respect to everything but its two "
    "parameters: no function it can reach is an engine method or touches the process-global registry, every write it can "
    "perform goes to objects created by that parse, its result is not mutated afterwards (C15), both entry points call it "
    "with exactly (query, engine schema), schema hashing is consistent with equality, every schema attribute it reads is "
    "written only while cooking, the cache decorator is applied per engine, and cached errors are rendered without "
    "mutation. Not decided: behaviour of user-supplied cache decorators."
)


def check(ck):
    repo = ck.repo
    ph = phases(repo)
    g = ph.graph
    w = Wiring(repo)
    ck.count("parse_phase_functions", len(ph.parse_set), 120)
    with ck.rule("R1"):
        f = g.funcs[PARSE_ENTRY]
        ck.ob("the cached function takes exactly (query, schema): nothing request-specific can influence the cached value", f.positional_params == ["query", "schema"]
              and not f.node.args.kwonlyargs and f.node.args.vararg is None and f.node.args.kwarg is None, f, f.node, construct="pure:signature")
        eng = [fq for fq in ph.parse_set if fq.startswith("tartiflette.engine.")]
        ck.ob("no engine function is reachable from the cached function", not eng, f, f.node, construct="pure:no-engine", detail=str(eng[:3]))
        reg = [fq for fq in ph.parse_set if ".schema.registry." in fq or ".schema.bakery." in fq]
        ck.ob("the process-global registry is not reachable from the cached function", not reg, f, f.node, construct="pure:no-registry", detail=str(reg[:3]))
        # free variables of the parse functions: no nonlocal/global statements
        trusted = set(w.ctx_writes) | {k for s in w.sites for k in s.kw} | {"errors", "validators"}
        from ..effects import Provenance
        prov = Provenance(g, ph.parse_set, trusted_params=trusted)
        sites = ph.sites(ph.parse_set)
        ck.count("parse_phase_write_sites", len(sites), 150)
        n = 0
        for fn, s, c, why in sites:
            ok, reason = ph.judge(fn, s, c, why, prov)
            if c in ("FRESH", "SELF-PER-REQUEST") and ok:
                continue
            n += 1
            if ok and n > 60:
                continue
            ck.ob(f"{fn.qualname}: `{s.text[:50]}` writes an object created by this parse", ok, fn, s.node,
                  construct=f"write:{fn.qualname}:{s.receiver_text()[:50]}:{s.kind}:{s.detail}", detail=reason)
        ck.ob("PARSE-phase write census classified", True, where="tartiflette/", construct="pure:census", evals=len(sites))
        ck.sample({"parse_phase_functions": len(ph.parse_set), "write_sites": len(sites), "examined_individually": n})
        # reads of `schema` never write it
        bad = [(fn, s) for fn, s, c, why in sites if (s.root in ("schema",) or "schema" in [a for a in _chain(s.receiver)]) and fn.name != "__init__"]
        ck.ob("no PARSE-phase write goes through the schema", not bad, where="tartiflette/", construct="pure:schema-readonly",
              detail=str([(fn.short, s.text[:40]) for fn, s in bad[:3]]))
    with ck.rule("R2"):
        for name in ("Engine.execute", "Engine.subscribe"):
            f = repo.func("tartiflette/engine.py", name)
            from ..q import inlined_view as _iv
            c = _iv(repo, f).maybe_call("_cached_parse_and_validate_query")
            ok = c is not None and [unparse(a) for a in c.args] == [f.positional_params[1], "self._schema"] and not c.keywords
            ck.ob(f"{name}: the cached function is called with exactly (query, self._schema)", ok, f, c or f.node, construct=f"key:{name}")
        sc = repo.cls("tartiflette/schema/schema.py", "GraphQLSchema")
        h = sc.methods.get("__hash__")
        e = sc.methods.get("__eq__")
        hashed = {x.attr for x in ast.walk(h.node) if isinstance(x, ast.Attribute) and isinstance(x.value, ast.Name) and x.value.id == "self"} if h else set()
        compared = {x.attr for x in ast.walk(e.node) if isinstance(x, ast.Attribute) and isinstance(x.value, ast.Name) and x.value.id == "self"} if e else set()
        ck.ob("GraphQLSchema.__hash__ uses only fields compared by __eq__ (equal schemas hash equally)", bool(hashed) and hashed <= compared, h, h.node if h else sc.node,
              construct="key:hash-eq", detail=f"hashed {sorted(hashed)} compared {sorted(compared)}")
        ck.ob("GraphQLSchema.__eq__ starts with identity (an engine's own schema always matches itself)", e is not None and "self is other" in unparse(e.node), e,
              e.node if e else sc.node, construct="key:identity")
        # schema attributes read while parsing are written only while cooking
        reads = set()
        for fq in ph.parse_set:
            fn = g.funcs[fq]
            for x in walk_no_nested(fn.node):
                if isinstance(x, ast.Attribute) and isinstance(x.ctx, ast.Load) and dotted(x.value) in ("schema", "validators.schema", "self.schema"):
                    reads.add(x.attr)
        attrs = set(sc.self_attrs()) | {"json_loader"}
        request_phase = ph.exec_set | ph.parse_set
        n = 0
        for a in sorted(reads & attrs):
            writers = []
            for fn in repo.all_funcs():
                for s in write_sites(fn):
                    if s.kind == "store-attr" and s.detail in (a, "_" + a) and (s.root in ("schema", "self") and (fn.cls is sc or s.root == "schema") or unparse(s.receiver) == "self._schema"):
                        writers.append(fn)
            n += 1
            late = [fn.short for fn in writers if fn.fq in request_phase and fn.name != "__init__" and not fn.decorators]
            ck.ob(f"schema attribute `{a}` read while parsing is written only while cooking", not late, where="tartiflette/schema/schema.py", construct=f"key:attr:{a}",
                  detail=f"writers: {sorted({fn.short for fn in writers})}")
        ck.count("schema_attributes_read_while_parsing", n, 2)
    with ck.rule("R3"):
        from ..pathtab import outcome_rows, truth
        c = repo.func("tartiflette/engine.py", "Engine.cook")
        i = repo.func("tartiflette/engine.py", "Engine.__init__")
        # what each path stores (locals resolved), whatever the spelling: conditional expression, if/else, reassigned parameter
        seen = set()
        from ..q import inlined_view
        for row in outcome_rows(inlined_view(repo, i)):
            v = row["sym"].get("@self._query_cache_decorator")
            seen.add((truth(row, "query_cache_decorator is UNDEFINED_VALUE"), unparse(v) if v is not None else None))
        ck.ob("Engine.__init__: the default cache is an lru_cache created per engine instance (not shared between engines), a given decorator is kept",
              seen == {("T", "lru_cache(maxsize=512)"), ("F", "query_cache_decorator")}, i, i.node, construct="config:default", detail=str(sorted(map(str, seen))))
        seen = set()
        fc = {"self._cached_parse_and_validate_query", "query_cache_decorator"}
        for row in outcome_rows(inlined_view(repo, c, focus=fc)):
            v = row["sym"].get("@self._cached_parse_and_validate_query")
            if v is None:
                continue
            und = truth(row, "query_cache_decorator is UNDEFINED_VALUE")
            dec = "self._query_cache_decorator" if und == "T" else "query_cache_decorator"
            call = truth(row, f"callable({dec})")
            seen.add((und, call, unparse(v)))
        want = {(u, "T", f"{d}(parse_and_validate_query)") for u, d in (("T", "self._query_cache_decorator"), ("F", "query_cache_decorator"))} | \
            {(u, "F", "parse_and_validate_query") for u in ("T", "F")}
        ck.ob("Engine.cook: an unspecified decorator falls back to the engine's own; a callable decorator is applied to parse_and_validate_query, anything else means no cache",
              seen == want, c, c.node, construct="config:cook", detail=str(sorted(map(str, seen))))
        no_other_cache(ck, repo)
    with ck.rule("R5"):
        _r5(ck, repo, ph)
    with ck.rule("R4"):
        cv = repo.func("tartiflette/types/exceptions/tartiflette.py", "TartifletteError.coerce_value")
        stores = [s for s in write_sites(cv) if s.root == "self"]
        ck.ob("coerce_value performs no store on the (possibly cached) error object", not stores, cv, stores[0].node if stores else cv.node, construct="render:pure")
        ext = [n for n in walk_no_nested(cv.node) if isinstance(n, ast.Assign) and isinstance(n.targets[0], ast.Subscript) and unparse(n.targets[0].slice) == "'extensions'"]
        ok = len(ext) == 1 and unparse(ext[0].value) in ("dict(self.extensions)", "{**self.extensions}", "self.extensions.copy()")
        ck.ob("coerce_value hands out a fresh copy of `extensions` (error coercers may edit the dict they receive)", ok, cv, ext[0] if ext else cv.node, construct="render:extensions-copy")
        rule = repo.func("tartiflette/language/validators/query/rule.py", "ValidationRule.__init__")
        a = repo.cls("tartiflette/language/validators/query/rule.py", "ValidationRule").self_attrs()
        ck.ob("each rule object owns one `_extensions` dict shared by all of its errors (why the copy above matters)", isinstance(a.get("_extensions"), ast.Dict), rule, rule.node,
              construct="render:shared-extensions")
        p = repo.func("tartiflette/engine.py", "Engine._perform_query")
        pv = FuncView(p)
        flag = p.positional_params[3]
        muts = [s for s in write_sites(p) if s.root == flag]
        ck.ob("_perform_query does not mutate the cached error list", not muts, p, muts[0].node if muts else p.node, construct="render:errors-list")
        b = repo.func("tartiflette/execution/response.py", "build_response")
        muts = [s for s in write_sites(b) if s.root == b.positional_params[2]]
        ck.ob("build_response does not mutate the error list it renders", not muts, b, muts[0].node if muts else b.node, construct="render:build-response")


def _r5(ck, repo, ph):
    """The cached value (document, validation errors) is not mutated by the requests served from it:
    the EXEC-phase effect census of C15 (a document or error list written after the cache lookup makes
    the next hit answer differently from a miss)."""
    from . import c15
    sites = ph.sites(ph.exec_set)
    c15.r1(ck, ph, sites)
    c15.r2(ck, ph, sites)
    b = repo.func("tartiflette/execution/context.py", "build_execution_context")
    binds = [n for n in walk_no_nested(b.node) if isinstance(n, (ast.Assign, ast.AnnAssign)) and unparse(n.targets[0] if isinstance(n, ast.Assign) else n.target) == "errors"]
    from ..effects import is_fresh_expr
    from ..pathtab import outcome_rows
    from ..q import inlined_view
    leaks = []
    for r in outcome_rows(inlined_view(repo, b)):
        if isinstance(r["ret"], ast.Tuple) and len(r["ret"].elts) == 2:
            second = unparse(r["ret"].elts[1])
            if "validators" in second or second.replace(" ", "").startswith("document.") or ".document." in second:
                leaks.append(second[:80])
    ck.ob("build_execution_context collects request errors in a fresh list (not in a list owned by the cached document)",
          all(is_fresh_expr(x.value) or isinstance(x.value, (ast.Call, ast.Await)) for x in binds if x.value is not None) and not leaks, b,
          binds[0] if binds else b.node, construct="cached-value:errors-fresh", detail=str(leaks[:2]))


def _chain(e):
    out = []
    while isinstance(e, (ast.Attribute, ast.Subscript, ast.Call)):
        if isinstance(e, ast.Attribute):
            out.append(e.attr)
            e = e.value
        elif isinstance(e, ast.Subscript):
            e = e.value
        else:
            e = e.func
    return out


def no_other_cache(ck, repo):
    """No function of the package is memoised (functools caches as decorators or as module-level wrappers): such a cache is
    process-wide state - shared by every request, every engine and every schema name (shared with C17.R3)."""
    mods = [f"{m.relpath}::{k}" for m in repo.modules.values() for k, v in m.assigns.items() if isinstance(v, ast.Call) and ("lru_cache" in unparse(v.func) or unparse(v.func).endswith("cache"))]
    deco = [f.short for f in repo.all_funcs() if any("lru_cache" in d or d in ("cache", "functools.cache") or d.endswith(".cache") for d in f.decorators)]
    ck.ob("no module-level cache or cached function in the package (all caching goes through the engine's decorator)", not mods and not deco, where="tartiflette/",
          construct="config:no-other-cache", detail=str(mods + deco))
    for name in deco:
        ck.ob(f"{name} is not memoised", False, where=name, construct=f"global:memoised:{name.split('::')[-1]}", detail="a functools cache keeps what it returned for the life of the process: callers that extend or "
              "rebind parts of the cached object change what the next caller - another engine, another schema name - receives")
