"""C13 - directive hooks wrap their target exactly once, nested in declaration order."""
from __future__ import annotations

import ast
import itertools

from ..model import AnalysisError, dotted, unparse, walk_no_nested
from ..pathtab import Atoms, canon, evaluate
from ..q import FuncView, arg, arg_text, callee_last, contains, ifexp_parts, kwargs, strip_await
from .c04 import _ret_class

EXPLANATION = (
    "Wrapper composition decided structurally: wraps_with_directives folds the directive list last-to-first so the "
    "first declared directive is outermost, wraps only directives defining the hook; the executor calls the hook once "
    "with that instance's coerced arguments and a partial of the wrapped callable; a wiring table says which hook is "
    "bound to which coercer slot of every schema element class (same callable on the input and literal side, output "
    "hooks once on the abstract->object path); the stage order follows from call nesting (coercer before input hooks, "
    "output hooks before serialisation, argument hook on the coerced value, query-side wrap around the baked resolver); "
    "literal-side type hooks are skipped exactly for top-level variables. Not decided: the induction over 0-3 directives "
    "per element (follows from the fold + once rules, stated not mechanised)."
)
UD = "tartiflette/utils/directives.py"


def check(ck):
    repo = ck.repo
    with ck.rule("R1"):
        f = repo.func(UD, "wraps_with_directives")
        fv = FuncView(f)
        p = f.positional_params  # directives_definition, directive_hook, func, is_resolver, with_default, is_async_generator
        wraps_with_directives_terms(ck, repo)
        for name, pos in (("default_argument_execution_directive", 3), ("default_post_input_coercion_directive", 1), ("default_directive_callable", 0)):
            g = repo.func(UD, name)
            r = FuncView(g).returns()
            ck.ob(f"{name} returns the value it is given unchanged", len(r) == 1 and unparse(r[0].value) == g.positional_params[pos], g, g.node, construct=f"identity:{name}")
        tbl = repo.mod(UD).assigns.get("_HOOK_CALLABLES_MAP")
        got = {k.value: unparse(v) for k, v in zip(tbl.keys, tbl.values)} if isinstance(tbl, ast.Dict) else {}
        ck.ob("identity callables are registered for the hooks whose value is not the first operand",
              got == {"on_argument_execution": "default_argument_execution_directive", "on_post_input_coercion": "default_post_input_coercion_directive"}, where=UD,
              construct="identity:table", detail=str(got))
    with ck.rule("R2"):
        e = repo.func(UD, "directive_executor")
        ev = FuncView(e)
        q = e.positional_params  # directive_func, directive_arguments_coercer, wrapped_func
        hc = [c for c in ev.calls() if isinstance(c.func, ast.Name) and c.func.id == q[0]]
        ok = len(hc) == 1 and ev.is_awaited(hc[0]) and isinstance(ev.stmt_of(hc[0]), ast.Return) and not ev.loops()
        ck.ob("directive_executor: the hook is called exactly once and its value returned", ok, e, hc[0] if hc else e.node, construct="once:executor")
        if hc:
            a = hc[0].args
            ok = len(a) == 3 and unparse(a[0]) == f"await {q[1]}(ctx=context_coercer)" and unparse(a[1]) == f"partial({q[2]}, context_coercer=context_coercer)" and unparse(a[2]) == "*args" \
                and [unparse(k.value) for k in hc[0].keywords if k.arg is None] == ["kwargs"]
            ck.ob("directive_executor: the hook gets (its instance's coerced arguments, the next callable, *the call's operands)", ok, e, hc[0], construct="once:executor-operands")
        gfn = repo.func(UD, "directive_generator")
        gv = FuncView(gfn)
        hc = [c for c in gv.calls() if isinstance(c.func, ast.Name) and c.func.id == gfn.positional_params[0]]
        ok = len(hc) == 1 and [unparse(x) for x in hc[0].args][:2] == [f"await {gfn.positional_params[1]}(ctx=context_coercer)", f"partial({gfn.positional_params[2]}, context_coercer=context_coercer)"]
        ck.ob("directive_generator: the generator hook is entered exactly once with the same operands", ok, gfn, hc[0] if hc else gfn.node, construct="once:generator")
        re_ = repo.func(UD, "resolver_executor")
        rv = FuncView(re_)
        rc = [c for c in rv.calls() if isinstance(c.func, ast.Name) and c.func.id == re_.positional_params[0]]
        ck.ob("resolver_executor: calls the raw resolver exactly once", len(rc) == 1 and rv.is_awaited(rc[0]) and not rv.loops(), re_, rc[0] if rc else re_.node, construct="once:resolver")
        sg = repo.func(UD, "subscription_generator")
        for g in (gfn, sg):
            lps = [n for n in walk_no_nested(g.node) if isinstance(n, ast.AsyncFor)]
            ok = len(lps) == 1 and len(lps[0].body) == 1 and isinstance(lps[0].body[0], ast.Expr) and isinstance(lps[0].body[0].value, ast.Yield) and \
                unparse(lps[0].body[0].value.value) == unparse(lps[0].target) and not lps[0].orelse
            ck.ob(f"{g.name}: every payload of the wrapped generator is passed on, unchanged, once", ok, g, lps[0] if lps else g.node, construct=f"once:{g.name}:pass-through")
        for g, callee in ((re_, re_.positional_params[0]), (sg, sg.positional_params[0])):
            gv2 = FuncView(g)
            pops = [x for x in gv2.calls("pop") if unparse(x) == "kwargs.pop('context_coercer', None)"]
            call = [x for x in gv2.calls() if isinstance(x.func, ast.Name) and x.func.id == callee]
            ok = len(pops) == 1 and len(call) == 1 and gv2.dominated_by(call[0], pops[0]) and [unparse(a) for a in call[0].args] == ["*args"] and \
                [unparse(k.value) for k in call[0].keywords if k.arg is None] == ["kwargs"] and not [k for k in call[0].keywords if k.arg]
            ck.ob(f"{g.name}: the user callable gets exactly the call's operands - the engine-only `context_coercer` keyword is removed first", ok, g, call[0] if call else g.node,
                  construct=f"once:{g.name}:operands")
        from .c01 import _resolver_call
        _resolver_call(ck, repo)
        rf = repo.func("tartiflette/resolver/factory.py", "resolve_field_value_or_error")
        rfv = FuncView(rf)
        rp = rf.positional_params
        w = rfv.maybe_call("wraps_with_directives")
        kw = {k: unparse(v) for k, v in kwargs(w).items()} if w is not None else {}
        st = rfv.stmt_of(w) if w is not None else None
        ok = kw == {"directives_definition": "computed_directives", "directive_hook": "'on_field_execution'", "func": rp[3], "is_resolver": "True", "with_default": "True"} and \
            isinstance(st, ast.Assign) and unparse(st.targets[0]) == rp[3] and set(rfv.conditions(w)) == {("computed_directives", "T")}
        ck.ob("resolve_field_value_or_error: directives written on the field in the query wrap the effective resolver (on_field_execution), exactly when there are some", ok, rf,
              w or rf.node, construct="query-directives:wrap", detail=str(kw))
        ok, cdn = query_directives_collected(repo, rf)
        ck.ob("resolve_field_value_or_error: the query directives of *every* merged field node are collected, in order, with the request's variables", ok, rf, cdn or rf.node,
              construct="query-directives:collect")
        c = repo.func("tartiflette/types/helpers/get_directive_instances.py", "compute_directive_nodes")
        cv = FuncView(c)
        rets = cv.returns()
        emp = [r for r in rets if unparse(r.value) == "[]"]
        fin = [r for r in rets if unparse(r.value) == "computed_directives"]
        ck.ob("compute_directive_nodes: no directive nodes -> no directives; otherwise the computed list is returned", len(rets) == 2 and len(emp) == 1 and len(fin) == 1 and
              set(cv.conditions(emp[0])) == {(c.positional_params[1], "F")}, c, c.node, construct="instances:returns")
        lp = [l for l in cv.loops() if isinstance(l, ast.For) and unparse(l.iter) == c.positional_params[1]]
        ap = [x for x in cv.calls("append")]
        ok = len(lp) == 1 and len(ap) == 1 and contains(lp[0], ap[0]) and not any(isinstance(n, (ast.Break, ast.Continue, ast.Return)) for n in walk_no_nested(lp[0]))
        ck.ob("compute_directive_nodes: one entry per directive instance, in declaration order", ok, c, lp[0] if lp else c.node, construct="instances:one-per-node")
        pc, bound_kw = bound_coerce_arguments(repo, c)
        ok = bound_kw == {
            "argument_definitions": "directive_definition.arguments", "node": unparse(lp[0].target) if lp else "?", "variable_values": f"{c.positional_params[2]} or {{}}",
            "coercer": "directive_definition.arguments_coercer"}
        pc = [pc] if pc is not None else []
        ck.ob("compute_directive_nodes: each instance's arguments coercer is bound to that instance's node and definition", ok, c, pc[0] if pc else c.node, construct="instances:arguments")
        fd = cv.maybe_call("find_directive")
        ck.ob("compute_directive_nodes: the definition is looked up by the instance's name", fd is not None and lp and unparse(fd.args[0]) == f"{unparse(lp[0].target)}.name.value", c,
              fd or c.node, construct="instances:definition")
        t = repo.func("tartiflette/types/helpers/get_directive_instances.py", "transform_directive")
        r = FuncView(t).returns()
        ok = len(r) == 1 and isinstance(r[0].value, ast.Dict) and {unparse(k): unparse(v) for k, v in zip(r[0].value.keys, r[0].value.values)} == {
            "'callables'": f"get_callables({t.positional_params[0]}.implementation)", "'arguments_coercer'": t.positional_params[1]}
        ck.ob("transform_directive: hooks come from the directive's implementation, the arguments coercer is the instance's", ok, t, t.node, construct="instances:transform")
    with ck.rule("R3"):
        _wiring_table(ck, repo)
    with ck.rule("R4"):
        _stage_order(ck, repo)
    with ck.rule("R5"):
        f = repo.func("tartiflette/coercers/literals/directives_coercer.py", "literal_directives_coercer")
        fv = FuncView(f)
        atoms = Atoms({"directives": "has_directives", "isinstance(node, VariableNode)": "is_variable", "is_input_field": "is_input_field", "errors": "errors"})
        atoms.funcs.append(lambda e, t: "invalid" if t.startswith("is_invalid_value(") else ("errors" if t.endswith(")[1]") else None))
        directive_tables(ck, repo)
        b = repo.func("tartiflette/types/input_field.py", "GraphQLInputField.bake")
        st = {unparse(n.targets[0]): n.value for n in walk_no_nested(b.node) if isinstance(n, ast.Assign)}
        ck.ob("GraphQLInputField.bake marks its literal coercer as an input field (its own hooks always run)", arg_text(st.get("self.literal_coercer"), None, "is_input_field") == "True", b,
              b.node, construct="literal-hooks:input-field-flag")


def directive_tables(ck, repo):
    """Hooks run exactly when there are hooks, the coercion succeeded with a valid value, and - on the literal
    side - the node is not a top-level variable (shared with C05.R3)."""
    for rel, name in (("tartiflette/coercers/literals/directives_coercer.py", "literal_directives_coercer"), ("tartiflette/coercers/inputs/directives_coercer.py", "input_directives_coercer")):
        f = repo.func(rel, name)
        fv = FuncView(f)
        literal = name.startswith("literal")
        atoms = Atoms({"directives": "has_directives", "isinstance(node, VariableNode)": "is_variable", "is_input_field": "is_input_field", "errors": "errors"})
        atoms.funcs.append(lambda e, t: "invalid" if t.startswith("is_invalid_value(") else ("errors" if t.endswith(")[1]") else None))
        dc = [c for c in fv.calls() if isinstance(c.func, ast.Name) and c.func.id == "directives"]
        preds = ["has_directives", "is_variable", "is_input_field", "invalid", "errors"] if literal else ["has_directives", "errors"]
        for bits in itertools.product([False, True], repeat=len(preds)):
            val = dict(zip(preds, bits))
            if val.get("invalid") and val.get("errors"):
                continue
            skip_var = literal and val["is_variable"] and not val["is_input_field"]
            want = "hooks" if val["has_directives"] and not skip_var and not val.get("invalid", False) and not val["errors"] else "no-hooks"
            got = set()
            for tr in fv.cfg.simulate(lambda n, env: evaluate(n.ast, env, val, atoms)):
                called = any(n.kind == "stmt" and dc and contains(n.ast, dc[0]) for n in tr.nodes)
                got.add("hooks" if called else "no-hooks")
            ck.ob(f"{name} table {val}", got == {want}, f, f.node, construct=f"{name}:hooks:" + "".join(str(int(v)) for v in val.values()),
                  detail=f"got {sorted(got)}, want {want}" + atoms.note())
    # ---- directives coercers: coercer first, hooks only on success
    for rel, name in (("tartiflette/coercers/literals/directives_coercer.py", "literal_directives_coercer"), ("tartiflette/coercers/inputs/directives_coercer.py", "input_directives_coercer")):
        f = repo.func(rel, name)
        fv = FuncView(f)
        cc = [c for c in fv.calls() if isinstance(c.func, ast.Name) and c.func.id == "coercer"]
        dc = [c for c in fv.calls() if isinstance(c.func, ast.Name) and c.func.id == "directives"]
        ok = len(cc) == 1 and len(dc) == 1 and fv.dominated_by(dc[0], fv.stmt_of(cc[0]))
        ck.ob(f"{name}: the coercer runs before the hooks", ok, f, dc[0] if dc else f.node, construct=f"{name}:order")
        if cc:
            pp = f.positional_params
            if name == "literal_directives_coercer":
                want_args, want_kw = [pp[0], pp[1], pp[2]], {"variables": "variables", "path": "path", "is_non_null_type": "is_non_null_type"}
            else:
                want_args, want_kw = [pp[0], pp[1], pp[2], pp[3]], {"path": "path"}
            got_kw = {k: unparse(v) for k, v in kwargs(cc[0]).items()}
            ck.ob(f"{name}: forwards all of its operands to the wrapped coercer ({', '.join(want_args + sorted(want_kw))})", [unparse(a) for a in cc[0].args] == want_args and got_kw == want_kw
                  and fv.is_awaited(cc[0]), f, cc[0], construct=f"{name}:forwards",
                  detail="dropping `is_non_null_type` silently disables the null-in-non-null check for variables nested in literals" if name.startswith("literal") else None)
        rets = fv.returns()
        shapes = sorted({("coercion_result" if unparse(r.value) == "coercion_result" else ("hooked" if unparse(r.value).startswith("CoercionResult(value=await directives(") else
                                                                                            ("hook-error" if unparse(r.value).startswith("CoercionResult(errors=[graphql_error_from_nodes(") else "other")))
                         for r in rets})
        n_plain = len([r for r in rets if unparse(r.value) == "coercion_result"])
        ck.ob(f"{name}: every exit hands back the coercion result, the hooked value or the hooks' failure as an error result", shapes == ["coercion_result", "hook-error", "hooked"] and
              not any(r.value is None for r in rets) and n_plain == len(rets) - 2, f, f.node, construct=f"{name}:return-shapes", detail=str(shapes))
        if dc:
            ok = fv.guarded(dc[0], lambda t: t == "errors", "F") and fv.guarded(dc[0], lambda t: t == "directives", "T")
            ck.ob(f"{name}: hooks run only on a successful coercion", ok, f, dc[0], construct=f"{name}:on-success")
            ok = [unparse(a) for a in dc[0].args][:3] == [f.positional_params[0], "value", "ctx"] and fv.in_broad_try(dc[0]) is not None
            ck.ob(f"{name}: hooks get (parent node, coerced value, ctx) and their failures become error results", ok, f, dc[0], construct=f"{name}:hook-operands")
        hs = fv.handlers()
        comp = [n for h in hs for n in ast.walk(h) if isinstance(n, ast.ListComp)]
        ok = False
        if len(hs) == 1 and len(comp) == 1 and hs[0].name:
            e = hs[0].name
            g = comp[0].generators[0]
            it = ifexp_parts(g.iter) if isinstance(g.iter, ast.IfExp) else None
            el = comp[0].elt
            oe = arg(el, None, "original_error") if isinstance(el, ast.Call) else None
            oep = ifexp_parts(oe) if isinstance(oe, ast.IfExp) else None
            x = unparse(g.target)
            ok = it == (f"isinstance({e}, MultipleException)", f"{e}.exceptions", f"[{e}]") and not g.ifs and callee_last(el) == "graphql_error_from_nodes" and \
                [unparse(a) for a in el.args] == [f"str({x})", f.positional_params[1]] and oep == (f"is_coercible_exception({x})", "None", x)
        ck.ob(f"{name}: a hook failure yields one error per raised exception (all members of a MultipleException), located at the value's node, keeping a foreign exception as original_error",
              ok, f, comp[0] if comp else f.node, construct=f"{name}:hook-errors")


HOOK_SITES = [
    # (file, class, slot assigned, hook, with_default)
    ("tartiflette/types/scalar.py", "GraphQLScalarType"), ("tartiflette/types/enum.py", "GraphQLEnumType"), ("tartiflette/types/enum.py", "GraphQLEnumValue"),
    ("tartiflette/types/object.py", "GraphQLObjectType"), ("tartiflette/types/interface.py", "GraphQLInterfaceType"), ("tartiflette/types/union.py", "GraphQLUnionType"),
    ("tartiflette/types/input_object.py", "GraphQLInputObjectType"), ("tartiflette/types/input_field.py", "GraphQLInputField"), ("tartiflette/types/argument.py", "GraphQLArgument"),
    ("tartiflette/types/field.py", "GraphQLField"),
]
EXPECT = {
    "GraphQLScalarType": {"on_introspection", "on_post_input_coercion", "on_pre_output_coercion"},
    "GraphQLEnumType": {"on_introspection", "on_post_input_coercion", "on_pre_output_coercion"},
    "GraphQLEnumValue": {"on_post_bake", "on_introspection", "on_post_input_coercion", "on_pre_output_coercion"},
    "GraphQLObjectType": {"on_introspection", "on_pre_output_coercion"},
    "GraphQLInterfaceType": {"on_introspection", "on_pre_output_coercion"},
    "GraphQLUnionType": {"on_introspection", "on_pre_output_coercion"},
    "GraphQLInputObjectType": {"on_introspection", "on_post_input_coercion"},
    "GraphQLInputField": {"on_introspection", "on_post_input_coercion"},
    "GraphQLArgument": {"on_introspection", "on_argument_execution"},
    "GraphQLField": {"on_post_bake", "on_introspection", "on_field_execution"},
}


def _wiring_table(ck, repo):
    sch = repo.mod("tartiflette/schema/schema.py").constants()
    allowed = set(sch.get("_IMPLEMENTABLE_DIRECTIVE_FUNCTION_HOOKS", ())) | set(sch.get("_IMPLEMENTABLE_DIRECTIVE_GENERATOR_HOOKS", ()))
    n_sites = 0
    names = set()
    for f in repo.all_funcs():
        for c in FuncView(f).calls("wraps_with_directives"):
            n_sites += 1
            h = arg(c, 1, "directive_hook")
            if isinstance(h, ast.Constant):
                names.add(h.value)
                ck.ob(f"{f.qualname}: hook name `{h.value}` is one a directive may implement", h.value in allowed, f, c, construct=f"hook-name:{f.qualname}:{h.value}")
            elif f.name != "should_include_node":
                ck.ob(f"{f.qualname}: the hook name is a literal", False, f, c, construct=f"hook-name:{f.qualname}:dynamic")
    ck.count("wraps_with_directives_sites", n_sites, 25)
    for rel, cls in HOOK_SITES:
        b = repo.func(rel, f"{cls}.bake")
        bv = FuncView(b)
        hooks = {arg(c, 1, "directive_hook").value for c in bv.calls("wraps_with_directives") if isinstance(arg(c, 1, "directive_hook"), ast.Constant)}
        ck.ob(f"{cls}.bake wires exactly the hooks {sorted(EXPECT[cls])}", hooks == EXPECT[cls], b, b.node, construct=f"wiring:{cls}", detail=f"found {sorted(hooks)}")
        for c in bv.calls("wraps_with_directives"):
            dd = arg_text(c, 0, "directives_definition")
            ck.ob(f"{cls}.bake: every wrap uses this element's own directives", dd == "directives_definition", b, c, construct=f"wiring:{cls}:own-directives:{arg_text(c, 1, 'directive_hook')}")
        src = [n for n in walk_no_nested(b.node) if isinstance(n, ast.Assign) and unparse(n.targets[0]) == "directives_definition"]
        ck.ob(f"{cls}.bake: the directives are computed from self.directives", len(src) == 1 and unparse(src[0].value) == "compute_directive_nodes(schema, self.directives)", b,
              src[0] if src else b.node, construct=f"wiring:{cls}:source")
    _bake_cascade(ck, repo)
    from .c12 import bake_pipeline
    bake_pipeline(ck, repo)
    # output side: hook callable lives in the output_coercer (and only there) for leaf/composite types
    for rel, cls in HOOK_SITES[:6]:
        if cls == "GraphQLEnumValue":
            b = repo.func(rel, f"{cls}.bake")
            st = {unparse(n.targets[0]): n.value for n in walk_no_nested(b.node) if isinstance(n, ast.Assign)}
            v = st.get("self.output_coercer")
            ck.ob("GraphQLEnumValue.bake: output_coercer is the on_pre_output_coercion chain", isinstance(v, ast.Call) and arg_text(v, None, "directive_hook") == "'on_pre_output_coercion'", b,
                  b.node, construct="wiring:GraphQLEnumValue:output")
            continue
        b = repo.func(rel, f"{cls}.bake")
        st = {unparse(n.targets[0]): n.value for n in walk_no_nested(b.node) if isinstance(n, ast.Assign)}
        v = st.get("self.output_coercer")
        d = kwargs(v).get("directives") if isinstance(v, ast.Call) else None
        if isinstance(d, ast.Name) or isinstance(d, ast.Attribute):
            d = st.get(unparse(d))
        ok = isinstance(d, ast.Call) and callee_last(d) == "wraps_with_directives" and arg_text(d, None, "directive_hook") == "'on_pre_output_coercion'" and arg_text(d, None, "with_default") == "True"
        ck.ob(f"{cls}.bake: output_coercer runs the on_pre_output_coercion chain (with the identity default)", ok, b, b.node, construct=f"wiring:{cls}:output")
    # abstract -> object: the object's hook is applied once
    a = repo.func("tartiflette/coercers/outputs/abstract_coercer.py", "abstract_coercer")
    av = FuncView(a)
    pre = av.maybe_call("pre_output_coercion_directives")
    cov = av.maybe_call("complete_object_value")
    from ..pathtab import outcome_rows as _rows
    from ..q import bound_args
    arow = [r_ for r_ in _rows(av) if r_["exit"] == "return_exit"]
    sub_ = arow[0]["sym"]["__sub__"] if arow else (lambda e_: e_)
    cb = (bound_args(repo, a.module, cov, sub_) or {}) if cov is not None else {}
    cpp = repo.func("tartiflette/coercers/outputs/common.py", "complete_object_value").positional_params
    ev_ = av.maybe_call("ensure_valid_runtime_type")
    # the first operand of the completion is the awaited hook chain of the *validated runtime type*, on this path
    ok = pre is not None and cov is not None and ev_ is not None and unparse(sub_(pre.func.value)) == unparse(sub_(ev_)) and \
        cb.get(cpp[0]) == "await " + unparse(sub_(pre)) and not av.calls("output_coercer")
    ck.ob("abstract_coercer: applies the runtime object type's output hooks once, then completes the object directly (not through the object's output_coercer, which would run them twice)",
          ok, a, cov or a.node, construct="wiring:abstract-once")
    o = repo.func("tartiflette/types/object.py", "GraphQLObjectType.bake")
    st = {unparse(n.targets[0]): n.value for n in walk_no_nested(o.node) if isinstance(n, ast.Assign)}
    ok = arg_text(st.get("self.output_coercer"), None, "directives") == "self.pre_output_coercion_directives"
    ck.ob("GraphQLObjectType.bake: the callable used on the abstract path is the same one its own output_coercer uses", ok, o, o.node, construct="wiring:object-same-callable")
    # argument hook / field hook
    b = repo.func("tartiflette/types/argument.py", "GraphQLArgument.bake")
    st = {unparse(n.targets[0]): n.value for n in walk_no_nested(b.node) if isinstance(n, ast.Assign)}
    d = kwargs(st.get("self.coercer")).get("directives") if isinstance(st.get("self.coercer"), ast.Call) else None
    ck.ob("GraphQLArgument.bake: the argument coercer carries the on_argument_execution chain", isinstance(d, ast.Call) and arg_text(d, None, "directive_hook") == "'on_argument_execution'", b,
          b.node, construct="wiring:argument")
    b = repo.func("tartiflette/types/field.py", "GraphQLField.bake")
    bv = FuncView(b)
    for slot in ("arguments_coercer", "list_concurrently", "parent_concurrently"):
        default = "schema.default_arguments_coercer" if slot == "arguments_coercer" else f"schema.coerce_{slot}"
        got = {}
        for n in walk_no_nested(b.node):
            if isinstance(n, ast.Assign) and unparse(n.targets[0]) == f"self.{slot}":
                got[unparse(n.value)] = set(bv.conditions(n))
        want = {f"self.subscription_{slot}": {(f"self.subscription_{slot} is None", "F")},
                f"self.query_{slot}": {(f"self.subscription_{slot} is None", "T"), (f"self.query_{slot} is None", "F")},
                default: {(f"self.subscription_{slot} is None", "T"), (f"self.query_{slot} is None", "T")}}
        ck.ob(f"GraphQLField.bake: `{slot}` resolves subscription-level > resolver-level > schema default, each used exactly when the more specific ones are unset", got == want, b, b.node,
              construct=f"bake:precedence:{slot}", detail=str(got))
    w = [c for c in bv.calls("wraps_with_directives") if arg_text(c, None, "directive_hook") == "'on_field_execution'"]
    ok = len(w) == 1 and arg_text(w[0], None, "func") == f"self.raw_resolver or {b.positional_params[2]} or default_field_resolver" and arg_text(w[0], None, "is_resolver") == "True"
    ck.ob("GraphQLField.bake: on_field_execution wraps the raw resolver (schema-side, innermost)", ok, b, w[0] if w else b.node, construct="wiring:field")
    sc = repo.func("tartiflette/schema/schema.py", "GraphQLSchema.bake_execute")
    hooks = [arg_text(c, 1) for c in FuncView(sc).calls("wraps_with_directives")]
    ck.ob("bake_execute: schema-level hooks wrap the two executors", hooks == ["'on_schema_execution'", "'on_schema_subscription'"], sc, sc.node, construct="wiring:schema")


def _stage_order(ck, repo):
    o = repo.func("tartiflette/coercers/outputs/directives_coercer.py", "output_directives_coercer")
    ov = FuncView(o)
    p = o.positional_params
    cc = [c for c in ov.calls() if isinstance(c.func, ast.Name) and c.func.id == p[5]]
    dc = [c for c in ov.calls() if isinstance(c.func, ast.Name) and c.func.id == p[6]]
    ok = len(cc) == 1 and len(dc) == 1 and strip_await(cc[0].args[0]) is dc[0] and isinstance(cc[0].args[0], ast.Await) and [unparse(a) for a in cc[0].args[1:]] == p[1:5]
    ck.ob("output_directives_coercer: the hooks run first and their result is what gets serialised", ok, o, cc[0] if cc else o.node, construct="order:output")
    ok = len(dc) == 1 and [unparse(a) for a in dc[0].args] == [p[0], f"{p[2]}.context", p[1]]
    ck.ob("output_directives_coercer: the hooks get (resolved value, ctx, info)", ok, o, dc[0] if dc else o.node, construct="order:output-operands")
    for rel, name in (("tartiflette/coercers/inputs/directives_coercer.py", "input_directives_coercer"), ("tartiflette/coercers/literals/directives_coercer.py", "literal_directives_coercer")):
        f = repo.func(rel, name)
        fv = FuncView(f)
        cc = [c for c in fv.calls() if isinstance(c.func, ast.Name) and c.func.id == "coercer"]
        dc = [c for c in fv.calls() if isinstance(c.func, ast.Name) and c.func.id == "directives"]
        ok = len(cc) == 1 and len(dc) == 1 and fv.dominated_by(dc[0], fv.stmt_of(cc[0]))
        ck.ob(f"{name}: coercion first, hooks on the coerced value", ok, f, dc[0] if dc else f.node, construct=f"order:{name}")
        rets = [r for r in fv.returns() if dc and contains(r, dc[0])]
        ck.ob(f"{name}: what the hooks return is the value of the stage", len(rets) == 1 and unparse(rets[0].value).startswith("CoercionResult(value=await directives("), f,
              rets[0] if rets else f.node, construct=f"order:{name}:value")
    a = repo.func("tartiflette/coercers/argument.py", "argument_coercer")
    av = FuncView(a)
    dc = [c for c in av.calls() if isinstance(c.func, ast.Name) and c.func.id == "directives"]
    lc = av.maybe_call("literal_coercer")
    ok = len(dc) == 1 and lc is not None and av.cfg.can_reach(av.cfg_node(lc).id, av.cfg_node(dc[0]).id, skip_exc=True) and not av.cfg.can_reach(av.cfg_node(dc[0]).id, av.cfg_node(lc).id, skip_exc=True)
    ck.ob("argument_coercer: the argument hook runs after the value was coerced (type-level hooks are inside the literal coercer)", ok, a, dc[0] if dc else a.node, construct="order:argument")
    ck.ob("argument_coercer: the argument hook's return value is the argument's value", dc and isinstance(av.stmt_of(dc[0]), ast.Return), a, dc[0] if dc else a.node, construct="order:argument-value")
    _argument_hooks_on_every_value(ck, a)
    # output side: type-level hooks run inside the inner coercer - the non-null wrapper must let every value (a null too) reach it
    from .c02 import output_non_null_wrapper
    output_non_null_wrapper(ck, repo)
    r = repo.func("tartiflette/resolver/factory.py", "resolve_field_value_or_error")
    rv = FuncView(r)
    w = rv.maybe_call("wraps_with_directives")
    p = r.positional_params
    ok = w is not None and arg_text(w, None, "func") == p[3] and arg_text(w, None, "directive_hook") == "'on_field_execution'" and arg_text(w, None, "directives_definition") == "computed_directives" \
        and isinstance(rv.stmt_of(w), ast.Assign) and unparse(rv.stmt_of(w).targets[0]) == p[3]
    ck.ob("resolve_field_value_or_error: query-side field directives wrap the baked (schema-side wrapped) resolver, so they are outermost", ok, r, w or r.node, construct="order:query-side")
    ok, cdn_ = query_directives_collected(repo, r)
    ck.ob("resolve_field_value_or_error: query-side directives are taken from every merged field node, in order", ok, r, cdn_ or r.node, construct="order:query-side-nodes")
    rc = [c for c in rv.calls() if isinstance(c.func, ast.Name) and c.func.id == p[3]]
    ok = len(rc) == 1 and w is not None and rv.cfg.can_reach(rv.cfg_node(w).id, rv.cfg_node(rc[0]).id, skip_exc=True)
    ck.ob("resolve_field_value_or_error: the wrapped resolver is the one called", ok, r, rc[0] if rc else r.node, construct="order:wrapped-called")
    # enum: value-level hooks run on lookup result
    e = repo.func("tartiflette/coercers/outputs/enum_coercer.py", "enum_coercer")
    ev = FuncView(e)
    oc = ev.maybe_call("output_coercer")
    ok = oc is not None and unparse(oc.func.value) == "enum_value" and [unparse(a) for a in oc.args][:1] == [e.positional_params[0]]
    ck.ob("outputs.enum_coercer: the enum value's own output hooks run on the resolved value", ok, e, oc or e.node, construct="order:enum-value")


# (file, function, iterated collection, child call, operands, guards the call may sit under)
CASCADE = [
    ("tartiflette/types/field.py", "GraphQLField.bake", "self.arguments.values()", "bake", ["schema"], set()),
    ("tartiflette/types/directive.py", "GraphQLDirective.bake", "self.arguments.values()", "bake", ["schema"], set()),
    ("tartiflette/types/input_object.py", "GraphQLInputObjectType.bake_input_fields", "self.input_fields.values()", "bake", ["schema"], {("self.input_fields", "T")}),
    ("tartiflette/types/union.py", "GraphQLUnionType.bake_fields", "self._fields.values()", "bake", ["schema", "custom_default_resolver"], set()),
    ("tartiflette/types/interface.py", "GraphQLInterfaceType.bake_fields", "self.implemented_fields.values()", "bake", ["schema", "custom_default_resolver"], {("self.implemented_fields", "T")}),
    ("tartiflette/types/object.py", "GraphQLObjectType.bake_fields", "self.implemented_fields.values()", "bake", ["schema", "custom_default_resolver"], {("self.implemented_fields", "T")}),
    ("tartiflette/types/enum.py", "GraphQLEnumType.bake_enum_values", "self.values", "bake", ["schema"], set()),
    ("tartiflette/schema/schema.py", "GraphQLSchema._bake_types", "self._scalar_definitions.values()", "bake", ["self"], set()),
    ("tartiflette/schema/schema.py", "GraphQLSchema._bake_types", "self._directive_definitions.values()", "bake", ["self"], set()),
]


def _bake_cascade(ck, repo):
    """A hook wired in an element's `bake` exists only if that `bake` runs: every container bakes every one of its members."""
    for rel, qual, it, callee, operands, allowed in CASCADE:
        f = repo.func(rel, qual)
        fv = FuncView(f)
        lps = [l for l in fv.loops() if isinstance(l, ast.For) and unparse(l.iter) == it]
        ok, c = False, None
        if len(lps) == 1:
            x = unparse(lps[0].target)
            cs = [c for c in fv.calls(callee) if contains(lps[0], c) and isinstance(c.func, ast.Attribute) and unparse(c.func.value) == x]
            if len(cs) == 1:
                c = cs[0]
                ok = [unparse(a) for a in c.args] == operands and set(fv.conditions(c)) <= allowed and len(fv.enclosing_loops(c)) == 1 and \
                    not any(isinstance(n, (ast.Break, ast.Return)) for n in walk_no_nested(lps[0])) and \
                    not any(isinstance(n, ast.Continue) and fv.cfg_node(n) is not None and n.lineno < c.lineno for n in walk_no_nested(lps[0]))
        ck.ob(f"{qual}: every member of `{it}` is baked ({callee}({', '.join(operands)}))", ok, f, c or (lps[0] if lps else f.node), construct=f"cascade:{qual}:{it}")
    # post-bake hooks of fields and enum values are run (awaited) on every member too
    for rel, qual, it in (("tartiflette/types/union.py", "GraphQLUnionType.bake_fields", "self._fields.values()"),
                          ("tartiflette/types/interface.py", "GraphQLInterfaceType.bake_fields", "self.implemented_fields.values()"),
                          ("tartiflette/types/object.py", "GraphQLObjectType.bake_fields", "self.implemented_fields.values()"),
                          ("tartiflette/types/enum.py", "GraphQLEnumType.bake_enum_values", "self.values")):
        f = repo.func(rel, qual)
        fv = FuncView(f)
        lps = [l for l in fv.loops() if isinstance(l, ast.For) and unparse(l.iter) == it]
        cs = [c for c in fv.calls("on_post_bake") if lps and contains(lps[0], c)]
        bk = [c for c in fv.calls("bake") if lps and contains(lps[0], c)]
        ok = len(cs) == 1 and len(bk) == 1 and fv.is_awaited(cs[0]) and unparse(cs[0].func.value) == unparse(lps[0].target) and fv.dominated_by(cs[0], fv.stmt_of(bk[0])) and \
            set(fv.conditions(cs[0])) <= {("self.implemented_fields", "T")}
        ck.ob(f"{qual}: each member's on_post_bake chain is awaited once, after its bake", ok, f, cs[0] if cs else f.node, construct=f"cascade:{qual}:post-bake")
    # second pass of _bake_types dispatches every composite kind to its member-baking coroutine
    f = repo.func("tartiflette/schema/schema.py", "GraphQLSchema._bake_types")
    fv = FuncView(f)
    # the five classes are unrelated: the arms of the dispatch may come in any order
    own = {"bake_fields": "isinstance(type_definition, (GraphQLObjectType, GraphQLInterfaceType, GraphQLUnionType))",
           "bake_enum_values": "isinstance(type_definition, GraphQLEnumType)", "bake_input_fields": "isinstance(type_definition, GraphQLInputObjectType)"}
    for name, test in own.items():
        c = fv.maybe_call(name)
        cs = set(fv.conditions(c)) if c is not None else set()
        ok = c is not None and fv.is_awaited(c) and (test, "T") in cs and cs - {(test, "T")} <= {(t, "F") for t in own.values() if t != test} \
            and len(fv.enclosing_loops(c)) == 1 and unparse(fv.enclosing_loops(c)[0].iter) == "self.type_definitions.values()" and unparse(c.args[0]) == "self"
        ck.ob(f"_bake_types: `{name}` is awaited for every type of its kind", ok, f, c or f.node, construct=f"cascade:_bake_types:{name}", detail=str(sorted(fv.conditions(c))) if c is not None else None)
    tb = [c for c in fv.calls("bake") if unparse(c.func.value) == "type_definition"]
    ok = len(tb) == 1 and set(fv.conditions(tb[0])) == {("isinstance(type_definition, GraphQLScalarType)", "F")} and unparse(fv.enclosing_loops(tb[0])[0].iter) == "self.type_definitions.values()"
    ck.ob("_bake_types: every non-scalar type is baked (scalars were baked first)", ok, f, tb[0] if tb else f.node, construct="cascade:_bake_types:types")
    if tb:
        first = [c for c in fv.calls("bake_fields")]
        ck.ob("_bake_types: all types are baked before any member is (members look their types up)", bool(first) and fv.dominated_by(first[0], fv.enclosing_loops(tb[0])[0]), f, tb[0],
              construct="cascade:_bake_types:order")


def _argument_hooks_on_every_value(ck, a):
    """Path-outcome table of argument_coercer: a path that answers with a *value* (null included) and no errors, while the
    argument carries directives, answers with what the on_argument_execution chain returned."""
    from ..pathtab import outcome_rows, truth
    av = FuncView(a)
    dname = a.positional_params[5]
    rows = outcome_rows(av)
    n = 0
    for r in rows:
        ret = r["ret"]
        if r["exit"] != "return_exit" or ret is None:
            continue
        # a freshly built result is not the undefined value, and the undefined value is
        if any((c.replace(" ", "").startswith("is_invalid_value(CoercionResult(") and o == "T") or (c.replace(" ", "") == "is_invalid_value(UNDEFINED_VALUE)" and o == "F")
               for c, o in r["conds"]):
            continue
        core = ret.value if isinstance(ret, ast.Await) else ret
        if not isinstance(core, ast.Call):
            continue
        if any(c.replace(" ", "") == f"is_invalid_value({unparse(ret)})".replace(" ", "") and o == "T" for c, o in r["conds"]):
            continue  # the undefined value handed on, not a value
        name = callee_last(core)
        is_value = (name == "CoercionResult" and any(k.arg == "value" for k in core.keywords) and not any(k.arg == "errors" for k in core.keywords)) or name == "literal_coercer"
        if not is_value:
            continue
        n += 1
        has_dirs = truth(r, dname)
        errs = [(c, o) for c, o in r["conds"] if c.replace(" ", "").endswith("[1]") or c.strip() in ("errors", "not errors")]
        with_errors = any((o == "T") != c.strip().startswith("not ") for c, o in errs)
        ck.ob("argument_coercer: a value (null included) leaves without the argument hooks only when there are no directives or coercion failed",
              has_dirs == "F" or with_errors, a, r["last"] or a.node, construct="order:argument-every-value",
              detail=f"`return {unparse(ret)[:70]}` is reached without asking whether the argument carries directives: its on_argument_execution hooks never see this value")
    ck.count("argument_value_paths_without_hooks", n, 2)


def query_directives_collected(repo, rf):
    """`computed_directives` of resolve_field_value_or_error is the concatenation, over *every* merged field node in order, of
    the computed directives of that node - either computed node by node (extend inside the loop over the field nodes) or in
    one call over a *new* list that gathered every node's directive nodes (a node without directives contributes nothing
    either way).  Helpers next to the function are looked through."""
    from ..q import inlined_view
    rfv = inlined_view(repo, rf)
    rp = rf.positional_params
    calls = rfv.calls("compute_directive_nodes")
    if len(calls) != 1:
        return False, (calls[0] if calls else None)
    cdn = calls[0]
    a = [unparse(x) for x in cdn.args]
    if len(a) != 3 or a[0] != f"{rp[0]}.schema" or a[2] != f"{rp[0]}.variable_values":
        return False, cdn
    lps = [l for l in rfv.loops() if isinstance(l, ast.For) and unparse(l.iter) == rp[2]]
    if len(lps) != 1 or any(isinstance(n, (ast.Break, ast.Continue, ast.Return)) for n in walk_no_nested(lps[0])):
        return False, cdn
    lp = lps[0]
    item = unparse(lp.target)
    st = rfv.stmt_of(cdn)
    if contains(lp, cdn):
        # node by node
        return a[1] == f"{item}.directives" and unparse(st).startswith("computed_directives.extend(") and not set(rfv.conditions(cdn)) - set(rfv.conditions(lp)), cdn
    # one call over a gathered list
    gathered = a[1]
    for _ in range(3):  # a copy of the name (`t = xs`, left by inlining a helper that returns its list)
        al = [n for n in walk_no_nested(rfv.node) if isinstance(n, ast.Assign) and unparse(n.targets[0]) == gathered]
        if len(al) == 1 and isinstance(al[0].value, ast.Name):
            gathered = al[0].value.id
        else:
            break
    inits = [n for n in walk_no_nested(rfv.node) if isinstance(n, ast.Assign) and unparse(n.targets[0]) == gathered]
    fresh = len(inits) == 1 and unparse(inits[0].value) in ("[]", "list()") and rfv.dominated_by(lp, inits[0])
    ext = [c for c in rfv.calls(["extend"]) if unparse(c.func.value) == gathered]
    other = [c for c in rfv.calls(["append", "insert", "remove", "pop", "clear", "sort", "reverse"]) if isinstance(c.func, ast.Attribute) and unparse(c.func.value) == gathered]
    ok = fresh and len(ext) == 1 and not other and contains(lp, ext[0]) and [unparse(x) for x in ext[0].args] == [f"{item}.directives"] and \
        set(rfv.conditions(ext[0])) - set(rfv.conditions(lp)) <= {(f"{item}.directives", "T")} and rfv.dominated_by(cdn, lp) and \
        isinstance(st, ast.Assign) and unparse(st.targets[0]) == "computed_directives"
    return bool(ok), cdn


def bound_coerce_arguments(repo, g):
    """What compute_directive_nodes binds into each instance's `arguments_coercer`, as {keyword of coerce_arguments: expression
    at the creation site}: from `partial(coerce_arguments, k=v, ...)`, or from a call of a module-level factory whose result
    is a function doing nothing but `return await coerce_arguments(k=<factory parameter>, ..., ctx=<its own parameter>)` -
    the factory's parameters are bound when it is called, once per instance.  A closure written inside the loop (which would
    read the loop variables when it is *called*) is not accepted.  Returns (the creation call, mapping or None)."""
    gv = FuncView(g)
    site = None
    for d in ast.walk(g.node):
        if isinstance(d, ast.Dict):
            for k, v in zip(d.keys, d.values):
                if isinstance(k, ast.Constant) and k.value == "arguments_coercer":
                    site = v
        if isinstance(d, ast.keyword) and d.arg == "arguments_coercer":
            site = d.value
    if site is None:
        # handed to the instance builder positionally: bind through its signature
        for c in gv.calls("transform_directive"):
            tp = repo.func(g.module.relpath, "transform_directive").positional_params if "transform_directive" in g.module.funcs else []
            for i, a in enumerate(c.args):
                if i < len(tp) and tp[i] == "arguments_coercer":
                    site = a
    if isinstance(site, ast.Name):
        # a local bound once (in the loop body) to the coercer
        defs = [n for n in walk_no_nested(g.node) if isinstance(n, ast.Assign) and len(n.targets) == 1 and unparse(n.targets[0]) == site.id]
        if len(defs) == 1:
            site = defs[0].value
    if not isinstance(site, ast.Call):
        return site, None
    fn = dotted(site.func)
    if fn == "partial" and site.args and repo.resolve_name(g.module, unparse(site.args[0])) == "tartiflette.coercers.arguments.coerce_arguments":
        return site, {k: unparse(v) for k, v in kwargs(site).items()}
    fac = g.module.funcs.get(fn) if fn else None
    if fac is None or fac.parent is not None or fac.cls is not None:
        return site, None
    params = fac.positional_params
    actual = {}
    for i, a in enumerate(site.args):
        if i < len(params):
            actual[params[i]] = unparse(a)
    for k in site.keywords:
        if k.arg:
            actual[k.arg] = unparse(k.value)
    if set(actual) != set(params):
        return site, None
    # the factory: optional aliases of coerce_arguments, one nested function, `return <that function>`
    alias = {n.targets[0].id: unparse(n.value) for n in fac.node.body if isinstance(n, ast.Assign) and isinstance(n.targets[0], ast.Name)}
    inner = [n for n in fac.node.body if isinstance(n, (ast.FunctionDef, ast.AsyncFunctionDef))]
    rets = [n for n in fac.node.body if isinstance(n, ast.Return)]
    rebound = {t.id for n in ast.walk(fac.node) for t in ast.walk(n) if isinstance(t, ast.Name) and isinstance(t.ctx, ast.Store)} & set(params)
    if len(inner) != 1 or len(rets) != 1 or unparse(rets[0].value) != inner[0].name or rebound:
        return site, None
    body = [b for b in inner[0].body if not (isinstance(b, ast.Expr) and isinstance(b.value, ast.Constant))]
    if len(body) != 1 or not isinstance(body[0], ast.Return):
        return site, None
    call = strip_await(body[0].value)
    if not isinstance(call, ast.Call) or call.args:
        return site, None
    target = unparse(call.func)
    target = alias.get(target, target)
    if repo.resolve_name(g.module, target) != "tartiflette.coercers.arguments.coerce_arguments":
        return site, None
    own = {a.arg for a in inner[0].args.args + inner[0].args.kwonlyargs}
    out = {}
    for k in call.keywords:
        v = unparse(k.value)
        if k.arg == "ctx" and v in own:
            continue   # supplied when the hook runs, as with the partial
        if v not in actual:
            return site, None
        out[k.arg] = actual[v]
    return site, out


def wraps_with_directives_terms(ck, repo):
    """E13: wraps_with_directives interpreted on zero to three directive instances (each defining the hook or not), every
    combination of the three flags, and a missing / raw / already adapted callable; the result is compared, as a term, with
    the chain the specification prescribes: the raw callable (or the hook's identity default) adapted once, then wrapped by
    exactly the directives that define the hook, *first declared outermost*, each with its own hook and arguments coercer;
    None when there is nothing to wrap."""
    from .. import absint
    from ..absint import PartialV, Sym
    import itertools as _it
    f = repo.func(UD, "wraps_with_directives")
    M = "tartiflette.utils.directives."
    n = 0
    for hook in ("on_field_execution", "on_argument_execution"):
        for k in range(4):
            for defines in _it.product((True, False), repeat=k):
                dirs = [{"callables": ({hook: Sym(f"hook_{i}")} if d else {"other_hook": Sym(f"other_{i}")}), "arguments_coercer": Sym(f"args_{i}")} for i, d in enumerate(defines)]
                for func_kind in ("none", "raw", "adapted"):
                    for is_res, with_def, is_gen in _it.product((False, True), repeat=3):
                        if is_res and is_gen:
                            continue
                        func = None if func_kind == "none" else (Sym("raw") if func_kind == "raw" else PartialV(Sym("already_adapted"), (Sym("raw"),), {}))
                        # the specification
                        if func is None and not with_def and not dirs:
                            want = None
                            skip = True
                        else:
                            skip = False
                            inner = func
                            if inner is None:
                                inner = Sym(M + {"on_argument_execution": "default_argument_execution_directive", "on_post_input_coercion": "default_post_input_coercion_directive"}.get(
                                    hook, "default_directive_callable"))
                            wrapper = Sym(M + "directive_executor")
                            if is_res and not isinstance(inner, PartialV):
                                inner = PartialV(Sym(M + "resolver_executor"), (inner,), {})
                            if is_gen and not isinstance(inner, PartialV):
                                inner = PartialV(Sym(M + "subscription_generator"), (inner,), {})
                                wrapper = Sym(M + "directive_generator")
                            want = inner
                            for i in reversed(range(k)):
                                if defines[i]:
                                    want = _P(wrapper, (Sym(f"hook_{i}"), Sym(f"args_{i}"), want))
                        it = absint.Interp(repo, f.module)
                        try:
                            got = it.run(f, [[dict(d) for d in dirs], hook, func, is_res, with_def, is_gen])
                            why = None
                        except absint.Unsupported as ex:
                            raise AnalysisError(f"{f.short}: cannot be interpreted on abstract directive lists: {ex}")
                        except absint.PyRaise as ex:
                            got, why = None, f"raises {ex.name} ({ex.text})"
                        n += 1
                        ok = why is None and ((got is None) if want is None else _same_chain(got, want))
                        if not ok:
                            tag = f"{hook}:{''.join('d' if x else '-' for x in defines) or 'no-directive'}:{func_kind}:res={int(is_res)},default={int(with_def)},gen={int(is_gen)}"
                            ck.ob(f"wraps_with_directives [{tag}]: the prescribed chain", False, f, f.node, construct=f"fold:chain:{tag}", detail=why or f"got {got!r}")
    ck.ob("wraps_with_directives: on every explored input the result is the raw callable adapted once and wrapped by exactly the directives that define the hook, first declared outermost",
          True, f, f.node, construct="fold:chain", evals=n)
    ck.count("wraps_with_directives_shapes", n, 500)


def _P(func, args):
    """A non-flattening partial term (the wrappers keep the inner partial as an operand)."""
    from ..absint import PartialV
    p_ = PartialV.__new__(PartialV)
    p_.func, p_.args, p_.kwargs = func, tuple(args), {}
    return p_


def _same_chain(got, want) -> bool:
    from .. import absint
    from ..absint import PartialV
    if isinstance(want, PartialV):
        if not isinstance(got, PartialV) or not _same_chain(got.func, want.func) or len(got.args) != len(want.args) or got.kwargs:
            return False
        return all(_same_chain(a, b) for a, b in zip(got.args, want.args))
    if isinstance(got, absint.FuncV) and isinstance(want, absint.Sym):
        return want.text.rsplit(".", 1)[-1] == got.name   # a function of the module itself, named by the specification
    return absint.norm(got) == absint.norm(want)
