"""C02 - field failures are contained: null propagation and error accounting.

Decides each local step of the propagation (error funnel, non-null raise, list
item completion, parent nulling, error record construction, handler discipline).
Not decided: that exactly the nearest nullable ancestor is nulled for every
nullability layout (composition over all nestings), absence of spurious errors,
locations lying inside the field's text.
"""
from __future__ import annotations

import ast

from ..cfg import handler_types, is_broad_handler
from ..model import AnalysisError, dotted, unparse, walk_no_nested
from ..pathtab import Atoms, evaluate
from ..q import FuncView, arg, arg_text, callee_last, contains, decorator_names, ifexp_parts, kwargs, strip_await

EXPLANATION = (
    "Local steps of error containment decided on the CFG: handle_field_error decision table, the try/except "
    "funnel of complete_value_catching_error, non-null and null wrappers, per-item completion with indexed "
    "paths in both list coercers, raise-before-build in execute_fields, catch-all in execute_operation, "
    "construction of error records, and a census of every broad exception handler of the request phase."
)

COMMON = "tartiflette/coercers/outputs/common.py"
LISTC = "tartiflette/coercers/outputs/list_coercer.py"
EXECUTE = "tartiflette/execution/execute.py"
ERRORS = "tartiflette/utils/errors.py"

# broad handlers that neither re-raise nor record, confirmed by reading (function -> reason)
FROZEN_SWALLOWERS = {
    "tartiflette/execution/collect.py::should_include_node": "upstream TODO: an unexpected hook failure drops the selection",
    "tartiflette/execution/helpers.py::get_field_definition": "unknown field => None; field existence is a validation rule",
    "tartiflette/coercers/literals/scalar_coercer.py::scalar_coercer": "maps to the invalid value, reported by the caller",
    "tartiflette/utils/values.py::is_integer": "predicate: any failure means 'not an integer'",
}
REQUEST_PACKAGES = ("tartiflette/coercers/", "tartiflette/execution/", "tartiflette/resolver/", "tartiflette/utils/",
                    "tartiflette/engine.py", "tartiflette/directive/", "tartiflette/subscription/")


def check(ck):
    repo = ck.repo

    with ck.rule("R1"):
        r1(ck, repo)
    with ck.rule("R2"):
        r2(ck, repo)
    _rest(ck, repo)


def r1(ck, repo):
    if True:
        f = repo.func(COMMON, "handle_field_error")
        fv = FuncView(f)
        p = f.positional_params  # raw_error, field_nodes, path, return_type, execution_context
        atoms = Atoms({f"{p[3]}.is_non_null_type": "non_null"})
        le = fv.one_call("located_error")
        ok = [unparse(a) for a in le.args] == [p[0], p[1], f"{p[2]}.as_list()"] or \
            (arg_text(le, 0) == p[0] and arg_text(le, 1, "nodes") == p[1] and arg_text(le, 2, "path") == f"{p[2]}.as_list()")
        ck.ob("handle_field_error locates the error with the field nodes and the response path", ok, f, le, construct="located:operands")
        st = fv.stmt_of(le)
        err = unparse(st.targets[0]) if isinstance(st, ast.Assign) else None
        for nn in (True, False):
            classes = set()
            for tr in fv.cfg.simulate(lambda n, env: evaluate(n.ast, env, {"non_null": nn}, atoms)):
                texts = [n.text() for n in tr.stmts()]
                if tr.exit_kind == "raise_exit":
                    last = tr.last_stmt()
                    classes.add("raise-located" if unparse(last.ast.exc) == err else "raise-other")
                else:
                    rec = any(t == f"{p[4]}.add_error({err})" for t in texts)
                    last = tr.last_stmt()
                    rv = unparse(last.ast.value) if isinstance(last.ast, ast.Return) else "None"
                    classes.add(("recorded" if rec else "unrecorded") + "->" + rv)
            want = {"raise-located"} if nn else {"recorded->None"}
            ck.ob(f"handle_field_error table: non-null={nn}", classes == want, f, f.node, construct=f"table:non_null={nn}",
                  detail=f"got {sorted(classes)}, want {sorted(want)}" + atoms.note())



def r2(ck, repo):
    if True:
        f = repo.func(COMMON, "complete_value_catching_error")
        fv = FuncView(f)
        p = f.positional_params  # result, info, execution_context, field_nodes, path, return_type, output_coercer
        oc = [c for c in fv.calls() if isinstance(c.func, ast.Name) and c.func.id == p[6]]
        ck.ob("complete_value_catching_error: one call of the output coercer", len(oc) == 1, f, oc[0] if oc else f.node, construct="funnel:one-coercer-call")
        if oc:
            ck.ob("the output coercer gets (result, info, ctx, field nodes, path) and is awaited",
                  [unparse(a) for a in oc[0].args] == p[:5] and fv.is_awaited(oc[0]), f, oc[0], construct="funnel:coercer-operands")
            h = fv.in_broad_try(oc[0])
            ck.ob("the output coercer call sits in a try with an `except Exception` handler", h is not None, f, oc[0], construct="funnel:coercer-in-try")
        rr = [r for r in fv.raises() if r.exc is not None and unparse(r.exc) == p[0]]
        ok = len(rr) == 1 and fv.guarded(rr[0], lambda t: t == f"isinstance({p[0]}, Exception)", "T") and fv.in_broad_try(rr[0]) is not None
        ck.ob("an exception-valued result is re-raised inside the same try", ok, f, rr[0] if rr else f.node, construct="funnel:reraise")
        hs = [h for h in fv.handlers() if is_broad_handler(h)]
        ok = False
        if len(hs) == 1 and hs[0].name:
            body = hs[0].body
            if len(body) == 1 and isinstance(body[0], ast.Return) and isinstance(body[0].value, ast.Call) and dotted(body[0].value.func) == "handle_field_error":
                ok = [unparse(a) for a in body[0].value.args] == [hs[0].name, p[3], p[4], p[5], p[2]]
        ck.ob("every caught failure goes through handle_field_error(exception, field nodes, path, return type, ctx) and its value is returned",
              ok, f, hs[0] if hs else f.node, construct="funnel:handler")



def _rest(ck, repo):
    # which list / non-null layer a failure stops at is decided by the chain get_output_coercer builds: each list layer must be
    # told its own item type, each non-null layer must be a non-null coercer, outermost first (C01.R9)
    with ck.pinned("R9"):
        from .c01 import _completion_chain
        _completion_chain(ck, repo)
    with ck.rule("R3"):
        output_non_null_wrapper(ck, repo)

    with ck.rule("R4"):
        _output_null_wrapper(ck, repo)

    with ck.rule("R5"):
        from .c03 import list_guard
        list_guard(ck, repo)
        for name in ("list_coercer_sequentially", "list_coercer_concurrently"):
            f = repo.func(LISTC, name)
            fv = FuncView(f)
            p = f.positional_params  # result, info, execution_context, field_nodes, path, item_type, inner_coercer
            c = fv.maybe_call("complete_value_catching_error")
            if not ck.ob(f"{name}: each item goes through complete_value_catching_error (one call site)", c is not None, f, f.node,
                         construct=f"{name}:funnel-call"):
                continue
            it = None
            lp = fv.enclosing(c, (ast.For,))
            comp = fv.in_comprehension(c)
            if comp is not None:
                gen = comp.generators[0]
                it, tgt = gen.iter, gen.target
            elif lp is not None:
                it, tgt = lp.iter, lp.target
            ok = it is not None and unparse(it) == f"enumerate({p[0]})" and isinstance(tgt, ast.Tuple) and len(tgt.elts) == 2
            ck.ob(f"{name}: items are enumerated from the resolved list itself", ok, f, c, construct=f"{name}:enumerate")
            if ok:
                idx, item = [unparse(e) for e in tgt.elts]
                want = [item, p[1], p[2], p[3], f"Path({p[4]}, {idx})", p[5], p[6]]
                ck.ob(f"{name}: each item is completed through complete_value_catching_error with Path(path, index), the item type and the inner coercer",
                      [unparse(a) for a in c.args] == want, f, c, construct=f"{name}:operands", detail=f"want {want}")
            ex = fv.maybe_call("extract_exceptions_from_results")
            if not ck.ob(f"{name}: item failures are collected with extract_exceptions_from_results", ex is not None, f, f.node,
                         construct=f"{name}:extract-call"):
                continue
            rs = [r for r in fv.raises() if r.exc is not None]
            exname = None
            st = fv.stmt_of(ex)
            if isinstance(st, ast.Assign):
                exname = unparse(st.targets[0])
            coll = [r for r in rs if unparse(r.exc) == exname]
            ok = len(coll) == 1 and fv.guarded(coll[0], lambda t: t == exname, "T")
            ck.ob(f"{name}: collected item failures are raised after all items were attempted", ok, f, coll[0] if coll else ex,
                  construct=f"{name}:raise-collected")
            # the extraction happens after the loop / gather, on the full result list
            results_name = arg_text(ex, 0)
            rets = [r for r in fv.returns() if r.value is not None and unparse(r.value) == results_name]
            ck.ob(f"{name}: returns the list of completed items", len(rets) == 1, f, rets[0] if rets else f.node, construct=f"{name}:return")
            if lp is not None:
                ck.ob(f"{name}: failures are extracted after the loop, not inside it", not contains(lp, ex), f, ex, construct=f"{name}:extract-after-loop")
        extract_rule(ck, repo)

    with ck.rule("R6"):
        f = repo.func(EXECUTE, "execute_fields")
        fv = FuncView(f)
        ex = fv.one_call("extract_exceptions_from_results")
        st = fv.stmt_of(ex)
        exname = unparse(st.targets[0]) if isinstance(st, ast.Assign) else None
        rs = [r for r in fv.raises() if r.exc is not None and unparse(r.exc) == exname]
        ok = len(rs) == 1 and fv.guarded(rs[0], lambda t: t == exname, "T")
        ck.ob("execute_fields: collected child failures are raised (the enclosing object is not built)", ok, f, rs[0] if rs else ex, construct="parent:raise")
        final = [r for r in fv.returns() if isinstance(r.value, (ast.DictComp, ast.Dict, ast.Call, ast.Name))]
        ok = bool(final) and all(fv.guarded(r, lambda t: t == exname, "F") or fv.dominated_by(r, st) and fv.guarded(r, lambda t: t == exname, "F") for r in final)
        ck.ob("execute_fields: the response mapping is built only when no child failure was collected", ok, f, final[-1] if final else f.node,
              construct="parent:build-guarded")
        # every result (a list, or the values of a mapping keyed by response name), after the loop
        ck.ob("execute_fields: failures are extracted from the complete result list", arg_text(ex, 0) in ("results", "results.values()", "list(results.values())") and
              not fv.enclosing_loops(ex), f, ex, construct="parent:extract")
        g = fv.one_call("gather")
        ck.ob("execute_fields: gather(return_exceptions=True) so one failing sibling does not abandon the others",
              arg_text(g, None, "return_exceptions") == "True", f, g, construct="parent:return-exceptions")
        operation_catch(ck, repo)

    with ck.rule("R7"):
        _error_records(ck, repo)
        errors_located_by_the_funnel_only(ck, repo)

    with ck.rule("R8"):
        _handler_census(ck, repo)




def output_non_null_wrapper(ck, repo):
    """The output non-null wrapper judges what the *inner coercer answered* (type-level output hooks run in there and may replace the
    value), and nothing before it (shared with C13.R4: every governed value goes through its hooks, a null at a T! position too)."""
    if True:
        f = repo.func("tartiflette/coercers/outputs/non_null_coercer.py", "non_null_coercer")
        fv = FuncView(f)
        p = f.positional_params
        ic = [c for c in fv.calls() if isinstance(c.func, ast.Name) and c.func.id == p[5]]
        ok = len(ic) == 1 and fv.is_awaited(ic[0]) and [unparse(a) for a in ic[0].args] == p[:5]
        ck.ob("non_null_coercer awaits the inner coercer once with the same operands", ok, f, ic[0] if ic else f.node, construct="nonnull:inner")
        st = fv.stmt_of(ic[0]) if ic else None
        out = unparse(st.targets[0]) if isinstance(st, ast.Assign) else None
        rs = fv.raises()
        ck.ob("non_null_coercer raises exactly when the inner result is None",
              len(rs) == 1 and out is not None and fv.guarded(rs[0], lambda t: t == f"{out} is None", "T"), f, rs[0] if rs else f.node,
              construct="nonnull:raise-guard")
        rets = fv.returns()
        ck.ob("non_null_coercer returns the inner result otherwise",
              len(rets) == 1 and out is not None and unparse(rets[0].value) == out and
              (fv.guarded(rets[0], lambda t: t == f"{out} is None", "F")), f, rets[0] if rets else f.node, construct="nonnull:return-guard")
        atoms = Atoms({f"{out} is None": "is_null"})
        for isnull in (True, False):
            classes = set()
            for tr in fv.cfg.simulate(lambda n, env: evaluate(n.ast, env, {"is_null": isnull}, atoms)):
                last = tr.last_stmt()
                if tr.exit_kind == "raise_exit":
                    classes.add("raise")
                else:
                    classes.add("return " + (unparse(last.ast.value) if isinstance(last.ast, ast.Return) else "None"))
            want = {"raise"} if isnull else {f"return {out}"}
            ck.ob(f"non_null_coercer table: inner result is None = {isnull}", classes == want, f, f.node,
                  construct=f"table:is_null={isnull}", detail=f"got {sorted(classes)}" + atoms.note())



def _output_null_wrapper(ck, repo):
    if True:
        w = repo.func("tartiflette/coercers/outputs/null_coercer.py", "null_coercer_wrapper")
        inner = repo.func("tartiflette/coercers/outputs/null_coercer.py", "null_coercer_wrapper.wrapper")
        iv = FuncView(inner)
        first = inner.positional_params[0]
        atoms = Atoms({f"{first} is None": "is_null"})
        cp = w.positional_params[0]
        for isnull in (True, False):
            classes = set()
            for tr in iv.cfg.simulate(lambda n, env: evaluate(n.ast, env, {"is_null": isnull}, atoms)):
                last = tr.last_stmt()
                called = any(any(isinstance(c, ast.Call) and isinstance(c.func, ast.Name) and c.func.id == cp for c in ast.walk(n.ast)) for n in tr.stmts())
                rv = unparse(last.ast.value) if isinstance(last.ast, ast.Return) else "None"
                classes.add(("calls-coercer" if called else "no-call") + "->" + rv)
            want = {"no-call->None"} if isnull else {f"calls-coercer->await {cp}({first}, *args, **kwargs)"}
            ck.ob(f"null_coercer_wrapper table: result is None = {isnull}", classes == want, inner, inner.node,
                  construct=f"table:is_null={isnull}", detail=f"got {sorted(classes)}" + atoms.note())
        rets = FuncView(w).returns()
        ck.ob("null_coercer_wrapper returns the wrapper", len(rets) == 1 and unparse(rets[0].value) == inner.name, w, w.node, construct="nullwrap:return")
        decorated = []
        for rel, name in (("scalar_coercer.py", "scalar_coercer"), ("enum_coercer.py", "enum_coercer"), ("object_coercer.py", "object_coercer"),
                          ("abstract_coercer.py", "abstract_coercer"), ("list_coercer.py", "list_coercer_sequentially"),
                          ("list_coercer.py", "list_coercer_concurrently")):
            g = repo.func("tartiflette/coercers/outputs/" + rel, name)
            res = [repo.resolve_name(g.module, d) for d in decorator_names(g)]
            ok = "tartiflette.coercers.outputs.null_coercer.null_coercer_wrapper" in res
            decorated.append(ok)
            ck.ob(f"outputs.{name} is wrapped by null_coercer_wrapper (null completes to null without coercion)", ok, g, g.node,
                  construct=f"nullwrap:{name}")
        ck.count("output_coercers_null_wrapped", sum(decorated), 6)

def extract_rule(ck, repo):
    """Failures travel between the sequential and the concurrent paths as MultipleException values only (shared with C08.R3)."""
    ex = repo.func(ERRORS, "extract_exceptions_from_results")
    ev = FuncView(ex)
    lp = [l for l in ev.loops() if isinstance(l, ast.For)]
    ok = False
    if len(lp) == 1:
        augs = [n for n in walk_no_nested(lp[0]) if isinstance(n, ast.AugAssign) and isinstance(n.op, ast.Add)]
        ok = len(augs) == 1 and unparse(augs[0].value) == unparse(lp[0].target) and \
            ev.guarded(augs[0], lambda t: t == f"isinstance({unparse(lp[0].target)}, MultipleException)", "T") and \
            unparse(lp[0].iter) == ex.positional_params[0] and \
            not any(isinstance(n, (ast.Break, ast.Return, ast.Continue)) for n in walk_no_nested(lp[0]))
    ck.ob("extract_exceptions_from_results concatenates every MultipleException found in the results", ok, ex, ex.node, construct="extract:concat")
    rets = ev.returns()
    ck.ob("extract_exceptions_from_results returns None when nothing failed", len(rets) == 1 and unparse(rets[0].value).endswith(" or None"), ex,
          rets[0] if rets else ex.node, construct="extract:none")


def operation_catch(ck, repo):
    """A failure escaping the root executor is recorded and nulls data (shared with C09.R3)."""
    if True:
        o = repo.func(EXECUTE, "execute_operation")
        ov = FuncView(o)
        for nm in ("execute_fields_serially", "execute_fields"):
            cs_ = ov.calls(nm)
            if len(cs_) == 1:
                c = cs_[0]
            else:
                # the executor is picked into a local and called once: that call stands for both
                picks = [n for n in walk_no_nested(o.node) if isinstance(n, ast.Assign) and isinstance(n.value, ast.Name) and n.value.id == nm and isinstance(n.targets[0], ast.Name)]
                via = [x for x in ov.calls() if picks and isinstance(x.func, ast.Name) and x.func.id == picks[0].targets[0].id]
                if len(picks) != 1 or len(via) != 1:
                    raise AnalysisError(f"expected exactly one call of {nm} in {o.short} (directly or through one local), found {len(cs_)}")
                c = via[0]
            h = ov.in_broad_try(c)
            ok = h is not None and h.name is not None
            if ok:
                body = h.body
                rec = [s for s in body if isinstance(s, ast.Expr) and isinstance(s.value, ast.Call)
                       and unparse(s.value.func) == f"{o.positional_params[0]}.add_error" and [unparse(a) for a in s.value.args] == [h.name]]
                ret = [s for s in body if isinstance(s, ast.Return)]
                ok = len(rec) == 1 and len(ret) == 1 and unparse(ret[0].value) == "None" and not any(isinstance(s, ast.Raise) for s in ast.walk(h))
            ck.ob(f"execute_operation: a failure escaping {nm} is recorded and turns data into null", ok, o, c, construct=f"operation:catch:{nm}")


def _error_records(ck, repo):
    pth = repo.func("tartiflette/coercers/common.py", "Path.as_list")
    pv = FuncView(pth)
    wl = [l for l in pv.loops() if isinstance(l, ast.While)]
    ok = False
    if len(wl) == 1:
        cur = unparse(wl[0].test)
        apps = [c for c in pv.calls("append") if contains(wl[0], c)]
        steps = [n for n in wl[0].body if isinstance(n, ast.Assign) and unparse(n.targets[0]) == cur and unparse(n.value) == f"{cur}.prev"]
        init = [n for n in walk_no_nested(pth.node) if isinstance(n, ast.Assign) and unparse(n.targets[0]) == cur and unparse(n.value) == "self"]
        rets = pv.returns()
        if len(apps) == 1 and len(steps) == 1 and len(init) == 1 and len(rets) == 1:
            lst = unparse(apps[0].func.value)
            ok = unparse(apps[0].args[0]) == f"{cur}.key" and unparse(rets[0].value) in (f"{lst}[::-1]", f"list(reversed({lst}))")
    ck.ob("Path.as_list walks prev links from the leaf and returns the keys root-first", ok, pth, pth.node, construct="path:as_list")
    pi = repo.func("tartiflette/coercers/common.py", "Path.__init__")
    a = repo.cls("tartiflette/coercers/common.py", "Path").self_attrs()
    ck.ob("Path(prev, key) stores its operands", unparse(a.get("prev")) == pi.positional_params[1] and unparse(a.get("key")) == pi.positional_params[2], pi,
          pi.node, construct="path:init")
    le = repo.func(ERRORS, "located_error")
    lv = FuncView(le)
    lp = le.positional_params
    g = lv.one_call("graphql_error_from_nodes")
    ok = arg_text(g, 0) == "str(exception)" and arg_text(g, None, "nodes") == lp[1] and arg_text(g, None, "path") == lp[2] and \
        arg_text(g, None, "original_error") == "exception"
    ck.ob("located_error wraps a foreign exception with the field nodes, the path and the original error", ok, le, g, construct="located:wrap")
    st = lv.stmt_of(g)
    ok = isinstance(st, ast.Assign) and isinstance(st.value, ast.IfExp) and unparse(st.value.test) == "is_coercible_exception(exception)" \
        and unparse(st.value.body) == "exception"
    ck.ob("located_error keeps library errors as they are (user message and extensions preserved)", ok, le, st, construct="located:keep-coercible")
    located_error_terms(ck, repo)
    ap = [c for c in lv.calls("append")]
    rets = lv.returns()
    ok = len(ap) == 1 and len(rets) == 1 and unparse(rets[0].value) == f"MultipleException(exceptions={unparse(ap[0].func.value)})"
    ck.ob("located_error returns every located error", ok, le, rets[0] if rets else le.node, construct="located:return")
    gn = repo.func(ERRORS, "graphql_error_from_nodes")
    gv = FuncView(gn)
    c = gv.one_call("TartifletteError")
    gp = gn.positional_params
    ok = arg_text(c, 0) == gp[0] and arg_text(c, None, "locations") == f"[node.location for node in {gp[1]}]" and arg_text(c, None, "path") == gp[2] and \
        arg_text(c, None, "original_error") == gp[3] and arg_text(c, None, "extensions") == gp[4]
    ck.ob("graphql_error_from_nodes builds the error with message, node locations, path, original error, extensions", ok, gn, c, construct="from-nodes:build")
    cv = repo.func("tartiflette/types/exceptions/tartiflette.py", "TartifletteError.coerce_value")
    vv = FuncView(cv)
    d = [n for n in walk_no_nested(cv.node) if isinstance(n, ast.Dict)]
    ok = False
    if d:
        keys = {unparse(k): unparse(v) for k, v in zip(d[0].keys, d[0].values)}
        ok = keys.get("'message'") == "self.user_message or self.message" and keys.get("'path'") == "path or self.path" and "'locations'" in keys \
            and "'extensions'" not in keys
    ck.ob("coerce_value emits message (user message first), path and locations", ok, cv, d[0] if d else cv.node, construct="coerce:dict")
    ext = [n for n in walk_no_nested(cv.node) if isinstance(n, ast.Assign) and isinstance(n.targets[0], ast.Subscript)
           and unparse(n.targets[0].slice) == "'extensions'"]
    ok = len(ext) == 1 and vv.guarded(ext[0], lambda t: t == "self.extensions", "T")
    ck.ob("coerce_value emits extensions only when non-empty", ok, cv, ext[0] if ext else cv.node, construct="coerce:extensions")
    ae = repo.func("tartiflette/execution/context.py", "ExecutionContext.add_error")
    av = FuncView(ae)
    ap = av.calls("append")
    ok = len(ap) == 1 and unparse(ap[0].func.value) == "self.errors" and isinstance(av.enclosing(ap[0], (ast.For,)), ast.For)
    ck.ob("add_error appends one entry per contained exception", ok, ae, ap[0] if ap else ae.node, construct="add_error:append")
    lp2 = av.enclosing(ap[0], (ast.For,)) if ap else None
    src = [n for n in walk_no_nested(ae.node) if isinstance(n, ast.Assign) and lp2 is not None and unparse(n.targets[0]) == unparse(lp2.iter)]
    rp = ae.positional_params[1]
    ok = len(src) == 1 and ifexp_parts(src[0].value) == (f"isinstance({rp}, MultipleException)", f"{rp}.exceptions", f"[{rp}]")
    ck.ob("add_error unpacks a MultipleException into its members", ok, ae, src[0] if src else ae.node, construct="add_error:unpack")
    st = [n for n in walk_no_nested(ae.node) if isinstance(n, ast.Assign) and isinstance(n.value, ast.IfExp) and ap and unparse(n.targets[0]) == unparse(ap[0].args[0])]
    x = unparse(lp2.target) if lp2 is not None else "?"
    ok = len(st) == 1 and ifexp_parts(st[0].value)[:2] == (f"is_coercible_exception({x})", x) and ifexp_parts(st[0].value)[2].startswith(f"TartifletteError(str({x}), ")
    ck.ob("add_error records a coercible exception as it is and wraps any other one", ok, ae, st[0] if st else ae.node, construct="add_error:wrap")
    # located_error: one located error per member, operands normalised, optional attributes read under their guards
    src = [n for n in walk_no_nested(le.node) if isinstance(n, ast.Assign) and isinstance(n.value, ast.IfExp) and unparse(n.targets[0]) == "exceptions"]
    ok = len(src) == 1 and ifexp_parts(src[0].value) == (f"isinstance({lp[0]}, MultipleException)", f"{lp[0]}.exceptions", f"[{lp[0]}]")
    llp = [l for l in lv.loops() if isinstance(l, ast.For) and unparse(l.iter) == "exceptions"]
    ok = ok and len(llp) == 1 and ap and contains(llp[0], lv.calls("append")[0]) and not any(isinstance(n, (ast.Break, ast.Continue, ast.Return)) for n in walk_no_nested(llp[0]))
    ck.ob("located_error locates every member of a MultipleException (else the exception itself), one entry each", ok, le, src[0] if src else le.node, construct="located:members")
    for fn_, view in ((le, lv), (gn, gv)):
        nm = fn_.positional_params[1]
        wraps = [n for n in walk_no_nested(fn_.node) if isinstance(n, ast.Assign) and unparse(n.targets[0]) == nm and unparse(n.value) == f"[{nm}]"]
        cw = set(view.conditions(wraps[0])) if len(wraps) == 1 else set()
        # (the missing-nodes arm may come first in the same chain: then the wrap is also "not None")
        ok = len(wraps) == 1 and (f"isinstance({nm}, list)", "F") in cw and cw - {(f"isinstance({nm}, list)", "F")} <= {(f"{nm} is None", "F")}
        ck.ob(f"{fn_.name}: a single node is wrapped into a list exactly when it is not one already", ok, fn_, wraps[0] if wraps else fn_.node, construct=f"{fn_.name}:nodes-normalised")
    nn = [n for n in walk_no_nested(le.node) if isinstance(n, ast.Assign) and unparse(n.targets[0]) == lp[1] and unparse(n.value) == "[]"]
    ck.ob("located_error: missing nodes become the empty list", len(nn) == 1 and set(lv.conditions(nn[0])) == {(f"{lp[1]} is None", "T")}, le, nn[0] if nn else le.node,
          construct="located:nodes-none")
    pc = [n for n in walk_no_nested(gn.node) if isinstance(n, ast.Assign) and unparse(n.targets[0]) == gp[2] and unparse(n.value) == f"{gp[2]}.as_list()"]
    ck.ob("graphql_error_from_nodes converts a Path (and only a Path) into the list of keys", len(pc) == 1 and set(gv.conditions(pc[0])) == {(f"isinstance({gp[2]}, Path)", "T")}, gn,
          pc[0] if pc else gn.node, construct="from-nodes:path-list")
    from .c18 import error_record_shape
    error_record_shape(ck, repo)


def _handler_census(ck, repo):
    total, broad = 0, 0
    for f in sorted(repo.all_funcs(), key=lambda f: f.short):
        if not f.module.relpath.startswith(REQUEST_PACKAGES):
            continue
        fv = None
        for h in [n for n in walk_no_nested(f.node) if isinstance(n, ast.ExceptHandler)]:
            total += 1
            if not is_broad_handler(h):
                continue
            broad += 1
            fv = fv or FuncView(f)
            kind = _classify_handler(fv, h)
            if kind == "swallows":
                frozen = f.short in FROZEN_SWALLOWERS
                ck.ob(f"broad handler in {f.qualname} re-raises, records the failure or keeps it as a value", frozen, f, h,
                      construct=f"handler:{'/'.join(handler_types(h))}",
                      detail=FROZEN_SWALLOWERS.get(f.short, "the handler drops the exception: a failure would vanish without an error entry"))
            else:
                ck.ob(f"broad handler in {f.qualname}: {kind}", True, f, h, construct=f"handler:{'/'.join(handler_types(h))}")
    ck.count("request_phase_handlers", total, 20)
    ck.count("request_phase_broad_handlers", broad, 14)


def _classify_handler(fv: FuncView, h: ast.ExceptHandler) -> str:
    if any(isinstance(n, ast.Raise) for s in h.body for n in ast.walk(s)):
        return "re-raises"
    name = h.name
    for s in h.body:
        for n in ast.walk(s):
            if isinstance(n, ast.Call):
                cl = callee_last(n)
                if cl in ("add_error", "handle_field_error"):
                    return "records"
                if cl in ("CoercionResult",) and arg(n, None, "errors") is not None:
                    return "records"
                if cl in ("_build_response", "response_builder") and arg(n, None, "errors") is not None:
                    return "records"
                if cl in ("to_graphql_error", "graphql_error_from_nodes", "coercion_error") and fv.enclosing(n, (ast.Return,)) is not None:
                    return "records"
    if name:
        mentions = lambda e: any(isinstance(x, ast.Name) and x.id == name for x in ast.walk(e))  # noqa: E731
        for s in [x for b in h.body for x in ast.walk(b) if isinstance(x, ast.stmt)]:
            if isinstance(s, ast.Return) and s.value is not None and mentions(s.value):
                return "exception kept as value"
            if isinstance(s, ast.Expr) and isinstance(s.value, ast.Call) and isinstance(s.value.func, ast.Attribute) and s.value.func.attr in ("append", "extend", "insert") \
                    and any(mentions(a) for a in s.value.args):
                # stored into a collection that outlives the handler (read after it)
                coll = unparse(s.value.func.value)
                if any(isinstance(n, ast.Name) and n.id == coll and isinstance(n.ctx, ast.Load) and not contains(h, n) for n in walk_no_nested(fv.node)):
                    return "exception kept as value"
            if isinstance(s, ast.Assign) and mentions(s.value) and isinstance(s.targets[0], ast.Name):
                tgt = s.targets[0].id
                # the local must be used after the handler (appended / returned)
                uses = [n for n in walk_no_nested(fv.node) if isinstance(n, ast.Name) and n.id == tgt and isinstance(n.ctx, ast.Load)
                        and not contains(h, n)]
                if uses:
                    return "exception kept as value"
    return "swallows"


def located_error_terms(ck, repo):
    """E13: located_error interpreted over abstract failures x nodes x paths.  Every member of the failure is located once;
    a library error stays the same object; what gets bound into its coerce_value is exactly what it lacks: the path when one
    is given and the error neither carries one nor has one bound already, the locations of the nodes likewise; an attribute
    the error does not have is never read (user exceptions need only `coerce_value`)."""
    from .. import absint
    from ..absint import App, PartialV, RecV, Sym
    le = repo.func(ERRORS, "located_error")
    n = 0

    def node(i):
        return RecV("FieldNode", location=Sym(f"loc{i}"), _label=f"node{i}", _strict=True)

    def from_nodes(args, kwargs):
        nodes_ = kwargs.get("nodes")
        nodes_ = nodes_ if isinstance(nodes_, list) else ([] if nodes_ is None else [nodes_])
        return RecV("TartifletteError", bases=("Exception",), path=kwargs.get("path"), locations=[x.attrs["location"] for x in nodes_], coerce_value=Sym("TartifletteError.coerce_value"),
                    original_error=kwargs.get("original_error"), _label="from_nodes", _strict=True)

    def failures():
        P0, L0 = ["bound", "path"], [Sym("bound-loc")]
        cv = Sym("cv")
        yield "user exception with coerce_value only", lambda: RecV("UserError", bases=("Exception",), coerce_value=cv, _strict=True)
        yield "library error without path and locations", lambda: RecV("TartifletteError", bases=("Exception",), coerce_value=cv, path=None, locations=None, _strict=True)
        yield "library error with empty path and locations", lambda: RecV("TartifletteError", bases=("Exception",), coerce_value=cv, path=[], locations=[], _strict=True)
        yield "library error carrying its own path and locations", lambda: RecV("TartifletteError", bases=("Exception",), coerce_value=cv, path=["own"], locations=[Sym("own-loc")], _strict=True)
        yield "error whose coercer already binds a path", lambda: RecV("TartifletteError", bases=("Exception",), coerce_value=PartialV(cv, (), {"path": P0}), path=None, locations=None, _strict=True)
        yield "error whose coercer already binds path and locations", lambda: RecV("TartifletteError", bases=("Exception",), coerce_value=PartialV(cv, (), {"path": P0, "locations": L0}),
                                                                                   path=None, locations=None, _strict=True)
        yield "error whose coercer already binds locations", lambda: RecV("TartifletteError", bases=("Exception",), coerce_value=PartialV(cv, (), {"locations": L0}), path=None, locations=None,
                                                                          _strict=True)
        yield "foreign exception", lambda: RecV("ValueError", bases=("Exception",), _strict=True)

    def expected(e, nodes_l, path):
        if "coerce_value" not in e.attrs:
            return None  # wrapped by graphql_error_from_nodes: carries path and locations itself
        cv0 = e.attrs["coerce_value"]
        bound = cv0.kwargs if isinstance(cv0, PartialV) else {}
        add = {}
        if path and not e.attrs.get("path") and "path" not in bound:
            add["path"] = path
        if nodes_l and not e.attrs.get("locations") and "locations" not in bound:
            add["locations"] = [x.attrs["location"] for x in nodes_l]
        return PartialV(cv0, (), add) if add else cv0

    stubs = {"tartiflette.utils.errors.graphql_error_from_nodes": from_nodes}
    for label, mk in failures():
        for ntag, mknodes in (("no nodes", lambda: None), ("one node, not in a list", lambda: node(0)), ("two nodes", lambda: [node(0), node(1)])):
            for ptag, path in (("no path", None), ("a path", ["a", 0])):
                for multiple in (False, True):
                    members = [mk(), mk()] if multiple else [mk()]
                    orig = RecV("MultipleException", bases=("Exception",), exceptions=list(members), _strict=True) if multiple else members[0]
                    # what each member held before the call (the call rebinds coerce_value in place)
                    before = [RecV(m.cls, m.bases, **dict(m.attrs)) for m in members]
                    nodes_v = mknodes()
                    nodes_l = nodes_v if isinstance(nodes_v, list) else ([] if nodes_v is None else [nodes_v])
                    it = absint.Interp(repo, le.module, interpret={"tartiflette.utils.errors.is_coercible_exception"}, stubs=stubs)
                    tag = f"{label}; {ntag}; {ptag}" + ("; two members" if multiple else "")
                    try:
                        got = it.run(le, [orig, nodes_v, path])
                        why = None
                    except absint.Unsupported as ex:
                        raise AnalysisError(f"{le.short}: cannot be interpreted over abstract failures: {ex}")
                    except absint.PyRaise as ex:
                        got, why = None, f"raises {ex.name} ({ex.text})"
                    n += 1
                    ok = why is None and isinstance(got, App) and repr(got.func).endswith("MultipleException")
                    outs = []
                    if ok:
                        outs = got.kwargs.get("exceptions", got.args[0] if got.args else None)
                        ok = isinstance(outs, list) and len(outs) == len(members)
                    if ok:
                        for m, b, o in zip(members, before, outs):
                            want = expected(b, nodes_l, path)
                            if want is None:
                                ok = ok and isinstance(o, RecV) and o.attrs.get("_label") == "from_nodes" and o.attrs.get("original_error") is m and o.attrs.get("path") == path and \
                                    absint.norm(o.attrs.get("coerce_value")) == absint.norm(Sym("TartifletteError.coerce_value"))
                            else:
                                ok = ok and o is m and absint.norm(o.attrs["coerce_value"]) == absint.norm(want)
                            if not ok and why is None:
                                why = f"member answered with coerce_value {o.attrs.get('coerce_value') if isinstance(o, RecV) else o!r}; expected {want!r}"
                    ck.ob(f"located_error [{tag}]: each member located once, bound with exactly what it lacks", bool(ok), le, le.node, construct=f"located:terms:{tag}", detail=why or f"got {got!r}")
    ck.count("located_error_shapes", n, 90)


def errors_located_by_the_funnel_only(ck, repo):
    """An error built while a value is completed carries no path of its own: the path of the *position* that failed - list
    indexes included - is known to the completion funnel only (handle_field_error, from the Path it was handed), and
    located_error never overwrites a path an error already has.  So no error constructor called from the output coercers, the
    resolver factory or the executor is given a `path=` operand (info.path is the field's path, not the item's)."""
    n, bad = 0, []
    for f in repo.all_funcs():
        rel = f.module.relpath
        if not rel.startswith(("tartiflette/coercers/outputs/", "tartiflette/resolver/", "tartiflette/execution/", "tartiflette/types/helpers/")):
            continue
        if f.name in ("handle_field_error",):
            continue
        for c in FuncView(f).calls(["graphql_error_from_nodes", "TartifletteError", "to_graphql_error", "GraphQLError"]):
            n += 1
            if arg(c, None, "path") is not None:
                bad.append((f, c))
    for f, c in bad:
        ck.ob(f"{f.qualname}: the error built here is located by the completion funnel, not by itself", False, f, c, construct=f"located:own-path:{f.qualname}",
              detail=f"`path={unparse(arg(c, None, 'path'))}`: an error that already has a path keeps it - the failing list index or nested position is lost")
    ck.ob("no error constructor in the completion code is given a path of its own", not bad, where="tartiflette/coercers/outputs/", construct="located:own-path", evals=n)
    ck.count("completion_error_constructions", n, 4)
