"""C18 - execute always answers with a well-formed GraphQL response (envelope)."""
from __future__ import annotations

import ast
import itertools

from ..model import AnalysisError, dotted, unparse, walk_no_nested
from ..pathtab import Atoms, canon, evaluate
from ..q import FuncView, arg, arg_text, callee_last, contains, ifexp_parts, kwargs, strip_await
from . import c03, c07
from .c04 import _abort, _ret_class

EXPLANATION = (
    "Envelope decided structurally: build_response's decision table (data always present, errors present iff the "
    "coerced list is non-empty), one error-coercer call per error and one await of the user coercer per call, every "
    "source of entries of an errors list produces coercible objects, the catch-alls that keep execute from raising "
    "(C03.R6), nothing runs on syntax/validation errors (C07.R5), and operation selection (named and found, single "
    "anonymous, otherwise an error before variable coercion). Not decided: the C parser on arbitrary bytes (library "
    "absent here and outside the analysed language); locations lying inside the query text."
)


def check(ck):
    repo = ck.repo
    with ck.rule("R1"):
        f = repo.func("tartiflette/execution/response.py", "build_response")
        fv = FuncView(f)
        p = f.positional_params
        atoms = Atoms({"coerced_errors": "has_coerced_errors", p[2]: "has_errors"})
        src = [n for n in walk_no_nested(f.node) if isinstance(n, ast.Assign) and unparse(n.targets[0]) == "coerced_errors"]
        ok = len(src) == 1 and isinstance(src[0].value, ast.IfExp) and unparse(src[0].value.test) == p[2] and unparse(src[0].value.orelse) == "None"
        ck.ob("build_response: errors are coerced iff an error list was given", ok, f, src[0] if src else f.node, construct="envelope:coerce-iff-errors")
        atoms2 = Atoms({"coerced_errors": "has_coerced_errors"}, strict=False)
        atoms2.funcs.append(lambda e, txt: "has_coerced_errors" if txt.startswith("await asyncio.gather(") or txt == "coerced_errors" else None)
        for has in (False, True):
            got = set()
            for tr in fv.cfg.simulate(lambda n, env: evaluate(n.ast, env, {"has_coerced_errors": has}, atoms2)):
                rv = _ret_class(tr)
                if isinstance(rv, str) or not isinstance(rv, ast.Dict):
                    got.add(str(rv))
                    continue
                got.add(",".join(sorted(unparse(k) for k in rv.keys)))
            want = {"'data','errors'"} if has else {"'data'"}
            ck.ob(f"build_response table: coerced errors non-empty = {has}", got == want, f, f.node, construct=f"envelope:table:{int(has)}", detail=f"keys {sorted(got)}" + atoms2.note())
        for r in fv.returns():
            if isinstance(r.value, ast.Dict):
                d = {unparse(k): unparse(v) for k, v in zip(r.value.keys, r.value.values)}
                ck.ob("build_response: `data` carries the data it was given", d.get("'data'") == p[1], f, r, construct=f"envelope:data:{len(d)}")
                if "'errors'" in d:
                    ck.ob("build_response: `errors` carries the coerced errors", d["'errors'"] == "coerced_errors", f, r, construct="envelope:errors")
    with ck.rule("R2"):
        f = repo.func("tartiflette/execution/response.py", "build_response")
        fv = FuncView(f)
        p = f.positional_params
        g = fv.maybe_call("gather")
        ok = False
        if g is not None and g.args and isinstance(g.args[0], ast.Starred) and isinstance(g.args[0].value, ast.ListComp):
            lc = g.args[0].value
            gen = lc.generators[0]
            ok = unparse(gen.iter) == p[2] and not gen.ifs and unparse(lc.elt) == f"{p[0]}({unparse(gen.target)})" and len(lc.generators) == 1
        ck.ob("build_response: the error coercer is called exactly once per error, results kept in order", ok, f, g or f.node, construct="coercer:once-per-error")
        w = repo.func("tartiflette/utils/errors.py", "error_coercer_factory.func_wrapper")
        wv = FuncView(w)
        outer = repo.func("tartiflette/utils/errors.py", "error_coercer_factory")
        uc = [c for c in wv.calls() if isinstance(c.func, ast.Name) and c.func.id == outer.positional_params[0]]
        ok = len(uc) == 1 and wv.is_awaited(uc[0]) and isinstance(wv.stmt_of(uc[0]), ast.Return) and not wv.loops()
        ck.ob("error coercer wrapper: awaits the user's coercer exactly once and returns its value", ok, w, uc[0] if uc else w.node, construct="coercer:await-once")
        if uc:
            cv = wv.maybe_call("coerce_value")
            ok = cv is not None and [unparse(a) for a in uc[0].args] == [w.positional_params[0], unparse(wv.stmt_of(cv).targets[0])] and unparse(cv.func.value) == w.positional_params[0]
            ck.ob("error coercer wrapper: the user's coercer gets (exception, its default rendering)", ok, w, uc[0], construct="coercer:operands")
        rets = FuncView(outer).returns()
        ck.ob("error_coercer_factory returns the wrapper", len(rets) == 1 and unparse(rets[0].value) == "func_wrapper", outer, outer.node, construct="coercer:factory")
        e = repo.func("tartiflette/engine.py", "Engine.cook")
        st = {unparse(n.targets[0]): unparse(n.value) for n in walk_no_nested(e.node) if isinstance(n, ast.Assign) and isinstance(n.targets[0], ast.Attribute)}
        ck.ob("Engine.cook: the response builder is bound to the wrapped error coercer", st.get("self._build_response") == "partial(build_response, error_coercer=self._error_coercer)"
              and st.get("self._error_coercer") == "error_coercer_factory(custom_error_coercer or default_error_coercer)", e, e.node, construct="coercer:wired")
        d = repo.func("tartiflette/utils/errors.py", "default_error_coercer")
        r = FuncView(d).returns()
        ck.ob("default_error_coercer returns the default rendering unchanged", len(r) == 1 and unparse(r[0].value) == d.positional_params[1], d, d.node, construct="coercer:default")
    with ck.rule("R3"):
        _sources_coercible(ck, repo)
    with ck.rule("R4"):
        c03._never_raises(ck, repo)
        c07._nothing_runs(ck, repo)
        _operation_selection(ck, repo)
        _abort(ck, repo)
        # operations are indexed by name: a document with several anonymous operations must have been refused before
        from . import c06
        from ..validation import Wiring
        c06.lone_anonymous_table(ck, repo, Wiring(repo))
    with ck.rule("R5"):
        error_record_shape(ck, repo)
        # `path` is the list of keys / indices (a Path object is not serialisable): what handle_field_error hands to located_error
        from . import c02
        c02.r1(ck, repo)


def _sources_coercible(ck, repo):
    """Everything placed in an `errors` list handed to build_response has a coerce_value method."""
    # 1. validation errors: built by graphql_error_from_nodes -> TartifletteError
    g = repo.func("tartiflette/utils/errors.py", "graphql_error_from_nodes")
    r = FuncView(g).returns()
    ck.ob("validation / coercion errors are TartifletteError objects", len(r) == 1 and callee_last(r[0].value) == "TartifletteError", g, g.node, construct="source:from-nodes")
    ce = repo.func("tartiflette/coercers/common.py", "coercion_error")
    r = FuncView(ce).returns()
    ck.ob("coercion_error builds a CoercionError (a TartifletteError)", len(r) == 1 and callee_last(r[0].value) == "CoercionError" and
          repo.is_subclass(repo.cls("tartiflette/types/exceptions/tartiflette.py", "CoercionError"), "tartiflette.types.exceptions.tartiflette.TartifletteError"), ce, ce.node,
          construct="source:coercion-error")
    # 2. add_error wraps non-coercible exceptions
    ae = repo.func("tartiflette/execution/context.py", "ExecutionContext.add_error")
    st = [n for n in walk_no_nested(ae.node) if isinstance(n, ast.Assign) and isinstance(n.value, ast.IfExp)]
    wrapped = [s for s in st if ifexp_parts(s.value)[0] == "is_coercible_exception(exception)" and ifexp_parts(s.value)[1] == "exception" and ifexp_parts(s.value)[2].startswith("TartifletteError(")]
    ap = FuncView(ae).calls("append")
    ok = len(wrapped) == 1 and len(ap) == 1 and unparse(ap[0].args[0]) == unparse(wrapped[0].targets[0])
    ck.ob("add_error appends the exception itself only when coercible, otherwise a TartifletteError wrapping it", ok, ae, wrapped[0] if wrapped else ae.node, construct="source:add_error")
    # 3. engine catch-all wraps, 4. parser catch-all wraps (to_graphql_error)
    t = repo.func("tartiflette/utils/errors.py", "to_graphql_error")
    r = FuncView(t).returns()
    ok = len(r) == 1 and ifexp_parts(r[0].value) is not None and ifexp_parts(r[0].value)[0] == f"is_coercible_exception({t.positional_params[0]})" and ifexp_parts(r[0].value)[2].startswith("TartifletteError(")
    ck.ob("to_graphql_error wraps non-coercible exceptions", ok, t, t.node, construct="source:to_graphql_error")
    rr = r[0].value if len(r) == 1 else None
    from ..q import arg_text as _at
    call = rr.orelse if isinstance(rr, ast.IfExp) and not (isinstance(rr.test, ast.UnaryOp)) else None
    ck.ob("to_graphql_error keeps the given message (else the exception's text) and the original error",
          isinstance(call, ast.Call) and _at(call, 0) == f"{t.positional_params[1]} or str({t.positional_params[0]})" and _at(call, None, "original_error") == t.positional_params[0], t,
          t.node, construct="source:to_graphql_error:operands")
    from .. import parsegate
    parsegate.check(ck, repo, tag="source:parser")
    ic = repo.func("tartiflette/utils/errors.py", "is_coercible_exception")
    r = FuncView(ic).returns()
    ck.ob("is_coercible_exception: has a callable coerce_value", len(r) == 1 and unparse(r[0].value) == f"hasattr({ic.positional_params[0]}, 'coerce_value') and callable({ic.positional_params[0]}.coerce_value)",
          ic, ic.node, construct="source:predicate")
    bc = repo.func("tartiflette/execution/context.py", "build_execution_context")
    # (that the selection error is a TartifletteError is part of the path table of build_execution_context, R4)
    errs_built = [c for c in FuncView(bc).calls("TartifletteError")]
    ck.ob("operation-selection errors are TartifletteError objects", len(errs_built) >= 1, bc, errs_built[0] if errs_built else bc.node, construct="source:operation")
    le = repo.func("tartiflette/utils/errors.py", "located_error")
    st = [n for n in walk_no_nested(le.node) if isinstance(n, ast.Assign) and isinstance(n.value, ast.IfExp) and unparse(n.targets[0]) == "graphql_error"]
    ok = len(st) == 1 and ifexp_parts(st[0].value)[0] == "is_coercible_exception(exception)" and ifexp_parts(st[0].value)[2].startswith("graphql_error_from_nodes(")
    ck.ob("located_error wraps non-coercible exceptions", ok, le, st[0] if st else le.node, construct="source:located")


def error_record_shape(ck, repo):
    """What TartifletteError.coerce_value answers (shared with C02.R7)."""
    cv = repo.func("tartiflette/types/exceptions/tartiflette.py", "TartifletteError.coerce_value")
    d = [n for n in walk_no_nested(cv.node) if isinstance(n, ast.Dict)]
    keys = {unparse(k): unparse(v) for k, v in zip(d[0].keys, d[0].values)} if d else {}
    ck.ob("error record: message (string), path, locations", set(keys) == {"'message'", "'path'", "'locations'"} and keys.get("'message'") == "self.user_message or self.message"
          and keys.get("'path'") == "path or self.path", cv, d[0] if d else cv.node, construct="record:keys", detail=str(keys))
    fvv = FuncView(cv)
    rets = fvv.returns()
    dname = None
    for n in walk_no_nested(cv.node):
        if isinstance(n, ast.Assign) and isinstance(n.value, ast.Dict) and d and n.value is d[0]:
            dname = unparse(n.targets[0])
    ck.ob("error record: coerce_value returns the record it built", len(rets) == 1 and dname is not None and unparse(rets[0].value) == dname, cv, rets[0] if rets else cv.node, construct="record:returned")
    ext = [n for n in walk_no_nested(cv.node) if isinstance(n, ast.Assign) and isinstance(n.targets[0], ast.Subscript) and unparse(n.targets[0].slice) == "'extensions'"]
    ck.ob("error record: `extensions` is present exactly when the error carries some", len(ext) == 1 and set(fvv.conditions(ext[0])) == {("self.extensions", "T")} and
          unparse(ext[0].targets[0].value) == dname, cv, ext[0] if ext else cv.node, construct="record:extensions-iff")
    lp = [l for l in fvv.loops() if isinstance(l, ast.For)]
    ck.ob("error record: locations come from the attached locations, else from the error's own", len(lp) == 1 and unparse(lp[0].iter) == "locations or self.locations", cv,
          lp[0] if lp else cv.node, construct="record:locations-source")
    loc = repo.func("tartiflette/language/ast/location.py", "Location.collect_value")
    r = FuncView(loc).returns()
    ok = len(r) == 1 and isinstance(r[0].value, ast.Dict) and {unparse(k): unparse(v) for k, v in zip(r[0].value.keys, r[0].value.values)} == {"'line'": "self.line", "'column'": "self.column"}
    ck.ob("location record: {line, column} of the node's start", ok, loc, loc.node, construct="record:location")
    fv = FuncView(cv)
    app = [c for c in fv.calls("append") if unparse(c.func.value) == "computed_locations"]
    ok = len(app) == 1 and unparse(app[0].args[0]).endswith(".collect_value()") and keys.get("'locations'") == "computed_locations"
    ck.ob("error record: locations are the collected node locations (a list)", ok, cv, app[0] if app else cv.node, construct="record:locations-list")
    init = repo.cls("tartiflette/types/exceptions/tartiflette.py", "TartifletteError").self_attrs()
    ck.ob("error objects normalise path to list-or-None and locations to a list", unparse(init.get("path")) == "path or None" and unparse(init.get("locations")) == "locations or []",
          cv, cv.node, construct="record:normalised")


def context_table(ck, repo, tag="select"):
    """Path-outcome table of build_execution_context (shape-independent; shared with C04.R3): which operation is selected,
    when the answer is an errors-only pair, when a context is built."""
    from ..pathtab import outcome_rows, truth
    from ..q import inlined_view
    f = repo.func("tartiflette/execution/context.py", "build_execution_context")
    on = f.positional_params[5]
    rows = outcome_rows(inlined_view(repo, f, max_stmts=30))
    n = 0
    seen = {}
    for r in rows:
        if r["exit"] != "return_exit" or not isinstance(r["ret"], ast.Tuple) or len(r["ret"].elts) != 2:
            ck.ob("build_execution_context: every path answers a (context, errors) pair", False, f, r["last"] or f.node, construct=f"{tag}:pair")
            continue
        first, second = unparse(r["ret"].elts[0]), unparse(r["ret"].elts[1])
        named = truth(r, on)
        single = [o for t, o in r["conds"] if t.replace(" ", "").startswith("len(") and t.replace(" ", "").endswith(")==1")]
        op = r["sym"].get("operation")
        op_t = unparse(op) if op is not None else None
        if named == "T":
            sel, want_op = "named", lambda t: t is not None and t.endswith(f".get({on})")
        elif single and single[-1] == "T":
            # the only entry of the mapping, however it is fetched
            sel, want_op = "single", lambda t: t is not None and (".popitem()" in t or (t.startswith("next(iter(") and t.endswith(".values()))")) or
                                                                   (t.startswith("list(") and t.endswith(".values())[0]")))
        else:
            sel, want_op = "none", lambda t: t in (None, "None")
        found = None if sel == "none" else (truth(r, op_t) if op_t else None)
        verr = [o for t, o in r["conds"] if "coerce_variables(" in t and t.rstrip().endswith("[1]")]
        key = (sel, found, verr[-1] if verr else None)
        n += 1
        if sel == "single" and named != "F":
            ok, why = False, "the only operation is taken without asking whether a name was requested (an unknown name must be an error, not the lone operation)"
        elif sel != "none" and not want_op(op_t):
            ok, why = False, f"selected operation is `{op_t}`"
        elif sel == "none" or found == "F":
            ok = first == "None" and second.startswith("[TartifletteError(") and not verr
            why = "no operation selected: an errors-only pair holding one TartifletteError, variables not coerced"
        elif verr and verr[-1] == "T":
            ok = first == "None" and "coerce_variables(" in second
            why = "variable errors: an errors-only pair holding them"
        elif verr and verr[-1] == "F":
            ok = first.startswith("ExecutionContext(") and second == "None"
            why = "no error: a context and no errors"
        else:
            ok, why = False, "an operation is selected but its variables are not coerced on this path"
        seen.setdefault(key, []).append(ok)
        if not ok:
            ck.ob(f"build_execution_context [{sel}, found={found}, variable errors={verr[-1] if verr else None}]: {why}", False, f, r["last"] or f.node,
                  construct=f"{tag}:table:{sel}:{found}:{verr[-1] if verr else None}", detail=f"answers ({first[:60]}, {second[:80]})")
    want_keys = {("named", "T", "T"), ("named", "T", "F"), ("named", "F", None), ("single", "T", "T"), ("single", "T", "F"), ("none", None, None)}
    ck.ob("build_execution_context: named-and-found / single anonymous / otherwise an error; errors-only pair on any error, a context otherwise - on every path",
          want_keys <= set(seen) and all(all(v) for v in seen.values()), f, f.node, construct=f"{tag}:table", detail=str(sorted(map(str, seen))), evals=max(1, n))


def _operation_selection(ck, repo):
    f = repo.func("tartiflette/execution/context.py", "build_execution_context")
    fv = FuncView(f)
    context_table(ck, repo)
    from ..q import inlined_view as _iv
    fv = _iv(repo, f, max_stmts=30)   # a helper that sorts the definitions is part of the selection
    lp = [l for l in fv.loops() if isinstance(l, ast.For) and unparse(l.iter).endswith(".definitions")]
    ok = False
    if len(lp) == 1:
        d = unparse(lp[0].target)
        # the store that is reached for operation definitions only
        st = [n for n in walk_no_nested(lp[0]) if isinstance(n, ast.Assign) and isinstance(n.targets[0], ast.Subscript) and unparse(n.value) == d
              and fv.guarded(n, lambda t: t == f"isinstance({d}, OperationDefinitionNode)", "T")]
        if len(st) == 1:
            key = st[0].targets[0].slice
            want = f"{d}.name.value if {d}.name else None"
            if unparse(key) == want:
                ok = True
            elif isinstance(key, ast.Name):
                # an intermediate: `k = d.name.value if d.name else None`, possibly already expanded into two guarded assignments
                defs = [n for n in walk_no_nested(lp[0]) if isinstance(n, ast.Assign) and unparse(n.targets[0]) == key.id]
                got = set()
                for n in defs:
                    if unparse(n.value) == want:
                        got = {"T", "F"}
                    elif unparse(n.value) == f"{d}.name.value" and fv.guarded(n, lambda t: t == f"{d}.name", "T"):
                        got.add("T")
                    elif unparse(n.value) == "None" and fv.guarded(n, lambda t: t == f"{d}.name", "F"):
                        got.add("F")
                    else:
                        got.add("?")
                ok = got == {"T", "F"}
    ck.ob("operation selection: operations are indexed by their name (None for the anonymous one)", ok, f, lp[0] if lp else f.node, construct="select:index")
