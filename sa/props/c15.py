"""C15 - concurrent requests on one engine do not influence each other (effects)."""
from __future__ import annotations

import ast

from ..effects import MUTATORS, is_fresh_expr
from ..model import AnalysisError, dotted, unparse, walk_no_nested
from ..phases import AST_ROOTS, SCHEMA_ROOTS, phases
from ..q import FuncView, arg_text, callee_last, kwargs

EXPLANATION = (
    "Effect census over the functions that can run after the cache lookup (reference graph with slot-name points-to): "
    "every store / mutator call / setattr writes an object created by the current request (fresh local, constructor, "
    "per-request class, or a parameter that is fresh at every call site inside the phase), never an object reached "
    "from the schema or from the cached document; request state lives in per-request objects constructed per call; "
    "no mutable defaults or class-level containers in the request phase. Not decided: interference through user objects."
)
ASSUMPTIONS = [
    "exception objects are created per failure (user code does not re-raise a shared singleton exception)",
    "the reference graph is an over-approximation by attribute/keyword name; a write performed through exec/eval/setattr with computed names is reported as a site of kind setattr",
]

# confirmed by reading: writes whose receiver is not provably created by the request (function, receiver) -> reason
FROZEN = {
    ("tartiflette/coercers/variables.py::variable_coercer", "coerce_error"):
        "errors produced by this request's own input coercion (created inside the coercers called two lines above)",
    ("tartiflette/directive/builtins/non_introspectable.py::NonIntrospectableDirective.on_schema_execution", "schema"):
        "writes the constant False, idempotently, before any resolver of the request runs; every request of a schema marked @nonIntrospectable writes the same value",
    ("tartiflette/utils/errors.py::located_error", "graphql_error"):
        "exception objects are created per failure; shared only if user code re-raises a singleton (stated assumption)",
}


def _frozen_still_holds(f, site) -> bool:
    """A reasoned exception covers the write it was reasoned about, not every write of that function: the @nonIntrospectable
    hook may store the constant False into the schema's flag (idempotent, same value from every request) - a store of anything
    else (a saved value restored after the await, True) is a request writing shared state that other requests read."""
    if f.short.endswith("NonIntrospectableDirective.on_schema_execution"):
        n = site.node
        st = n if isinstance(n, ast.stmt) else None
        if isinstance(st, ast.Assign):
            return isinstance(st.value, ast.Constant) and st.value.value is False
        if isinstance(st, (ast.AugAssign, ast.Delete)):
            return False
        txt = unparse(n)
        return txt.replace(" ", "").endswith("=False")
    return True


def check(ck):
    repo = ck.repo
    ph = phases(repo)
    ck.count("exec_phase_functions", len(ph.exec_set), 100)
    ck.count("call_sites_resolved_percent", int(100 * ph.graph.n_resolved / max(1, ph.graph.n_calls)), 40)
    sites = ph.sites(ph.exec_set)
    ck.count("exec_phase_write_sites", len(sites), 100)

    with ck.rule("R1"):
        r1(ck, ph, sites)
    with ck.rule("R2"):
        r2(ck, ph, sites)
    with ck.rule("R3"):
        _per_request_objects(ck, repo, ph)


def r1(ck, ph, sites):
    if True:
        n_interesting = 0
        for f, s, c, why in sites:
            ok, reason = ph.judge(f, s, c, why, ph.exec_prov)
            if c in ("FRESH", "SELF-PER-REQUEST") and ok:
                continue  # counted in evidence, not listed one by one
            n_interesting += 1
            key = (f.short, s.root or "")
            if not ok and key in FROZEN and _frozen_still_holds(f, s):
                ck.ob(f"{f.qualname}: write to `{s.receiver_text()}` is a reasoned exception", True, f, s.node, construct=f"write:{s.receiver_text()}:{s.kind}",
                      detail=FROZEN[key])
                continue
            ck.ob(f"{f.qualname}: `{s.text[:60]}` writes an object created by the current request", ok, f, s.node,
                  construct=f"write:{s.receiver_text()[:60]}:{s.kind}:{s.detail}", detail=reason)
        fresh = len(sites) - n_interesting
        ck.ob(f"EXEC-phase write census: {fresh} sites write fresh locals / constructors / per-request classes", fresh >= 0, where="tartiflette/",
              construct="census:fresh", evals=fresh)
        ck.sample({"exec_phase_functions": len(ph.exec_set), "write_sites": len(sites), "fresh_or_per_request": fresh, "examined_individually": n_interesting})



def r2(ck, ph, sites):
    if True:
        bad = 0
        for f, s, c, why in sites:
            root = s.root or ""
            if f.name == "__init__" or c in ("FRESH", "SELF-PER-REQUEST"):
                continue  # a local that merely shares a name with a document/schema role but is bound to a fresh container
            if (f.short, root) in FROZEN and _frozen_still_holds(f, s):
                continue
            if root in AST_ROOTS or root in SCHEMA_ROOTS:
                # the name is only a hint: a parameter of that name which is a fresh object at every call site of the phase
                # (a helper handed the caller's own new dict) is not a shared object
                ok_, _why = ph.judge(f, s, c, why, ph.exec_prov)
                if c == "PARAM" and ok_:
                    continue
                bad += 1
                ck.ob(f"{f.qualname}: no write through `{root}` (cached document / schema objects stay read-only after the cache lookup)", False, f, s.node,
                      construct=f"readonly:{s.receiver_text()[:60]}:{s.kind}",
                      detail="the parsed document and the schema are shared by every request served from the cache")
        ck.ob("no EXEC-phase write site has a receiver rooted at a document-node or schema-object name", bad == 0, where="tartiflette/", construct="readonly:census",
              evals=len(sites))
        # positive control: the classifier does recognise such a write when it exists
        import ast as _ast
        probe = _ast.parse("def f(field_nodes):\n    field_nodes[0].directives.append(1)").body[0]
        from ..effects import _root_name
        call = [n for n in _ast.walk(probe) if isinstance(n, _ast.Call)][0]
        ck.ob("positive control: a write through `field_nodes` is recognised", _root_name(call.func.value) in AST_ROOTS, where="sa/props/c15.py", construct="readonly:control")


def _no_shared_exception_instance(ck, repo):
    """Every `raise` of the package raises an exception built for this failure (a call, a class, a caught or locally built
    object): located_error / graphql_error_from_nodes decorate a coercible exception *in place* with the failing field's path
    and locations and never overwrite them, so an import-time instance would carry the first request's path into every later one."""
    n = 0
    for f in repo.all_funcs():
        bound = set(f.positional_params) | {a.arg for a in f.node.args.kwonlyargs}
        for x in walk_no_nested(f.node):
            if isinstance(x, (ast.Assign, ast.AnnAssign, ast.AugAssign, ast.For, ast.AsyncFor, ast.With, ast.AsyncWith, ast.NamedExpr, ast.comprehension)):
                for t in ast.walk(x):
                    if isinstance(t, ast.Name) and isinstance(t.ctx, ast.Store):
                        bound.add(t.id)
            elif isinstance(x, ast.ExceptHandler) and x.name:
                bound.add(x.name)
        for x in walk_no_nested(f.node):
            if not isinstance(x, ast.Raise) or x.exc is None:
                continue
            n += 1
            e = x.exc
            if not isinstance(e, ast.Name) or e.id in bound:
                continue
            target = f.module.assigns.get(e.id)
            if target is None:
                target = repo.lookup(repo.resolve_name(f.module, e.id))
            if isinstance(target, ast.Call):
                ck.ob(f"{f.qualname}: raises an exception built for this failure, not the import-time instance `{e.id}`", False, f, x, construct=f"global:shared-exception:{e.id}",
                      detail="one exception object shared by every request (and every engine): the error path / locations written into it by the first failure are reported for all later ones")
    ck.ob("no raise statement of the package raises a module-level exception instance", True, where="tartiflette/", construct="raise:census", evals=n)
    # positive control: the census recognises such a raise when there is one
    import textwrap
    probe = ast.parse(textwrap.dedent("""
        _E = ValueError("x")
        def f():
            raise _E
    """))
    glob = {t.id: st.value for st in probe.body if isinstance(st, ast.Assign) for t in st.targets}
    r = [x for x in ast.walk(probe) if isinstance(x, ast.Raise)][0]
    ck.ob("positive control: raising an import-time instance is recognised", isinstance(glob.get(r.exc.id), ast.Call), where="sa/props/c15.py", construct="raise:control")
    ck.count("raise_statements", n, 60)


def _per_request_objects(ck, repo, ph):
    _no_shared_exception_instance(ck, repo)
    # what two requests in flight share is the baked schema and the parsed-document cache: a memoised helper is one more object
    # both receive (a list of suggestions one request's error builder pops from is shorter for the other)
    from .c16 import no_other_cache
    no_other_cache(ck, repo)
    ctor_sites = {"ExecutionContext": [], "ResolveInfo": []}
    for f in repo.all_funcs():
        for n in walk_no_nested(f.node):
            if isinstance(n, ast.Call) and isinstance(n.func, ast.Name) and n.func.id in ctor_sites:
                ctor_sites[n.func.id].append(f)
    ck.ob("ExecutionContext is constructed only inside build_execution_context (once per request)",
          [f.name for f in ctor_sites["ExecutionContext"]] == ["build_execution_context"], where="tartiflette/execution/context.py", construct="ctor:ExecutionContext",
          detail=str([f.short for f in ctor_sites["ExecutionContext"]]))
    ck.ob("ResolveInfo is constructed only inside build_resolve_info (once per field execution)",
          [f.name for f in ctor_sites["ResolveInfo"]] == ["build_resolve_info"], where="tartiflette/execution/types.py", construct="ctor:ResolveInfo",
          detail=str([f.short for f in ctor_sites["ResolveInfo"]]))
    # no memoisation of either: no module-level / class-level binding, no functools cache on the builders
    for rel, builder in (("tartiflette/execution/context.py", "build_execution_context"), ("tartiflette/execution/types.py", "build_resolve_info")):
        b = repo.func(rel, builder)
        ck.ob(f"{builder} is not memoised", not b.decorators, b, b.node, construct=f"memo:{builder}", detail=str(b.decorators))
        mod = b.module
        mutable = [k for k, v in mod.assigns.items() if isinstance(v, (ast.Dict, ast.List, ast.Set)) or (isinstance(v, ast.Call) and dotted(v.func) in ("dict", "list", "set"))]
        ck.ob(f"{rel}: no module-level mutable container", not mutable, where=rel, construct=f"module-state:{rel}", detail=str(mutable))
    # errors list is created per context
    ec = repo.cls("tartiflette/execution/context.py", "ExecutionContext")
    a = ec.self_attrs()
    ck.ob("ExecutionContext.__init__ binds `errors` to a fresh list", unparse(a.get("errors")) in ("[]", "list()"), ec.methods["__init__"], ec.methods["__init__"].node,
          construct="errors:fresh")
    for cname, rel in (("ExecutionContext", "tartiflette/execution/context.py"), ("ResolveInfo", "tartiflette/execution/types.py"), ("Path", "tartiflette/coercers/common.py"),
                       ("CoercionResult", "tartiflette/coercers/common.py"), ("Validators", "tartiflette/language/validators/__init__.py")):
        c = repo.cls(rel, cname)
        mutable = [k for k, v in c.class_attrs.items() if k != "__slots__" and (isinstance(v, (ast.Dict, ast.List, ast.Set)) or
                   (isinstance(v, ast.Call) and dotted(v.func) in ("dict", "list", "set")))]
        ck.ob(f"{cname}: no class-level mutable attribute", not mutable, where=rel, construct=f"class-state:{cname}", detail=str(mutable))
    # build_execution_context passes this request's own values
    b = repo.func("tartiflette/execution/context.py", "build_execution_context")
    bv = FuncView(b)
    c = bv.maybe_call("ExecutionContext")
    kw = {k: unparse(v) for k, v in kwargs(c).items()} if c is not None else {}
    p = b.positional_params
    want = {"schema": p[0], "fragments": "fragments", "operation": "operation", "context": p[3], "root_value": p[2], "variable_values": "variable_values"}
    ck.ob("the execution context carries this request's schema, fragments, operation, context, root value and coerced variables", kw == want, b, c or b.node,
          construct="ctx:operands", detail=str(kw))
    for name in ("fragments", "operations", "errors", "variable_values"):
        binds = [n for n in walk_no_nested(b.node) if isinstance(n, (ast.Assign, ast.AnnAssign)) and unparse(n.targets[0] if isinstance(n, ast.Assign) else n.target) == name]
        own = lambda v: is_fresh_expr(v) or isinstance(v, (ast.Call, ast.Await)) or (isinstance(v, ast.Tuple) and all(is_fresh_expr(e) or isinstance(e, (ast.Call, ast.Await)) for e in v.elts))  # noqa: E731
        ck.ob(f"build_execution_context: every binding of `{name}` is a container made by this call (a display, or what a callee answered), never one reached from the document or the schema",
              all(own(x.value) for x in binds if x.value is not None), b, binds[0] if binds else b.node, construct=f"ctx:fresh:{name}")
    # no mutable default argument in any request-phase function
    n = 0
    for fq in sorted(ph.exec_set | ph.parse_set):
        f = ph.graph.funcs[fq]
        for pname, d in f.param_defaults().items():
            n += 1
            if isinstance(d, (ast.List, ast.Dict, ast.Set)) or (isinstance(d, ast.Call) and dotted(d.func) in ("list", "dict", "set")):
                ck.ob(f"{f.qualname}: parameter `{pname}` has no mutable default", False, f, f.node, construct=f"mutable-default:{pname}")
    ck.ob("no request-phase function has a mutable default argument", True, where="tartiflette/", construct="mutable-default:census", evals=n)
    # user-visible error rendering hands out a copy of the shared extensions dict (validation errors alias their rule's dict)
    cv = repo.func("tartiflette/types/exceptions/tartiflette.py", "TartifletteError.coerce_value")
    ext = [n for n in walk_no_nested(cv.node) if isinstance(n, ast.Assign) and isinstance(n.targets[0], ast.Subscript) and unparse(n.targets[0].slice) == "'extensions'"]
    ok = len(ext) == 1 and unparse(ext[0].value) in ("dict(self.extensions)", "{**self.extensions}", "self.extensions.copy()")
    ck.ob("coerce_value hands out a copy of `extensions` (every error of a validation rule aliases that rule's single dict)", ok, cv, ext[0] if ext else cv.node,
          construct="extensions:copy")
    stores = [s for s in __import__("sa.effects", fromlist=["write_sites"]).write_sites(cv) if s.root == "self"]
    ck.ob("coerce_value performs no store on the error object", not stores, cv, stores[0].node if stores else cv.node, construct="coerce_value:pure")
