"""C12 - an engine is never built from an SDL that breaks a checked schema rule."""
from __future__ import annotations

import ast

from ..cfg import handler_types, is_broad_handler
from ..model import AnalysisError, dotted, unparse, walk_no_nested
from ..q import FuncView, arg, arg_text, callee_last, contains, kwargs, strip_await

EXPLANATION = (
    "Census: every nullary error-list validator of GraphQLSchema is in the list iterated by _validate / "
    "_validate_extensions, both accumulate every result and raise iff errors exist. Must-pass-through: every path of "
    "GraphQLSchema.bake to a normal return passes both drivers, the two exception-swallowing blocks lie between them; "
    "Engine.cook binds the schema only from the awaited bake and sets the cooked flag after it; nothing on the chain "
    "cook -> bakery -> SDL parser swallows an exception. A clause table (27 instances) ties each rule of the statement "
    "to the validator statement that reports it under the guard the clause names. Redefinitions raise before any store. "
    "Not decided: that each validator's predicate catches the violation at every site of every schema."
)
SCH = "tartiflette/schema/schema.py"

# (function qualname, clause, [(condition text, outcome)], handler type or None, what is appended/raised contains)
CLAUSES = [
    ("GraphQLSchema._validate_schema_named_types", "field of an undefined type", [("str(reduced_type) in self.type_definitions", "F")], None, "does not exist"),
    ("GraphQLSchema._validate_type_is_an_input_types", "argument / input field of an undefined or non-input type", [("rtype in self._input_types", "F")], None, "not a Scalar, an Enum or an InputObject"),
    ("GraphQLSchema._validate_object_follow_interfaces", "implements a non-interface", [("isinstance(iface_type, GraphQLInterfaceType)", "F")], None, "is not an interface"),
    ("GraphQLSchema._validate_object_follow_interfaces", "implements an undefined interface", [], "KeyError", "does not exist"),
    ("GraphQLSchema._validate_field_follow_interface", "interface field missing on the object", [], "KeyError", "is missing as defined"),
    ("GraphQLSchema._validate_field_follow_interface", "interface field of an incompatible type", [("self._validate_field_type_is_same_as_interface_type(object_field.gql_type, iface_field.gql_type)", "F")], None, "should be of Type"),
    ("_validated_field_args_are_same_as_interface_args", "interface field argument missing", [], "KeyError", "is missing interface field argument"),
    ("_validated_field_args_are_same_as_interface_args", "interface field argument mistyped", [("obj_field_arg.gql_type == iface_field_arg.gql_type", "F")], None, "is not of type"),
    ("_validated_field_args_are_same_as_interface_args", "extra required argument", [("isinstance(obj_field.arguments[arg_name].gql_type, GraphQLNonNull)", "T")], None, "cannot be NonNullable"),
    ("GraphQLSchema._validate_schema_root_types_exist", "query root missing", [("self.query_operation_name in self.type_definitions", "F")], None, "Missing Query Type"),
    ("GraphQLSchema._validate_schema_root_types_exist", "named mutation root undefined", [("self.mutation_operation_name == 'Mutation'", "F"), ("self.mutation_operation_name in self.type_definitions", "F")], None, "Missing Mutation Type"),
    ("GraphQLSchema._validate_schema_root_types_exist", "named subscription root undefined", [("self.subscription_operation_name == 'Subscription'", "F"), ("self.subscription_operation_name in self.type_definitions", "F")], None, "Missing Subscription Type"),
    ("GraphQLSchema._validate_non_empty_object", "object without fields", [("isinstance(gql_type, GraphQLObjectType)", "T")], None, "has no fields"),
    ("GraphQLSchema._validate_union_is_acceptable", "union containing itself", [("isinstance(gql_type, GraphQLUnionType)", "T"), ("contained_type_name == type_name", "T")], None, "contains itself"),
    ("GraphQLSchema._validate_all_scalars_have_implementations", "scalar without implementation", [("isinstance(gql_type, GraphQLScalarType)", "T")], None, "missing an implementation"),
    ("GraphQLSchema._validate_enum_values_are_unique", "duplicate enum values", [("isinstance(gql_type, GraphQLEnumType)", "T")], None, "is not unique"),
    ("GraphQLSchema._validate_directive_implementation", "directive hook not awaitable", [("attr", "T"), ("is_valid_coroutine(attr)", "F")], None, "is not awaitable"),
    ("GraphQLSchema._validate_directive_implementation", "subscription hook not an async generator", [("attr", "T"), ("is_valid_async_generator(attr)", "F")], None, "is not an Async Generator"),
    ("_validate_extension", "extend of an unknown target", [("extended", "F")], None, "non existing type"),
    ("_validate_extension", "extend of the wrong kind", [("isinstance(extended, ext_type)", "F")], None, "cause it's not an"),
    ("_validate_extension_directives", "extension repeats a directive", [("directive.name.value in extended_dir", "T")], None, "already there"),
    ("GraphQLSchema._validate_enum_extensions", "extension repeats an enum value", [("value.name in values", "T")], None, "value already exists"),
    ("GraphQLSchema._validate_object_extensions", "extension repeats a field", [("field in extended.implemented_fields", "T")], None, "field already exists"),
    ("GraphQLSchema._validate_object_extensions", "extension repeats an interface", [("interface in extended.interfaces_names", "T")], None, "Interface already exists"),
    ("GraphQLSchema._validate_union_extensions", "extension repeats a union member", [("typ in extended.types", "T")], None, "PossibleType already exists"),
    ("GraphQLSchema._validate_input_object_extensions", "extension repeats an input field", [("ifield in extended.input_fields", "T")], None, "already exists"),
    ("GraphQLSchema._validate_interface_extensions", "extension repeats a field", [("field in extended.implemented_fields", "T")], None, "field already exists"),
]
EXT_KINDS = {"_validate_enum_extensions": ("GraphQLEnumTypeExtension", "GraphQLEnumType"), "_validate_object_extensions": ("GraphQLObjectTypeExtension", "GraphQLObjectType"),
             "_validate_union_extensions": ("GraphQLUnionTypeExtension", "GraphQLUnionType"), "_validate_input_object_extensions": ("GraphQLInputObjectTypeExtension", "GraphQLInputObjectType"),
             "_validate_interface_extensions": ("GraphQLInterfaceTypeExtension", "GraphQLInterfaceType"), "_validate_scalar_extensions": ("GraphQLScalarTypeExtension", "GraphQLScalarType")}


def check(ck):
    repo = ck.repo
    with ck.rule("R1"):
        _census(ck, repo)
    with ck.rule("R2"):
        _must_pass(ck, repo)
        # the root-type existence clause judges the names as `extend schema` left them: the extension must store them
        # whether or not the named type exists
        from .c11 import schema_extension_merges
        schema_extension_merges(ck, repo)
        bake_pipeline(ck, repo)
    with ck.rule("R3"):
        _clauses(ck, repo)
        interface_field_type_table(ck, repo, side="refuse")
        # ... whose last clause asks the interface for its possible types: answered for the type as given, from the complete set
        from .c03 import possible_type_sets
        possible_type_sets(ck, repo)
    with ck.rule("R4"):
        _redefinitions(ck, repo)


def _census(ck, repo):
    sc = repo.cls(SCH, "GraphQLSchema")
    nullary = [m for n, m in sc.methods.items() if n.startswith("_validate") and m.positional_params == ["self"]]
    ck.count("nullary_validate_methods", len(nullary), 19)
    drivers = {"_validate": sc.methods["_validate"], "_validate_extensions": sc.methods["_validate_extensions"]}
    listed = {}
    for dn, d in drivers.items():
        dv = FuncView(d)
        lst = [n for n in walk_no_nested(d.node) if isinstance(n, ast.Assign) and isinstance(n.value, ast.List)]
        names = []
        lname = None
        for n in lst:
            el = [unparse(e) for e in n.value.elts]
            if el and all(e.startswith("self._validate") for e in el):
                names = [e.split(".", 1)[1] for e in el]
                lname = unparse(n.targets[0])
        listed[dn] = names
        lp = [l for l in dv.loops() if isinstance(l, ast.For) and unparse(l.iter) == lname]
        ok = len(lp) == 1
        if ok:
            ext = [c for c in dv.calls("extend") if contains(lp[0], c)]
            ok = len(ext) == 1 and unparse(ext[0].args[0]) == f"{unparse(lp[0].target)}()" and not any(isinstance(x, (ast.Break, ast.Continue, ast.Return, ast.Try)) for x in walk_no_nested(lp[0]))
            acc = unparse(ext[0].func.value) if ext else None
        ck.ob(f"{dn}: runs every listed validator and accumulates each result", ok, d, lp[0] if lp else d.node, construct=f"driver:{dn}:accumulate")
        rs = dv.raises()
        ok = len(rs) == 1 and "GraphQLSchemaError" in unparse(rs[0].exc) and set(dv.conditions(rs[0])) == {(acc, "T")} and not dv.enclosing_loops(rs[0])
        ck.ob(f"{dn}: raises GraphQLSchemaError iff any error was accumulated", ok, d, rs[0] if rs else d.node, construct=f"driver:{dn}:raise")
        ck.ob(f"{dn}: no handler (a validator's own failure is not swallowed)", not dv.handlers(), d, d.node, construct=f"driver:{dn}:no-handler")
    all_listed = set(listed["_validate"]) | set(listed["_validate_extensions"])
    for m in sorted(nullary, key=lambda m: m.name):
        if m.name in drivers:
            continue
        ck.ob(f"validator {m.name} is run by a driver", m.name in all_listed, m, m.node, construct=f"census:{m.name}", detail="a validator that is defined but not listed is never executed")
        rets = FuncView(m).returns()
        ck.ob(f"validator {m.name} returns its error list on every path", bool(rets) and all(unparse(r.value) in ("errors", "[]") for r in rets) and any(unparse(r.value) == "errors" for r in rets),
              m, m.node, construct=f"census:{m.name}:returns")
    for n in sorted(all_listed):
        ck.ob(f"listed validator {n} exists", n in sc.methods, where=SCH, construct=f"census:listed:{n}")
    ck.ob("extension validators are listed in the extension driver and only there",
          set(listed["_validate_extensions"]) == {n for n in sc.methods if n.endswith("_extensions") and n != "_validate_extensions" and n.startswith("_validate")}, where=SCH,
          construct="census:extension-driver", detail=str(listed["_validate_extensions"]))


def _must_pass(ck, repo):
    b = repo.func(SCH, "GraphQLSchema.bake")
    bv = FuncView(b)
    ve = [c for c in bv.calls("_validate_extensions")]
    v = [c for c in bv.calls("_validate")]
    ck.ob("GraphQLSchema.bake calls _validate_extensions() and _validate() once each", len(ve) == 1 and len(v) == 1, b, b.node, construct="bake:calls")
    if len(ve) != 1 or len(v) != 1:
        return
    for c, nm in ((ve[0], "_validate_extensions"), (v[0], "_validate")):
        ok = bv.all_paths_to_return_pass([c]) and not bv.try_handlers_around(c) and not bv.enclosing_loops(c) and not bv.conditions(c)
        ck.ob(f"GraphQLSchema.bake: every path to a normal return passes {nm}(), unconditionally and outside any handler", ok, b, c, construct=f"bake:must-pass:{nm}")
    swallow = [h for h in bv.handlers() if is_broad_handler(h) and all(isinstance(s, ast.Pass) for s in h.body)]
    ck.count("bake_swallowing_blocks", len(swallow), 0)
    for h in swallow:
        tr = bv.parent(h)
        body_first = tr.body[0]
        ok = bv.dominated_by(body_first, bv.stmt_of(ve[0])) and bv.cfg.all_paths_pass(bv.cfg_node(body_first).id, bv.cfg.return_exit.id, [bv.cfg_node(v[0]).id], skip_exc=False)
        ck.ob(f"GraphQLSchema.bake: the swallowing block around `{unparse(body_first)[:40]}` lies after _validate_extensions() and before _validate()", ok, b, tr,
              construct=f"bake:swallow:{unparse(body_first)[:30]}", detail="whatever a failed bake step left half-built is still judged by _validate()")
    after = [s for s in b.body if b.body.index(s) > b.body.index(bv.stmt_of(v[0]))] if bv.stmt_of(v[0]) in b.body else None
    ck.ob("GraphQLSchema.bake: the introspection tables are filled only after _validate()", after is not None and any("_operation_types" in unparse(s) for s in after), b, v[0],
          construct="bake:fill-after")
    e = repo.func("tartiflette/engine.py", "Engine.cook")
    ev = FuncView(e)
    st = [n for n in walk_no_nested(e.node) if isinstance(n, ast.Assign) and unparse(n.targets[0]) == "self._schema"]
    ok = len(st) == 1 and isinstance(st[0].value, ast.Await) and unparse(st[0].value.value.func) == "SchemaBakery.bake"
    ck.ob("Engine.cook: the engine's schema is bound only from the awaited SchemaBakery.bake(...)", ok, e, st[0] if st else e.node, construct="cook:schema-from-bake")
    ck.ob("Engine.cook: the bake call is not inside a handler", bool(st) and not ev.try_handlers_around(st[0]), e, st[0] if st else e.node, construct="cook:no-handler")
    ck2 = [n for n in walk_no_nested(e.node) if isinstance(n, ast.Assign) and unparse(n.targets[0]) == "self._cooked"]
    ok = len(ck2) == 1 and unparse(ck2[0].value) == "True" and st and ev.dominated_by(ck2[0], st[0])
    ck.ob("Engine.cook: the cooked flag is set only after the bake succeeded", bool(ok), e, ck2[0] if ck2 else e.node, construct="cook:flag-after-bake")
    others = [f.short for f in repo.all_funcs() for n in walk_no_nested(f.node) if isinstance(n, ast.Assign) and any(unparse(t) in ("self._cooked", "self._schema") for t in n.targets)
              and f.cls is not None and f.cls.name == "Engine" and f.qualname not in ("Engine.cook", "Engine.__init__")]
    ck.ob("nobody else marks an engine cooked or binds its schema", not others, where="tartiflette/engine.py", construct="cook:single-writer", detail=str(others))
    i = repo.cls("tartiflette/engine.py", "Engine").self_attrs()
    ck.ob("an uncooked engine has no schema", unparse(i.get("_schema")) == "None" and unparse(i.get("_cooked")) == "False", where="tartiflette/engine.py", construct="cook:initial")
    chain = [("tartiflette/schema/bakery.py", "SchemaBakery.bake"), ("tartiflette/schema/bakery.py", "SchemaBakery._preheat"), ("tartiflette/schema/transformer.py", "schema_from_sdl"),
             ("tartiflette/language/parsers/lark/parser.py", "parse_to_document"), ("tartiflette/__init__.py", "create_engine")]
    for rel, name in chain:
        f = repo.func(rel, name)
        hs = [h for h in FuncView(f).handlers() if not any(isinstance(x, ast.Raise) for x in ast.walk(h))]
        ck.ob(f"{name}: no handler swallows an exception on the way from the SDL to the engine", not hs, f, hs[0] if hs else f.node, construct=f"chain:{name}")
    bk = repo.func("tartiflette/schema/bakery.py", "SchemaBakery.bake")
    bkv = FuncView(bk)
    c = bkv.maybe_call("bake")
    ck.ob("SchemaBakery.bake awaits schema.bake and returns the schema only afterwards", c is not None and bkv.is_awaited(c) and all(bkv.dominated_by(r, bkv.stmt_of(c)) for r in bkv.returns()),
          bk, c or bk.node, construct="chain:await-bake")
    ce = repo.func("tartiflette/__init__.py", "create_engine")
    cv = FuncView(ce)
    ck_ = cv.maybe_call("cook")
    ck.ob("create_engine awaits cook and returns the engine only afterwards", ck_ is not None and cv.is_awaited(ck_) and all(cv.dominated_by(r, cv.stmt_of(ck_)) for r in cv.returns()), ce,
          ck_ or ce.node, construct="chain:create-engine")


def _find_func(repo, qual):
    mod = repo.mod(SCH)
    return mod.func(qual)


def _clauses(ck, repo):
    n = 0
    claimed = set()
    from ..q import inlined_view as _iv
    for qual, clause, conds, handler, fragment in CLAUSES:
        f = _find_func(repo, qual)
        fv = _iv(repo, f, max_stmts=30)   # a per-candidate helper method is part of the validator
        cands = []
        for c in fv.calls(["append"]):
            if unparse(c.func.value) == "errors":
                cands.append((c, unparse(c.args[0]) if c.args else ""))
        for r in fv.returns():
            if isinstance(r.value, ast.List) and r.value.elts:
                cands.append((r, unparse(r.value)))
        for c in fv.calls(["extend"]):
            if unparse(c.func.value) == "errors":
                cands.append((c, unparse(c.args[0]) if c.args else ""))
        hit = None
        # the message fragment only disambiguates between several reports of one validator: a reworded message is not a
        # violation, so a report under the clause's guard that no other clause claimed is accepted as well
        for use_text in (True, False):
            for node, text in cands:
                if use_text and fragment not in text and not (qual.endswith("_validate_enum_values_are_unique")):
                    continue
                if not use_text and (id(node) in claimed or any(fr in text for _, _, _, _, fr in CLAUSES if fr != fragment)):
                    continue
                import re as _re
                got = {(_re.sub(r"\b_h\d+_", "", t_), o_) for t_, o_ in fv.conditions(node)}   # (names of an inlined helper carry a prefix)
                if not all(tuple(x) in got for x in conds):
                    continue
                if handler is not None:
                    h = fv.enclosing(node, (ast.ExceptHandler,))
                    member = handler == "KeyError" and any(o == "F" and " in self." in t and " not in " not in t for t, o in got) or \
                        handler == "KeyError" and any(o == "T" and " not in self." in t for t, o in got)
                    if (h is None or handler not in handler_types(h)) and not member:
                        continue
                hit = node
                break
            if hit is not None:
                break
        if hit is not None:
            claimed.add(id(hit))
        n += 1
        ck.ob(f"clause `{clause}`: {qual.split('.')[-1]} reports it under the guard the clause names", hit is not None, f, hit or f.node, construct=f"clause:{qual.split('.')[-1]}:{clause}",
              detail=f"needs an error containing '{fragment}' under {conds}" + (f" in `except {handler}`" if handler else ""))
    ck.count("clause_instances", n, 27)
    _clause_tables(ck, repo)
    # the table the input-type clause reads: exactly scalars, enums and input objects are recorded as input types
    writers = {}
    for m in sc_methods(repo).values():
        for c in FuncView(m).calls("append"):
            if unparse(c.func.value) == "self._input_types":
                writers[m.name] = (m, c, set(FuncView(m).conditions(c)))
    p_ = {k: v[0].positional_params[1] for k, v in writers.items()}
    ok = set(writers) == {"add_type_definition", "add_scalar_definition", "add_enum_definition"} and \
        {(t, o) for t, o in writers["add_type_definition"][2] if "isinstance" in t} == {(f"isinstance({p_['add_type_definition']}, GraphQLInputObjectType)", "T")} and \
        not {(t, o) for t, o in writers["add_scalar_definition"][2] if "isinstance" in t} and not {(t, o) for t, o in writers["add_enum_definition"][2] if "isinstance" in t} and \
        all(unparse(v[1].args[0]) == f"{p_[k]}.name" for k, v in writers.items())
    any_w = next(iter(writers.values()), None)
    ck.ob("the input-type table records every scalar, every enum and exactly the input objects among the other types, by name", ok, any_w[0] if any_w else None,
          any_w[1] if any_w else None, where=None if any_w else SCH, construct="input-types:writers", detail=str({k: sorted(v[2]) for k, v in writers.items()}))
    # glue: helper validators are called by the nullary ones with the right operands
    sc = repo.cls(SCH, "GraphQLSchema")
    for caller, callee in (("_validate_object_follow_interfaces", "_validate_field_follow_interface"), ("_validate_arguments_have_valid_type", "_validate_type_is_an_input_types"),
                           ("_validate_input_type_composed_of_input_type", "_validate_type_is_an_input_types")):
        cv = FuncView(sc.methods[caller])
        cs = cv.calls(callee)
        if not cs:
            # through a per-candidate helper method of the schema class: the helper is called in the loops and calls the callee
            cs = [c for c in cv.calls() if isinstance(c.func, ast.Attribute) and unparse(c.func.value) == "self" and c.func.attr in sc.methods
                  and FuncView(sc.methods[c.func.attr]).calls(callee)]
        ck.ob(f"{caller} applies {callee} to every candidate", bool(cs) and all(cv.enclosing_loops(c) for c in cs), sc.methods[caller], cs[0] if cs else sc.methods[caller].node,
              construct=f"glue:{caller}:{callee}")
    # a validator judges *every* candidate only if it walks a complete registry: the tables every definition is entered into when
    # it is registered (and `_input_types`, whose writers are checked above) - not an index derived at registration time, which
    # misses what extensions add later (`extend type X implements I` fills interfaces_names after X was registered)
    from ..q import inlined_view
    COMPLETE = {"type_definitions", "_directive_definitions", "extensions", "_schema_directives", "_input_types"}
    n_src = 0
    for mname, m in sorted(sc.methods.items()):
        if not mname.startswith("_validate") or m.positional_params != ["self"]:
            continue
        mv = inlined_view(repo, m)
        for x in ast.walk(mv.node):
            if isinstance(x, (ast.For, ast.comprehension)):
                t = unparse(x.iter)
                if not t.startswith("self."):
                    continue
                attr = t[len("self."):].split(".")[0].split("(")[0].split("[")[0]
                n_src += 1
                ck.ob(f"{mname} walks a complete registry (`{t}`)", attr in COMPLETE, m, x.iter, construct=f"glue:registry:{mname}:{attr}",
                      detail="an index filled when a definition is registered does not see what `extend ...` adds afterwards")
    ck.count("validator_registry_walks", n_src, 15)
    f = sc.methods["_validate_field_follow_interface"]
    c = FuncView(f).maybe_call("_validated_field_args_are_same_as_interface_args")
    ck.ob("_validate_field_follow_interface checks the arguments of every field it found", c is not None and unparse(c.args[-1]) == "errors", f, c or f.node, construct="glue:field-args")
    af = sc.methods["_validate_arguments_have_valid_type"]
    av = FuncView(af)
    # every iteration of the method, statement loops and comprehension generators alike, with the filters in force
    gens = []   # (target, iter text, filters)
    for l in av.loops():
        if isinstance(l, ast.For):
            gens.append((unparse(l.target), unparse(l.iter), [t for t, o in av.conditions(l) if not t.startswith("isinstance(errors")]))
    for n in ast.walk(af.node):
        if isinstance(n, (ast.ListComp, ast.GeneratorExp, ast.SetComp)):
            for g_ in n.generators:
                gens.append((unparse(g_.target), unparse(g_.iter), [unparse(x) for x in g_.ifs]))
    local_lists = {unparse(n.targets[0]) for n in walk_no_nested(af.node) if isinstance(n, ast.Assign)}
    sources = [(t, it, fl) for t, it, fl in gens if it not in local_lists]
    tvar = next((t for t, it, _ in sources if it == "self.type_definitions.values()"), "gqltype")
    fvar = next((t for t, it, _ in sources if it == f"{tvar}.implemented_fields.values()"), "field")
    dvar = next((t for t, it, _ in sources if it == "self._directive_definitions.values()"), "directive")
    its = sorted(it for _, it, _ in sources)
    want = sorted(["self.type_definitions.values()", f"{tvar}.implemented_fields.values()", f"{fvar}.arguments.values()", "self._directive_definitions.values()", f"{dvar}.arguments.values()"])
    # the only filter a candidate may meet: "this type has fields at all" (what the AttributeError handler expresses in the loop form)
    allowed = {f"hasattr({tvar}, 'implemented_fields')"}
    filters = sorted({x for _, _, fl in sources for x in fl} - allowed)
    ck.ob("argument types are checked on every field of every type and on every directive definition", its == want and not filters,
          af, af.node, construct="glue:argument-sites", detail=f"iterations {its}; filters {filters}")
    for meth, (ext_cls, tgt_cls) in EXT_KINDS.items():
        m = sc.methods[meth]
        mv = FuncView(m)
        c = mv.maybe_call("_validate_extension")
        lp = [l for l in mv.loops() if isinstance(l, ast.For) and f"isinstance(x, {ext_cls})" in unparse(l.iter)]
        ok = c is not None and len(lp) == 1 and [unparse(a) for a in c.args][:3] == ["extended", "extension.name", tgt_cls]
        src = [n_ for n_ in walk_no_nested(m.node) if isinstance(n_, ast.Assign) and unparse(n_.targets[0]) == "extended"]
        ok = ok and len(src) == 1 and unparse(src[0].value) == "self.type_definitions.get(extension.name)"
        ck.ob(f"{meth}: every {ext_cls} is checked against a target of kind {tgt_cls}", ok, m, c or m.node, construct=f"glue:ext:{meth}")
        ext = [x for x in mv.calls("extend") if unparse(x.func.value) == "errors" and unparse(x.args[0]) == "ext_errors"]
        ck.ob(f"{meth}: target errors are kept", len(ext) == 1 and not mv.conditions(ext[0]) and bool(lp) and contains(lp[0], ext[0]), m, m.node, construct=f"glue:ext:{meth}:kept")
        st_ = mv.stmt_of(c) if c is not None else None
        ck.ob(f"{meth}: the target verdict is what _validate_extension answered", isinstance(st_, ast.Assign) and unparse(st_.targets[0]) == "ext_errors", m, c or m.node,
              construct=f"glue:ext:{meth}:verdict")
        dd = [x for x in mv.calls("_validate_extension_directives")]
        ok = len(dd) == 1 and [unparse(a) for a in dd[0].args][:2] == ["extension", "extended"] and set(mv.conditions(dd[0])) == {("ext_errors", "F")} and \
            isinstance(mv.parent(dd[0]), ast.Call) and unparse(mv.parent(dd[0]).func) == "errors.extend"
        ck.ob(f"{meth}: repeated directives are judged (and kept) exactly when the target is of the right kind", ok, m, dd[0] if dd else m.node, construct=f"glue:ext:{meth}:directives")
        specific = [x for x in mv.calls("append") if unparse(x.func.value) == "errors"]
        ck.ob(f"{meth}: the kind-specific clauses are judged only for a target of the right kind (they read it)", all(("ext_errors", "F") in mv.conditions(x) for x in specific), m,
              specific[0] if specific else m.node, construct=f"glue:ext:{meth}:specific-guarded")
        r_ = mv.returns()
        ck.ob(f"{meth}: returns the accumulated errors", len(r_) == 1 and unparse(r_[0].value) == "errors", m, r_[0] if r_ else m.node, construct=f"glue:ext:{meth}:return")
    ve = _find_func(repo, "_validate_extension")
    vev = FuncView(ve)
    e0, e1, e2 = ve.positional_params[:3]
    rets = vev.returns()
    kinds = {}
    for r_ in rets:
        cs_ = set(vev.conditions(r_))
        kinds[("empty" if unparse(r_.value) == "[]" else ("missing" if (e0, "F") in cs_ else "wrong-kind"))] = cs_
    ck.ob("_validate_extension: missing target / target of another kind / fine - exactly under those conditions",
          kinds == {"missing": {(e0, "F")}, "wrong-kind": {(e0, "T"), (f"isinstance({e0}, {e2})", "F")}, "empty": {(e0, "T"), (f"isinstance({e0}, {e2})", "T")}}, ve, ve.node,
          construct="glue:ext:_validate_extension:table", detail=str(kinds))
    vd = _find_func(repo, "_validate_extension_directives")
    vdv = FuncView(vd)
    r_ = vdv.returns()
    lp_ = [l for l in vdv.loops() if isinstance(l, ast.For)]
    ap_ = [x for x in vdv.calls("append") if unparse(x.func.value) == "errors"]
    src_ = [n_ for n_ in walk_no_nested(vd.node) if isinstance(n_, ast.Assign) and unparse(n_.targets[0]) == "extended_dir"]
    ok = len(r_) == 1 and unparse(r_[0].value) == "errors" and len(lp_) == 1 and unparse(lp_[0].iter) == f"{vd.positional_params[0]}.directives" and len(ap_) == 1 and \
        set(vdv.conditions(ap_[0])) == {(f"{unparse(lp_[0].target)}.name.value in extended_dir", "T")} and len(src_) == 1 and \
        unparse(src_[0].value) == f"[x.name.value for x in {vd.positional_params[1]}.directives]"
    ck.ob("_validate_extension_directives: a directive of the extension is reported iff the extended type already carries one of that name; the list is returned", ok, vd, vd.node,
          construct="glue:ext:_validate_extension_directives")
    # type equality used by the conformance clauses keeps list and non-null apart
    for rel, cname in (("tartiflette/types/list.py", "GraphQLList"), ("tartiflette/types/non_null.py", "GraphQLNonNull")):
        c = repo.cls(rel, cname)
        eq = repo.find_method(c, "__eq__")
        ok_eq = False
        if eq is not None:
            o_ = eq.positional_params[1]
            rets = FuncView(eq).returns()
            class_tests = {f"isinstance({o_}, type(self))", f"isinstance({o_}, self.__class__)", f"type(self) is type({o_})", f"type({o_}) is type(self)", f"type(self) == type({o_})",
                           f"self.__class__ is {o_}.__class__", f"{o_}.__class__ is self.__class__"}
            if eq.cls is c:
                class_tests.add(f"isinstance({o_}, {cname})")   # naming the class is right only in the class's own method
            inner = {f"self.gql_type == {o_}.gql_type", f"{o_}.gql_type == self.gql_type"}
            if len(rets) == 1 and rets[0].value is not None:
                v = rets[0].value
                alts = v.values if isinstance(v, ast.BoolOp) and isinstance(v.op, ast.Or) else [v]
                conj = [a for a in alts if unparse(a) not in ("self is " + o_, o_ + " is self")]
                if len(conj) == 1:
                    parts = {unparse(x) for x in (conj[0].values if isinstance(conj[0], ast.BoolOp) and isinstance(conj[0].op, ast.And) else [conj[0]])}
                    ok_eq = bool(parts & class_tests) and bool(parts & inner) and parts <= class_tests | inner
        own, same_class = ok_eq, False
        ck.ob(f"{cname}.__eq__ compares wrappers of its own kind only (so `[T]` never equals `T!` in the interface-conformance clauses)", own or same_class, eq, eq.node if eq else c.node,
              where=rel, construct=f"type-eq:{cname}", detail="the conformance clauses compare field and argument types with == / !=")
    # a swallowed per-type failure must not end the scan of the remaining types
    for m in sorted(sc.methods.values(), key=lambda m: m.name):
        if not m.name.startswith("_validate") or m.positional_params != ["self"]:
            continue
        mv = FuncView(m)
        for h in mv.handlers():
            if any(isinstance(x, ast.Raise) for x in ast.walk(h)):
                continue
            tr = mv.parent(h)
            loops_inside = [l for s_ in tr.body for l in ast.walk(s_) if isinstance(l, ast.For) and ("self." in unparse(l.iter))]
            inside_loop = [l for l in mv.enclosing_loops(tr) if isinstance(l, ast.For)]
            appends = any(isinstance(x, ast.Call) and callee_last(x) == "append" for x in ast.walk(h))
            ok = appends or not [l for l in loops_inside if "type_definitions" in unparse(l.iter) or "_directive_definitions" in unparse(l.iter) or "extensions" in unparse(l.iter)]
            ck.ob(f"{m.name}: the handler `except {unparse(h.type) if h.type else ''}` isolates one candidate (its try is inside the scan loop, not around it)", ok, m, tr,
                  construct=f"isolation:{m.name}:{unparse(h.type) if h.type else 'bare'}",
                  detail="hoisting the try around the loop makes the first candidate without the attribute end the whole scan: later types are never checked")
    vu = _find_func(repo, "_value_uniqueness")
    vv = FuncView(vu)
    ap = [c for c in vv.calls("append") if unparse(c.func.value) == "double"]
    ok = len(ap) == 1 and ("value in seen", "T") in vv.conditions(ap[0]) and len([c for c in vv.calls("append") if unparse(c.func.value) == "seen" and not vv.conditions(c)]) == 1
    ck.ob("_value_uniqueness reports a value iff it was seen before", ok, vu, ap[0] if ap else vu.node, construct="glue:value-uniqueness")


def _redefinitions(ck, repo):
    for meth, table in (("add_type_definition", "self.type_definitions"), ("add_directive_definition", "self._directive_definitions"), ("add_scalar_definition", "self._scalar_definitions"),
                        ("add_enum_definition", "self._enum_definitions")):
        m = repo.func(SCH, f"GraphQLSchema.{meth}")
        mv = FuncView(m)
        p = m.positional_params[1]
        rs = mv.raises()
        ok = len(rs) == 1 and "RedefinedImplementation" in unparse(rs[0].exc) and set(mv.conditions(rs[0])) == {(f"{p}.name in {table}", "T")}
        ck.ob(f"{meth}: a name already present raises RedefinedImplementation", ok, m, rs[0] if rs else m.node, construct=f"redefine:{meth}:raise")
        from ..effects import write_sites
        stores = [s for s in write_sites(m) if s.root == "self"] + [c for c in mv.calls(["add_type_definition"])]
        test = [n for n in mv.cfg.nodes if n.kind == "test" and n.text() == f"{p}.name in {table}"]
        ok = bool(test) and all(mv.cfg.dominates(test[0].id, mv.cfg_node(s.node if hasattr(s, "node") else s).id, skip_exc=True) and
                                (f"{p}.name in {table}", "F") in mv.conditions(s.node if hasattr(s, "node") else s) for s in stores) and bool(stores)
        ck.ob(f"{meth}: nothing is stored before the redefinition test passed", ok, m, m.node, construct=f"redefine:{meth}:no-store-before")
    t = repo.mod("tartiflette/schema/transformer.py")
    users = {"add_type_definition": 0, "add_directive_definition": 0, "add_scalar_definition": 0, "add_enum_definition": 0}
    for f in t.funcs.values():
        for c in FuncView(f).calls(list(users)):
            users[callee_last(c)] += 1
    ck.ob("schema construction registers types, scalars, enums and directives through the redefinition-checking methods", all(v >= 1 for v in users.values()), where=t.relpath,
          construct="redefine:used", detail=str(users))
    direct = [f.short for f in t.funcs.values() for n in walk_no_nested(f.node) if isinstance(n, ast.Assign) and any(isinstance(x, ast.Subscript) and
              unparse(x.value).endswith(("type_definitions", "_directive_definitions")) for x in n.targets)]
    ck.ob("schema construction never stores into the definition tables directly", not direct, where=t.relpath, construct="redefine:no-bypass", detail=str(direct))


def _clause_tables(ck, repo):
    """Clauses whose guard is a boolean combination: decided as per-candidate decision tables."""
    import itertools
    from ..pathtab import Atoms, evaluate, iteration_outcomes

    sc = repo.cls(SCH, "GraphQLSchema")

    def table(f, atoms, preds, want_fn, tag, lab=None):
        fv = FuncView(f)
        lps = [l for l in fv.loops() if isinstance(l, ast.For) and not fv.enclosing_loops(l)]
        if len(lps) != 1:
            ck.ob(f"{f.name}: one scan loop over the candidates", False, f, f.node, construct=f"ctable:{tag}:loop")
            return
        label = lab or (lambda n: "report" if n.kind == "stmt" and isinstance(n.ast, ast.Expr) and isinstance(n.ast.value, ast.Call) and unparse(n.ast.value.func) == "errors.append" else None)
        for bits in itertools.product([False, True], repeat=len(preds)):
            val = dict(zip(preds, bits))
            want = want_fn(val)
            got = iteration_outcomes(fv.cfg, lps[0], lambda n, env: evaluate(n.ast, env, val, atoms), label)
            ck.ob(f"{f.name} table {val}", got == {frozenset(want)}, f, lps[0], construct=f"ctable:{tag}:" + "".join(str(int(b)) for b in bits),
                  detail=f"per candidate {sorted(map(sorted, got))}, want {sorted(want)}" + atoms.note())
        ck.ob(f"{f.name}: every type definition is a candidate", unparse(lps[0].iter) in ("self.type_definitions.items()", "self.type_definitions.values()") and
              not any(isinstance(n, (ast.Break, ast.Return)) for n in walk_no_nested(lps[0])), f, lps[0], construct=f"ctable:{tag}:all")
        r = fv.returns()
        ck.ob(f"{f.name}: returns the accumulated errors", len(r) == 1 and unparse(r[0].value) == "errors", f, r[0] if r else f.node, construct=f"ctable:{tag}:return")

    f = sc.methods["_validate_all_scalars_have_implementations"]
    atoms = Atoms({"isinstance(gql_type, GraphQLScalarType)": "scalar", "gql_type.coerce_output is None": "no_out", "gql_type.coerce_input is None": "no_in",
                   "gql_type.parse_literal is None": "no_lit"})
    table(f, atoms, ["scalar", "no_out", "no_in", "no_lit"], lambda v: {"report"} if v["scalar"] and (v["no_out"] or v["no_in"] or v["no_lit"]) else set(), "scalars")
    f = sc.methods["_validate_non_empty_object"]
    atoms = Atoms({"isinstance(gql_type, GraphQLObjectType)": "object"})
    atoms.funcs.append(lambda e, t: "has_fields" if isinstance(e, ast.ListComp) and unparse(e.generators[0].iter) == "gql_type.implemented_fields" else None)
    table(f, atoms, ["object", "has_fields"], lambda v: {"report"} if v["object"] and not v["has_fields"] else set(), "non-empty")
    fv = FuncView(f)
    comps = [n for n in ast.walk(f.node) if isinstance(n, ast.ListComp)]
    ok = len(comps) == 1 and [unparse(i) for i in comps[0].generators[0].ifs] == [f"not {unparse(comps[0].generators[0].target)}.startswith('__')"]
    ck.ob("_validate_non_empty_object: the fields counted are the declared ones (the injected __ fields do not count)", ok, f, comps[0] if comps else f.node, construct="ctable:non-empty:filter")
    u = _find_func(repo, "_value_uniqueness")
    uv = FuncView(u)
    lps = [l for l in uv.loops() if isinstance(l, ast.For)]
    atoms = Atoms({"value in seen": "seen", "value in double": "double"})
    for seen, dbl in itertools.product([False, True], repeat=2):
        if dbl and not seen:
            continue
        val = {"seen": seen, "double": dbl}
        want = {"double", "seen"} if seen and not dbl else {"seen"}
        got = iteration_outcomes(uv.cfg, lps[0], lambda n, env: evaluate(n.ast, env, val, atoms),
                                 lambda n: ("double" if n.kind == "stmt" and unparse(n.ast).startswith("double.append(") else ("seen" if n.kind == "stmt" and unparse(n.ast).startswith("seen.append(") else None))) if lps else set()
        ck.ob(f"_value_uniqueness table {val}", got == {frozenset(want)}, u, lps[0] if lps else u.node, construct=f"ctable:uniq:{int(seen)}{int(dbl)}", detail=str(sorted(map(sorted, got))))
    r = uv.returns()
    ck.ob("_value_uniqueness returns the values seen twice", len(r) == 1 and unparse(r[0].value) == "double" and lps and unparse(lps[0].iter) == u.positional_params[0], u,
          r[0] if r else u.node, construct="ctable:uniq:return")
    e = sc.methods["_validate_enum_values_are_unique"]
    c = FuncView(e).maybe_call("_value_uniqueness")
    ck.ob("_validate_enum_values_are_unique: uniqueness is judged on the string form of every value of the enum", c is not None and
          [unparse(a) for a in c.args] == ["[str(x.value) for x in gql_type.values]"], e, c or e.node, construct="ctable:uniq:operand")


def bake_pipeline(ck, repo):
    """GraphQLSchema.bake runs every stage once, in this order, on every path to its normal return (shared with C11 and
    C13: an extension, a registered resolver or a hook exists only if its stage ran)."""
    b = repo.func(SCH, "GraphQLSchema.bake")
    bv = FuncView(b)
    stages = [("_inject_introspection_fields", []), ("_validate_extensions", []), ("_bake_extensions", []), ("bake_registered_objects", ["self"]),
              ("_bake_types", [b.positional_params[1]]), ("_validate", [])]
    calls = []
    for name, args in stages:
        cs = bv.calls(name)
        ok = len(cs) == 1 and [unparse(a) for a in cs[0].args] == args and not bv.conditions(cs[0]) and not bv.enclosing_loops(cs[0]) and \
            bv.cfg.all_paths_pass(bv.cfg.entry.id, bv.cfg.return_exit.id, [bv.cfg_node(cs[0]).id], skip_exc=True)
        ck.ob(f"GraphQLSchema.bake runs {name}({', '.join(args)}) once, unconditionally", ok, b, cs[0] if cs else b.node, construct=f"pipeline:{name}")
        calls.append(cs[0] if len(cs) == 1 else None)
    for (n1, _), (n2, _), c1, c2 in zip(stages, stages[1:], calls, calls[1:]):
        ok = c1 is not None and c2 is not None and bv.dominated_by(c2, bv.stmt_of(c1))
        ck.ob(f"GraphQLSchema.bake: {n1} runs before {n2}", ok, b, c2 or b.node, construct=f"pipeline:order:{n1}<{n2}")
    bt = calls[4]
    ck.ob("GraphQLSchema.bake awaits _bake_types", bt is not None and bv.is_awaited(bt), b, bt or b.node, construct="pipeline:await-types")
    lp = [l for l in bv.loops() if isinstance(l, ast.For) and unparse(l.iter) == "self.type_definitions.items()"]
    ap = [c for c in bv.calls("append") if unparse(c.func.value) == "self.types"]
    ok = len(lp) == 1 and len(ap) == 1 and contains(lp[0], ap[0]) and set(bv.conditions(ap[0])) == {("type_name.startswith('__')", "F")} and unparse(ap[0].args[0]) == "type_definition"
    ck.ob("GraphQLSchema.bake lists every type whose name does not start with __ (and only those) in `types`", ok, b, ap[0] if ap else b.node, construct="pipeline:types-list")
    st = {unparse(n.targets[0]): unparse(n.value) for n in walk_no_nested(b.node) if isinstance(n, ast.Assign)}
    want = {"self.queryType": "self._operation_types['query']", "self.mutationType": "self._operation_types['mutation']", "self.subscriptionType": "self._operation_types['subscription']",
            "self.directives": "list(self._directive_definitions.values())"}
    ck.ob("GraphQLSchema.bake fills the introspection root types and directive list from the baked tables", all(st.get(k) == v for k, v in want.items()), b, b.node,
          construct="pipeline:introspection-roots", detail=str({k: st.get(k) for k in want}))
    ot = [n for n in walk_no_nested(b.node) if isinstance(n, ast.Assign) and unparse(n.targets[0]) == "self._operation_types"]
    got = {unparse(k): unparse(v) for k, v in zip(ot[0].value.keys, ot[0].value.values)} if len(ot) == 1 and isinstance(ot[0].value, ast.Dict) else {}
    ck.ob("GraphQLSchema.bake: each operation kind maps to the type definition registered under that kind's root name",
          got == {f"'{k}'": f"self.type_definitions.get(self.{k}_operation_name)" for k in ("query", "mutation", "subscription")}, b, ot[0] if ot else b.node,
          construct="pipeline:operation-types", detail=str(got))


def sc_methods(repo):
    return repo.cls(SCH, "GraphQLSchema").methods


def interface_field_type_table(ck, repo, side="both"):
    """IsValidImplementationFieldType (spec 3.6.3) as a path-outcome table of _validate_field_type_is_same_as_interface_type(field, iface):
    equal -> yes; a non-null field is judged by what it wraps, *whatever the interface type is* ([T]! implements [T], T! implements T);
    only then does a wrapped interface type refuse; a named interface type accepts its possible types.
    side: 'accept' = the clauses a valid SDL relies on (C11), 'refuse' = those an invalid one must trip (C12)."""
    from ..pathtab import outcome_rows, truth, instance_fact
    f = repo.func(SCH, "GraphQLSchema._validate_field_type_is_same_as_interface_type")
    fv = FuncView(f)
    _, ft, it = f.positional_params
    rows = outcome_rows(fv)
    if not rows:
        raise AnalysisError(f"{f.qualname}: no path found")
    n = 0
    for r in rows:
        if r["exit"] != "return_exit" or r["ret"] is None:
            ck.ob(f"{f.name}: every path answers yes or no", False, f, r["last"] or f.node, construct="iface-type:answers")
            continue
        n += 1
        eq = truth(r, f"{ft} == {it}") or truth(r, f"{it} == {ft}")
        fnn = instance_fact(r, ft, "GraphQLNonNull")
        inn = instance_fact(r, it, "GraphQLNonNull")
        ils = instance_fact(r, it, "GraphQLList")
        ret = r["ret"]
        txt = unparse(ret)
        kind = "OTHER"
        if isinstance(ret, ast.Constant) and ret.value is True:
            kind = "YES"
        elif isinstance(ret, ast.Constant) and ret.value is False:
            kind = "NO"
        elif isinstance(ret, ast.Call) and callee_last(ret) == f.name:
            kind = "UNWRAP"
        elif "is_possible_type" in txt:
            kind = "POSSIBLE"
        where = r["last"] or f.node
        if side in ("both", "accept"):
            if eq == "T":
                ck.ob(f"{f.name}: equal types conform", kind == "YES", f, where, construct="iface-type:equal")
            if kind in ("NO", "POSSIBLE"):
                ck.ob(f"{f.name}: a field type is refused (or looked up by name) only after its own non-null wrapper was considered: [T]! implements [T]",
                      fnn == "F", f, where, construct="iface-type:nonnull-first",
                      detail=f"path {[(c, o) for c, o in r['conds']]} ends in `return {txt}` without having tested isinstance({ft}, GraphQLNonNull)")
            if fnn == "T" and eq != "T":
                ok = kind == "UNWRAP" and [unparse(a) for a in ret.args] == [f"{ft}.gql_type", it] and not ret.keywords
                ck.ob(f"{f.name}: a non-null field type is judged by the type it wraps against the same interface type", ok, f, where, construct="iface-type:unwrap")
            if kind == "POSSIBLE":
                want = f"self.type_definitions[{it}].is_possible_type({ft})"
                lookup = f"isinstance(self.type_definitions[{it}], GraphQLInterfaceType)"
                ok = (txt == want and truth(r, lookup) == "T") or txt == f"{lookup} and {want}"
                ck.ob(f"{f.name}: a named interface type accepts exactly its possible types", ok and inn == "F" and ils == "F", f, where, construct="iface-type:possible", detail=txt)
        if side in ("both", "refuse"):
            if kind == "YES":
                ck.ob(f"{f.name}: only equal types conform outright", eq == "T", f, where, construct="iface-type:yes-only-equal")
            if eq == "F" and fnn == "F" and ("T" in (inn, ils) or "MAYBE" in (inn, ils)):
                ck.ob(f"{f.name}: a wrapped interface type refuses every other field type", kind == "NO", f, where, construct="iface-type:wrapped-refuses", detail=txt)
            if kind == "OTHER":
                ck.ob(f"{f.name}: the answer is yes, no, the wrapped type's answer or the interface's possible types", False, f, where, construct="iface-type:answer-kind", detail=txt)
    ck.count("interface_field_type_paths", n, 3)
